/* Run-time support for IL translated to C by vlib/il2c.py: carriers, traps for IL-undefined operations. */
#ifndef VERIF_RT_H
#define VERIF_RT_H
#include <stdarg.h>
#include <stddef.h>
#include <stdint.h>
#include <string.h>

void rt_trap(const char *what) __attribute__((noreturn));

static inline float bits_s(uint32_t b) { float f; memcpy(&f, &b, 4); return f; }
static inline double bits_d(uint64_t b) { double f; memcpy(&f, &b, 8); return f; }
static inline uint32_t s_bits(float f) { uint32_t b; memcpy(&b, &f, 4); return b; }

static inline int32_t rt_sdiv32(int32_t a, int32_t b) { if (b == 0) rt_trap("div by zero (w)"); if (a == INT32_MIN && b == -1) rt_trap("div overflow (w)"); return a / b; }
static inline int64_t rt_sdiv64(int64_t a, int64_t b) { if (b == 0) rt_trap("div by zero (l)"); if (a == INT64_MIN && b == -1) rt_trap("div overflow (l)"); return a / b; }
static inline int32_t rt_srem32(int32_t a, int32_t b) { if (b == 0) rt_trap("rem by zero (w)"); if (a == INT32_MIN && b == -1) rt_trap("rem overflow (w)"); return a % b; }
static inline int64_t rt_srem64(int64_t a, int64_t b) { if (b == 0) rt_trap("rem by zero (l)"); if (a == INT64_MIN && b == -1) rt_trap("rem overflow (l)"); return a % b; }
static inline uint32_t rt_udiv32(uint32_t a, uint32_t b) { if (b == 0) rt_trap("udiv by zero (w)"); return a / b; }
static inline uint64_t rt_udiv64(uint64_t a, uint64_t b) { if (b == 0) rt_trap("udiv by zero (l)"); return a / b; }
static inline uint32_t rt_urem32(uint32_t a, uint32_t b) { if (b == 0) rt_trap("urem by zero (w)"); return a % b; }
static inline uint64_t rt_urem64(uint64_t a, uint64_t b) { if (b == 0) rt_trap("urem by zero (l)"); return a % b; }

static inline uint32_t rt_shl32(uint32_t a, uint32_t n) { if (n >= 32) rt_trap("shl count >= 32"); return a << n; }
static inline uint64_t rt_shl64(uint64_t a, uint32_t n) { if (n >= 64) rt_trap("shl count >= 64"); return a << n; }
static inline uint32_t rt_shr32(uint32_t a, uint32_t n) { if (n >= 32) rt_trap("shr count >= 32"); return a >> n; }
static inline uint64_t rt_shr64(uint64_t a, uint32_t n) { if (n >= 64) rt_trap("shr count >= 64"); return a >> n; }
static inline uint32_t rt_sar32(uint32_t a, uint32_t n) { if (n >= 32) rt_trap("sar count >= 32"); return (uint32_t)((int32_t)a >> n); }
static inline uint64_t rt_sar64(uint64_t a, uint32_t n) { if (n >= 64) rt_trap("sar count >= 64"); return (uint64_t)((int64_t)a >> n); }

static inline uint32_t rt_ftosi32(double x) { if (!(x > -2147483649.0 && x < 2147483648.0)) rt_trap("float to int32 out of range"); return (uint32_t)(int32_t)x; }
static inline uint64_t rt_ftosi64(double x) { if (!(x >= -0x1p63 && x < 0x1p63)) rt_trap("float to int64 out of range"); return (uint64_t)(int64_t)x; }
static inline uint32_t rt_ftoui32(double x) { if (!(x > -1.0 && x < 4294967296.0)) rt_trap("float to uint32 out of range"); return (uint32_t)x; }
static inline uint64_t rt_ftoui64(double x) { if (!(x > -1.0 && x < 0x1p64)) rt_trap("float to uint64 out of range"); return (uint64_t)x; }

static inline size_t rt_allocsize(uint64_t n) { if (n > (1ull << 26)) rt_trap("dynamic alloc larger than 64 MiB"); return n ? n : 1; }
#endif
