// In-process model-based checks of /repo's tree.c (AVL tree behind `switch`) and map.c (open-addressing
// hash table behind every name lookup).  DESIGN C15(a) / C16(a).
//
// Linked against tree.o map.o util.o compiled FROM THE CURRENT /repo TREE with ASan+UBSan
// (see vlib/maptree.py).  One translation unit because rapidcheck templates are slow to compile.
//
//   maptree_rc tree-enum K [PART NPARTS]   all insertion orders of 1..k, k <= K (K=8: 46233 orders)
//   maptree_rc tree-rc                     rapidcheck: boundary-biased key sequences (<= MAPTREE_MAXKEYS, default 5000)
//   maptree_rc map-rc                      rapidcheck: operation histories (<= MAPTREE_MAXOPS, default 10000)
//   maptree_rc replay MODE TEXT|@FILE      run exactly one sequence through the same oracle (exit 1 = fails)
//   maptree_rc shrink MODE TEXT|@FILE      delta-debug a failing sequence (each candidate in a forked child,
//                                          so sanitizer aborts and hangs are survivable); prints COUNTEREXAMPLE
//
// Everything random comes from rapidcheck, i.e. from RC_PARAMS (seed= max_success= max_size=).  No time(),
// no rand().  alarm() is used only as a watchdog that turns a non-terminating call into a failure.
//
// Output protocol (stdout):
//   SAMPLE <mode> <text>           a few non-trivial sequences
//   KEY <16 hex>                   hash of every non-trivial sequence (tree-rc, map-rc)
//   STATS {json}                   one line at the end
//   DIED <reason>                  a sanitizer report / abort / watchdog ended the process; the line
//   COUNTEREXAMPLE <mode> <text>   that follows is the *unshrunk* sequence that was running
//   MINIMIZED ...                  the COUNTEREXAMPLE line that follows is delta-debugged
// Exit status 0: all properties hold; 1: a property failed.
//
// Text form, tree: comma separated keys (decimal or 0x hex), e.g. "1,2,3".
// Text form, map: "c=<log2 cap> h=<hashmode> <op> <op> ..." with
//   P<hex>  mapput of the key with these bytes (new key or overwrite, whatever the model says), persistent key bytes
//   p<hex>  the same, but if the key is already present the key bytes are passed in a temporary exact-size heap
//           buffer that is freed right after the call (the table must keep its original key pointer)
//   G<hex>/g<hex>  mapget, persistent / temporary key bytes
//   R<c>    mapfree(NULL) + mapinit(2^c);  D<c>  the same with a `del` callback (must see every stored value once)
//   hashmode 0: struct mapkey filled by mapkey() (and cross-checked against the reference FNV-1a);
//   hashmode 1/2: struct mapkey filled by the harness with a deliberately weak hash (first byte / constant 0),
//   which models full hash collisions: the table must be correct for any deterministic hash.

#include <algorithm>
#include <cinttypes>
#include <cmath>
#include <cstdarg>
#include <csignal>
#include <cstdint>
#include <cstdio>
#include <cstdlib>
#include <cstring>
#include <deque>
#include <functional>
#include <map>
#include <memory>
#include <new>
#include <set>
#include <sstream>
#include <string>
#include <string_view>
#include <unordered_map>
#include <unordered_set>
#include <vector>

#include <stdbool.h>
#include <stddef.h>
#include <stdio.h>
#include <sys/wait.h>
#include <unistd.h>
#include <fcntl.h>

#include <rapidcheck.h>

// util.h is C: `new` is a member name there, and its reallocarray prototype lacks glibc's noexcept.
#define new new_
#define reallocarray verif_unused_reallocarray
extern "C" {
#include "util.h"
}
#undef new
#undef reallocarray

extern "C" void __sanitizer_set_death_callback(void (*)(void));
// gcc's libubsan carries its own copy of the sanitizer runtime, so the death callback registered with libasan is not
// called for UBSan reports: make UBSan abort() instead, which reaches the SIGABRT handler below.
extern "C" const char *__ubsan_default_options() { return "abort_on_error=1:halt_on_error=1:print_stacktrace=1"; }

// ------------------------------------------------------------------------------------------------ utilities

static uint64_t fnv64(const std::string &s) {
  uint64_t h = 0xcbf29ce484222325ull;
  for (unsigned char c : s) { h ^= c; h *= 0x100000001b3ull; }
  return h;
}

static uint64_t splitmix(uint64_t &x) {
  uint64_t z = (x += 0x9e3779b97f4a7c15ull);
  z = (z ^ (z >> 30)) * 0xbf58476d1ce4e5b9ull;
  z = (z ^ (z >> 27)) * 0x94d049bb133111ebull;
  return z ^ (z >> 31);
}

static long env_long(const char *name, long dflt) {
  const char *v = getenv(name);
  if (!v || !*v) return dflt;
  return strtol(v, nullptr, 10);
}

static std::string fmt(const char *f, ...) __attribute__((format(printf, 1, 2)));
static std::string fmt(const char *f, ...) {
  char buf[512];
  va_list ap;
  va_start(ap, f);
  vsnprintf(buf, sizeof buf, f, ap);
  va_end(ap);
  return buf;
}

// The sequence that is running right now, pre-encoded so that a signal handler / sanitizer death callback can
// print it with write(2) only.
static std::string g_cur_mode, g_cur_text;
static bool g_quiet_child = false;

static void emit_current(const char *reason) {
  if (g_quiet_child || g_cur_mode.empty()) return;
  std::string s = std::string("\nDIED ") + reason + "\nCOUNTEREXAMPLE " + g_cur_mode + " " + g_cur_text + "\n";
  size_t off = 0;
  while (off < s.size()) {
    ssize_t w = write(1, s.data() + off, s.size() - off);
    if (w <= 0) break;
    off += (size_t)w;
  }
}
static void death_cb(void) { emit_current("sanitizer"); }
static void on_abort(int) { emit_current("abort"); _exit(1); }
static void on_alarm(int) { emit_current("hang (watchdog)"); _exit(1); }

// Watchdog: base seconds (MAPTREE_WATCHDOG, default 10) plus one second per 2000 steps; a normal run does
// about 10^5 steps per second, so this only fires when a call does not return.
static int g_watchdog = 10;
static void arm(size_t steps) { alarm((unsigned)g_watchdog + (unsigned)(steps / 2000)); }

static void install_handlers() {
  __sanitizer_set_death_callback(death_cb);
  signal(SIGABRT, on_abort);
  signal(SIGALRM, on_alarm);
  g_watchdog = (int)env_long("MAPTREE_WATCHDOG", 10);
}

// ------------------------------------------------------------------------------------------------ tree oracle

struct Node {
  struct treenode tn;     // must be first: treeinsert returns a pointer to it
  uint64_t payload;       // written by the harness after a `new` insertion; nobody else may touch it
  Node *self;
};
static const uint64_t PAYLOAD_MAGIC = 0x5a5aa5a5c3c33c3cull;

struct TreeStats {
  long seqs = 0, insertions = 0, seq_rot = 0, seq_dup = 0, rotations = 0;
  int max_height = 0;
  long max_len = 0;
};

struct TreeRes {
  std::string err;
  long step = -1;
  long rotations = 0, dups = 0;
  int max_height = 0;
};

struct Walk {
  const std::set<uint64_t> *model;
  std::set<uint64_t>::const_iterator it;
  size_t count = 0;
  std::string err;
};

// returns the exact height of the subtree, or -1 after setting w.err
static int walk(Walk &w, struct treenode *n, int depth) {
  if (!n) return 0;
  if (depth > 100) { w.err = "path longer than 100 nodes (cycle?)"; return -1; }
  int h0 = walk(w, (struct treenode *)n->child[0], depth + 1);
  if (h0 < 0) return -1;
  if (++w.count > w.model->size()) { w.err = "more nodes reachable than keys inserted (cycle or duplicate)"; return -1; }
  if (w.it == w.model->end() || *w.it != n->key) {
    w.err = fmt("in-order traversal: found key %" PRIu64 " where the model has %s", (uint64_t)n->key,
                w.it == w.model->end() ? "nothing" : std::to_string(*w.it).c_str());
    return -1;
  }
  ++w.it;
  Node *nd = (Node *)n;
  if (nd->self != nd || nd->payload != ((uint64_t)n->key ^ PAYLOAD_MAGIC)) {
    w.err = fmt("payload of node %" PRIu64 " clobbered", (uint64_t)n->key);
    return -1;
  }
  int h1 = walk(w, (struct treenode *)n->child[1], depth + 1);
  if (h1 < 0) return -1;
  int h = 1 + std::max(h0, h1);
  if (n->height != h) {
    w.err = fmt("node %" PRIu64 ": stored height %d, exact height %d", (uint64_t)n->key, n->height, h);
    return -1;
  }
  if (h0 - h1 > 1 || h1 - h0 > 1) {
    w.err = fmt("node %" PRIu64 ": balance factor %d", (uint64_t)n->key, h1 - h0);
    return -1;
  }
  return h;
}

static bool height_ok(int h, size_t n) { return (double)h <= 1.4405 * std::log2((double)n + 2.0); }

// Rotation rule: before the insertion the harness walks the plain BST search path for the key (the nodes a
// non-balancing insert would make ancestors of the new node).  After the insertion it walks from the root to the
// new node again.  The insertion "rotated" iff the two ancestor sequences differ.
static TreeRes run_tree(const std::vector<uint64_t> &keys) {
  TreeRes R;
  void *root = nullptr;
  std::set<uint64_t> model;
  std::unordered_map<uint64_t, Node *> where;
  std::vector<Node *> all;
  std::vector<struct treenode *> before, after;
  size_t last_full = 0;
  bool mono_asc = true, mono_desc = true;   // the distinct keys so far arrived in increasing / decreasing order
  auto fail = [&](long i, const std::string &m) {
    R.err = fmt("step %ld (insert %" PRIu64 "): ", i, i < (long)keys.size() ? keys[(size_t)i] : 0) + m;
    R.step = i;
  };
  for (size_t i = 0; i < keys.size() && R.err.empty(); i++) {
    uint64_t k = keys[i];
    before.clear();
    for (struct treenode *n = (struct treenode *)root; n && n->key != k && before.size() < 200;
         n = (struct treenode *)n->child[k > n->key])
      before.push_back(n);
    bool absent = !model.count(k);
    Node *r = (Node *)treeinsert(&root, k, sizeof(Node));
    if (!r) { fail((long)i, "treeinsert returned NULL"); break; }
    if (r->tn.key != k) { fail((long)i, fmt("returned node has key %" PRIu64, (uint64_t)r->tn.key)); break; }
    if (r->tn.new_ != absent) {
      fail((long)i, fmt("`new` is %d but the key was %s before", (int)r->tn.new_, absent ? "absent" : "present"));
      break;
    }
    if (absent) {
      if (!model.empty()) {
        if (k < *model.rbegin()) mono_asc = false;
        if (k > *model.begin()) mono_desc = false;
      }
      r->payload = k ^ PAYLOAD_MAGIC;
      r->self = r;
      where[k] = r;
      all.push_back(r);
      model.insert(k);
    } else {
      R.dups++;
      if (where[k] != r) { fail((long)i, "duplicate key returned a different node than the first insertion"); break; }
    }
    if (!root) { fail((long)i, "root is NULL after an insertion"); break; }
    // Full validation (in-order walk against the model, every height, every balance factor, node count, height
    // bound): after every insertion while the tree has <= 128 nodes, afterwards every n/32 insertions and after the
    // last one; the insertions in between get the O(height) check of the search path below.  Nothing is ever
    // removed from the tree, so damage outside the search path is still there at the next full validation.
    size_t n_now = model.size();
    if (n_now <= 128 || i + 1 == keys.size() || i - last_full >= n_now / 32) {
      last_full = i;
      Walk w;
      w.model = &model;
      w.it = model.begin();
      int h = walk(w, (struct treenode *)root, 0);
      if (h < 0) { fail((long)i, w.err); break; }
      if (w.count != model.size() || w.it != model.end()) {
        fail((long)i, fmt("tree has %zu nodes, model has %zu keys", w.count, model.size()));
        break;
      }
      if (!height_ok(h, model.size())) { fail((long)i, fmt("height %d exceeds 1.4405*log2(%zu+2)", h, model.size())); break; }
      R.max_height = std::max(R.max_height, h);
    } else {
      // search path of k: BST bounds, stored height = 1 + max(stored child heights), |balance| <= 1, for every node on
      // the path and for the children hanging off it (the only nodes an insertion may touch)
      struct treenode *n = (struct treenode *)root;
      bool have_lo = false, have_hi = false, found = false;
      uint64_t lo = 0, hi = 0;
      int depth = 0;
      auto local = [&](struct treenode *x) -> bool {
        int a = x->child[0] ? ((struct treenode *)x->child[0])->height : 0;
        int b = x->child[1] ? ((struct treenode *)x->child[1])->height : 0;
        if (x->height != 1 + std::max(a, b)) { fail((long)i, fmt("node %" PRIu64 ": stored height %d, children have %d and %d", (uint64_t)x->key, x->height, a, b)); return false; }
        if (a - b > 1 || b - a > 1) { fail((long)i, fmt("node %" PRIu64 ": balance factor %d", (uint64_t)x->key, b - a)); return false; }
        if (x->child[0] && ((struct treenode *)x->child[0])->key >= x->key) { fail((long)i, "left child key not smaller"); return false; }
        if (x->child[1] && ((struct treenode *)x->child[1])->key <= x->key) { fail((long)i, "right child key not larger"); return false; }
        return true;
      };
      while (n) {
        if (++depth > 100) { fail((long)i, "search path longer than 100 nodes (cycle?)"); break; }
        if ((have_lo && n->key <= lo) || (have_hi && n->key >= hi)) { fail((long)i, fmt("node %" PRIu64 " violates the search-tree order", (uint64_t)n->key)); break; }
        if (!local(n)) break;
        for (int s = 0; s < 2; s++)
          if (n->child[s] && !local((struct treenode *)n->child[s])) break;
        if (!R.err.empty()) break;
        if (n->key == k) { found = true; break; }
        if (k > n->key) { lo = n->key; have_lo = true; } else { hi = n->key; have_hi = true; }
        n = (struct treenode *)n->child[k > n->key];
      }
      if (!R.err.empty()) break;
      if (!found || n != &r->tn) { fail((long)i, "inserted key not found by searching from the root"); break; }
      int h = ((struct treenode *)root)->height;
      if (!height_ok(h, model.size())) { fail((long)i, fmt("height %d exceeds 1.4405*log2(%zu+2)", h, model.size())); break; }
      R.max_height = std::max(R.max_height, h);
    }
    if (absent && (mono_asc || mono_desc)) {
      // distinct keys inserted in monotone order give the minimal height floor(log2 n) + 1 at every step
      int want = 0;
      for (size_t m = model.size(); m; m >>= 1) want++;
      int h = ((struct treenode *)root)->height;
      if (h != want) { fail((long)i, fmt("monotone insertion of %zu keys: height %d, expected %d", model.size(), h, want)); break; }
    }
    if (absent) {
      after.clear();
      struct treenode *n = (struct treenode *)root;
      while (n && n != &r->tn && after.size() < 200) {
        after.push_back(n);
        n = (struct treenode *)n->child[k > n->key];
      }
      if (n != &r->tn) { fail((long)i, "new node not reachable by searching for its key"); break; }
      if (after != before) R.rotations++;
    }
  }
  for (Node *n : all) free(n);
  return R;
}

static std::string tree_text(const std::vector<uint64_t> &keys) {
  std::string s;
  char b[32];
  for (size_t i = 0; i < keys.size(); i++) {
    if (keys[i] >> 32) snprintf(b, sizeof b, "0x%" PRIx64, keys[i]);
    else snprintf(b, sizeof b, "%" PRIu64, keys[i]);
    if (i) s += ',';
    s += b;
  }
  return s;
}

static bool tree_parse(const std::string &t, std::vector<uint64_t> &keys) {
  const char *p = t.c_str();
  while (*p) {
    while (*p == ',' || *p == ' ' || *p == '\n') p++;
    if (!*p) break;
    char *e;
    unsigned long long v = strtoull(p, &e, 0);
    if (e == p) return false;
    keys.push_back(v);
    p = e;
  }
  return true;
}

// ------------------------------------------------------------------------------------------------ tree-enum

static int tree_enum(int K, int part, int nparts) {
  TreeStats S;
  long idx = 0, samples = 0, spread_orders = 0;
  for (int pass = 0; pass < 2; pass++) {
    // pass 0: keys 1..k.  pass 1 (k <= 7): the same ranks spread over the whole 64-bit range, so that keys above
    // 2^63 and 2^32 take part in every shape.
    for (int k = 1; k <= (pass ? std::min(K, 7) : K); k++) {
      std::vector<int> perm(k);
      for (int i = 0; i < k; i++) perm[i] = i + 1;
      do {
        if (idx++ % nparts != part) continue;
        std::vector<uint64_t> keys(k);
        for (int i = 0; i < k; i++)
          keys[i] = pass ? (uint64_t)(perm[i] - 1) * 0x2492492492492492ull + (perm[i] > 4 ? 0x7ull : 0) : (uint64_t)perm[i];
        // every key once more at the end: the duplicate path (same node, `new` false, tree unchanged)
        std::vector<uint64_t> seq(keys);
        seq.insert(seq.end(), keys.begin(), keys.end());
        g_cur_mode = "tree-enum";
        g_cur_text = tree_text(seq);
        arm(seq.size());
        TreeRes r = run_tree(seq);
        alarm(0);
        if (!r.err.empty()) {
          printf("Falsifiable: tree-enum order #%ld\n%s\n", idx - 1, r.err.c_str());
          std::vector<uint64_t> cut(seq.begin(), seq.begin() + std::min<size_t>(seq.size(), (size_t)r.step + 1));
          printf("MINIMIZED exhaustive-order (truncated at the failing step)\nCOUNTEREXAMPLE tree-enum %s\n",
                 tree_text(cut).c_str());
          return 1;
        }
        if (pass) { spread_orders++; continue; }
        S.seqs++;
        S.insertions += k;
        S.rotations += r.rotations;
        if (r.rotations) {
          S.seq_rot++;
          if (samples < 3 && k >= 5) { printf("SAMPLE tree-enum %s\n", tree_text(keys).c_str()); samples++; }
        }
        S.max_height = std::max(S.max_height, r.max_height);
      } while (std::next_permutation(perm.begin(), perm.end()));
    }
  }
  printf("STATS {\"mode\":\"tree-enum\",\"K\":%d,\"part\":%d,\"nparts\":%d,\"orders\":%ld,\"insertions\":%ld,"
         "\"nontrivial\":%ld,\"rotations\":%ld,\"orders_spread\":%ld,\"max_height\":%d}\n",
         K, part, nparts, S.seqs, S.insertions, S.seq_rot, S.rotations, spread_orders, S.max_height);
  return 0;
}

// ------------------------------------------------------------------------------------------------ tree-rc

enum SegKind { SG_SINGLE, SG_ASC, SG_DESC, SG_STRIDE, SG_RANDOM, SG_RANDSMALL, SG_REPEAT, SG_ZIGZAG, SG_NKINDS };
static const char *SEGNAMES[] = {"single", "asc", "desc", "stride", "random", "randsmall", "repeat", "zigzag"};

struct Seg {
  int kind = 0;
  uint64_t base = 0;
  int delta = 0;
  int count = 0;
  uint64_t aux = 0;   // stride / sub-seed
};

static void showValue(const Seg &s, std::ostream &os) {
  os << SEGNAMES[s.kind] << "(base=0x" << std::hex << (s.base + (uint64_t)(int64_t)s.delta) << std::dec
     << ", n=" << s.count << ", aux=" << s.aux << ")";
}

static const uint64_t BOUNDARY[] = {
    0, 1, 2, 0x7ffffffeull, 0x7fffffffull, 0x80000000ull, 0x80000001ull, 0xfffffffeull, 0xffffffffull, 0x100000000ull,
    0x100000001ull, 0x7ffffffffffffffeull, 0x7fffffffffffffffull, 0x8000000000000000ull, 0x8000000000000001ull,
    0xfffffffffffffffeull, 0xffffffffffffffffull, 255, 256, 65535, 65536};

static void flatten(const std::vector<Seg> &segs, size_t maxkeys, std::vector<uint64_t> &out) {
  for (const Seg &s : segs) {
    uint64_t b = s.base + (uint64_t)(int64_t)s.delta;
    uint64_t sd = s.aux;
    int n = s.kind == SG_SINGLE ? 1 : s.count;
    for (int i = 0; i < n && out.size() < maxkeys; i++) {
      switch (s.kind) {
      case SG_SINGLE: out.push_back(b); break;
      case SG_ASC: out.push_back(b + (uint64_t)i); break;
      case SG_DESC: out.push_back(b - (uint64_t)i); break;
      case SG_STRIDE: out.push_back(b + (uint64_t)i * (s.aux | 1)); break;
      case SG_RANDOM: out.push_back(splitmix(sd)); break;
      case SG_RANDSMALL: out.push_back(b + splitmix(sd) % (uint64_t)(s.count / 2 + 2)); break;
      case SG_REPEAT: if (!out.empty()) out.push_back(out[splitmix(sd) % out.size()]); break;
      case SG_ZIGZAG: out.push_back(i & 1 ? b + (uint64_t)(i / 2 + 1) : b - (uint64_t)(i / 2)); break;
      }
    }
  }
}

static rc::Gen<uint64_t> genBase() {
  std::vector<uint64_t> bs(std::begin(BOUNDARY), std::end(BOUNDARY));
  return rc::gen::weightedOneOf<uint64_t>({
      {6, rc::gen::elementOf(bs)},
      {1, rc::gen::resize(rc::kNominalSize, rc::gen::arbitrary<uint64_t>())},
  });
}

static rc::Gen<std::vector<Seg>> genSegs(int maxkeys) {
  return rc::gen::withSize([=](int size) {
    int sz = std::min(size, 100);
    int maxcount = std::max(2, (int)((long)maxkeys * sz / 100));
    auto seg = rc::gen::build<Seg>(
        rc::gen::set(&Seg::kind, rc::gen::weightedElement<int>({{3, SG_SINGLE}, {4, SG_ASC}, {4, SG_DESC}, {2, SG_STRIDE},
                                                                 {4, SG_RANDOM}, {3, SG_RANDSMALL}, {3, SG_REPEAT},
                                                                 {3, SG_ZIGZAG}})),
        rc::gen::set(&Seg::base, genBase()),
        rc::gen::set(&Seg::delta, rc::gen::resize(rc::kNominalSize, rc::gen::inRange(-3, 4))),
        // a third of the segments are long (up to the whole budget), the rest short
        rc::gen::set(&Seg::count, rc::gen::resize(rc::kNominalSize,
                                                  rc::gen::weightedOneOf<int>({{2, rc::gen::inRange(0, 12)},
                                                                               {2, rc::gen::inRange(0, std::max(2, maxcount / 8) + 1)},
                                                                               {1, rc::gen::inRange(0, maxcount + 1)}}))),
        rc::gen::set(&Seg::aux, rc::gen::resize(rc::kNominalSize,
                                                rc::gen::weightedOneOf<uint64_t>({{1, rc::gen::inRange<uint64_t>(0, 64)},
                                                                                  {1, rc::gen::arbitrary<uint64_t>()}}))));
    return rc::gen::resize(3 + sz / 5, rc::gen::container<std::vector<Seg>>(seg));
  });
}

// ------------------------------------------------------------------------------------------------ map: reference hash and key pool

// Exactly what map.c computes on this platform: `unsigned long` accumulator (64 bit on LP64), 32-bit offset basis
// and prime, no truncation.
static unsigned long refhash(const void *p, size_t n) {
  unsigned long h = 0x811c9dc5;
  const unsigned char *s = (const unsigned char *)p;
  for (size_t i = 0; i < n; i++) h = (h ^ s[i]) * 0x1000193;
  return h;
}

enum Fam { F_C18A, F_C18B, F_C18C, F_C12, F_C8, F_C4, F_LONGC18, F_LASTBYTE, F_BYTE, F_NULS, F_PREFIX, F_BULK, F_NFAM };
static const char *FAMNAMES[] = {"c18a", "c18b", "c18c", "c12", "c8", "c4", "longc18", "lastbyte", "byte", "nuls", "prefix", "bulk"};

struct Pool {
  std::deque<std::string> store;                   // owns every key's bytes; addresses are stable
  std::vector<const std::string *> fam[F_NFAM];
  const std::string *add(int f, std::string s) {
    store.push_back(std::move(s));
    fam[f].push_back(&store.back());
    return &store.back();
  }
};
static Pool *g_pool;

static const unsigned long T18[3] = {0x3ffff, 0x00000, 0x2aaaa};

static void build_pool(size_t bulk) {
  Pool *P = new Pool;
  static const char AL[] = "abcdefghijklmnopqrstuvwxyzABCDEFGHIJKLMNOPQRSTUVWXYZ0123456789_$";   // 64 symbols
  // brute force over all 64^4 four-symbol identifiers: groups that agree in the low 18 / 12 / 8 / 4 bits of the hash
  const size_t WANT18 = 48, WANTN = 64;
  for (int a = 0; a < 64; a++) {
    unsigned long ha = (0x811c9dc5ul ^ (unsigned char)AL[a]) * 0x1000193;
    for (int b = 0; b < 64; b++) {
      unsigned long hb = (ha ^ (unsigned char)AL[b]) * 0x1000193;
      for (int c = 0; c < 64; c++) {
        unsigned long hc = (hb ^ (unsigned char)AL[c]) * 0x1000193;
        for (int d = 0; d < 64; d++) {
          unsigned long h = (hc ^ (unsigned char)AL[d]) * 0x1000193;
          int f = -1;
          unsigned long lo = h & 0x3ffff;
          if (lo == T18[0]) f = F_C18A;
          else if (lo == T18[1]) f = F_C18B;
          else if (lo == T18[2]) f = F_C18C;
          else if ((h & 0xfff) == 0xfff) f = F_C12;
          else if ((h & 0xff) == 0xff) f = F_C8;
          else if ((h & 0xf) == 0xf) f = F_C4;
          if (f < 0) continue;
          if (P->fam[f].size() >= (f <= F_C18C ? WANT18 : WANTN)) continue;
          char s[4] = {AL[a], AL[b], AL[c], AL[d]};
          P->add(f, std::string(s, 4));
        }
      }
    }
  }
  // long keys (300 bytes, embedded NULs) that share a 296-byte prefix, differ only in the last 4 bytes AND collide
  // with family c18a in the low 18 bits
  std::string prefix;
  uint64_t sd = 12345;
  for (int i = 0; i < 296; i++) prefix += (char)(i % 7 == 3 ? 0 : (splitmix(sd) & 0xff));
  unsigned long hp = refhash(prefix.data(), prefix.size());
  for (unsigned v = 0; v < (1u << 24) && P->fam[F_LONGC18].size() < 40; v++) {
    unsigned char t[4] = {(unsigned char)(v >> 16), (unsigned char)(v >> 8), (unsigned char)v, 0x80};
    unsigned long h = hp;
    for (int i = 0; i < 4; i++) h = (h ^ t[i]) * 0x1000193;
    if ((h & 0x3ffff) == T18[0]) P->add(F_LONGC18, prefix + std::string((char *)t, 4));
  }
  // keys of length 300 differing only in the last byte; single-byte keys (including "\0")
  std::string p299 = prefix + "xyz";
  for (int b = 0; b < 256; b++) P->add(F_LASTBYTE, p299 + (char)b);
  for (int b = 0; b < 256; b++) P->add(F_BYTE, std::string(1, (char)b));
  // "", "\0", "\0\0", ... (every key a proper prefix of the next one; the first one has length 0)
  for (int n = 0; n <= 300; n++) if (n != 1) P->add(F_NULS, std::string((size_t)n, '\0'));
  // every proper prefix (length 2..300) of one fixed byte string
  std::string fixed;
  for (int i = 0; i < 300; i++) fixed += (char)(splitmix(sd) & 0xff);
  for (int n = 2; n <= 300; n++) P->add(F_PREFIX, fixed.substr(0, (size_t)n));
  // bulk: distinct identifier-like and binary keys of length 5..25
  for (size_t i = 0; i < bulk; i++) {
    std::string s;
    char b[32];
    if (i % 3 == 0) {
      snprintf(b, sizeof b, "ident_%zu", i);
      s = b;
    } else if (i % 3 == 1) {
      snprintf(b, sizeof b, "%zx.", i);
      s = b;
      uint64_t x = i;
      size_t extra = i % 17;
      for (size_t j = 0; j < extra; j++) s += (char)(splitmix(x) & 0xff);
    } else {
      snprintf(b, sizeof b, "_%zu", i * 2654435761u % 1000003);
      s = std::string("L") + b + "#" + std::to_string(i);
    }
    P->add(F_BULK, s);
  }
  for (int f = F_C18A; f <= F_C18C; f++)
    if (P->fam[f].size() < 40) { fprintf(stderr, "pool: only %zu keys in family %s\n", P->fam[f].size(), FAMNAMES[f]); exit(2); }
  if (P->fam[F_LONGC18].size() < 40) { fprintf(stderr, "pool: only %zu long colliding keys\n", P->fam[F_LONGC18].size()); exit(2); }
  g_pool = P;
}

// ------------------------------------------------------------------------------------------------ map: concrete histories

struct COp {
  char t;                    // 'P' 'G' 'R' 'D'
  bool temp;
  int c;
  const std::string *key;
};

struct History {
  int c0 = 3;
  int hashmode = 0;
  std::vector<COp> ops;
  std::shared_ptr<std::deque<std::string>> own = std::make_shared<std::deque<std::string>>();   // derived / parsed keys
};

static std::string map_text(const History &H) {
  static const char HX[] = "0123456789abcdef";
  std::string s = "c=" + std::to_string(H.c0) + " h=" + std::to_string(H.hashmode);
  for (const COp &o : H.ops) {
    s += ' ';
    if (o.t == 'R' || o.t == 'D') { s += o.t; s += std::to_string(o.c); continue; }
    s += o.temp ? (char)(o.t + 32) : o.t;
    for (unsigned char ch : *o.key) { s += HX[ch >> 4]; s += HX[ch & 15]; }
  }
  return s;
}

static bool map_parse(const std::string &t, History &H) {
  std::istringstream in(t);
  std::string tok;
  auto hexv = [](char c) { return c >= '0' && c <= '9' ? c - '0' : c >= 'a' && c <= 'f' ? c - 'a' + 10 : c >= 'A' && c <= 'F' ? c - 'A' + 10 : -1; };
  while (in >> tok) {
    if (tok.rfind("c=", 0) == 0) { H.c0 = atoi(tok.c_str() + 2); continue; }
    if (tok.rfind("h=", 0) == 0) { H.hashmode = atoi(tok.c_str() + 2); continue; }
    char t = tok[0];
    if (t == 'R' || t == 'D') { H.ops.push_back({t, false, atoi(tok.c_str() + 1), nullptr}); continue; }
    bool temp = t == 'p' || t == 'g';
    char T = temp ? (char)(t - 32) : t;
    if (T != 'P' && T != 'G') return false;
    if ((tok.size() - 1) % 2) return false;
    std::string k;
    for (size_t i = 1; i + 1 < tok.size(); i += 2) {
      int a = hexv(tok[i]), b = hexv(tok[i + 1]);
      if (a < 0 || b < 0) return false;
      k += (char)(a * 16 + b);
    }
    H.own->push_back(k);
    H.ops.push_back({T, temp, 0, &H.own->back()});
  }
  return H.c0 >= 0 && H.c0 <= 20 && H.hashmode >= 0 && H.hashmode <= 2;
}

// ------------------------------------------------------------------------------------------------ map oracle

struct MapRes {
  std::string err;
  long step = -1;
  long ops = 0, growths = 0, reinits = 0, smallcap_full = 0, wraps = 0, scans = 0;
  size_t max_chain = 0, max_cap = 0, max_len = 0;
};

static int g_smallcap = 0;   // 0 skip (default), 1 fail, 2 execute the call (it does not return; the watchdog fires)

static std::vector<void *> g_deleted;
static void del_cb(void *v) { g_deleted.push_back(v); }

static unsigned long mode_hash(int mode, const std::string &k) {
  if (mode == 1) return k.empty() ? 7 : (unsigned char)k[0];
  if (mode == 2) return 0;
  return refhash(k.data(), k.size());
}

struct TmpKey {   // exact-size heap copy: reading one byte too many is an ASan report
  char *p;
  explicit TmpKey(const std::string &s) {
    p = (char *)malloc(s.size() ? s.size() : 1);
    memcpy(p, s.data(), s.size());
  }
  ~TmpKey() { free(p); }
};

static MapRes run_map(const History &H) {
  MapRes R;
  struct map h;
  // the model: key bytes -> value (plus bookkeeping that makes the table scan cheap: the key pointer the table must
  // have stored at the first insertion, the key's hash, and a mark for duplicate detection)
  struct MVal { void *val; const void *stored; unsigned long hash; long mark; };
  std::unordered_map<std::string, MVal> model;
  std::unordered_map<const void *, MVal *> by_ptr;
  long epoch = 0;
  void **last_slot = nullptr;
  const std::string *last_key = nullptr;
  long since_scan = 0;
  long i = 0;
  auto fail = [&](const std::string &m) {
    if (R.err.empty()) { R.err = fmt("step %ld: ", i) + m; R.step = i; }
  };
  auto mk = [&](struct mapkey *k, const std::string &bytes, const void *ptr) {
    if (H.hashmode == 0) {
      mapkey(k, ptr, bytes.size());
      if (k->hash != refhash(bytes.data(), bytes.size()) || k->str != ptr || k->len != bytes.size())
        fail("mapkey() did not produce (FNV-1a hash, pointer, length)");
    } else {
      k->hash = mode_hash(H.hashmode, bytes);
      k->str = ptr;
      k->len = bytes.size();
    }
  };
  auto structural = [&]() {
    if (h.cap == 0 || (h.cap & (h.cap - 1))) { fail(fmt("cap %zu is not a power of two", h.cap)); return; }
    if (h.len != model.size()) { fail(fmt("len is %zu, model has %zu keys", h.len, model.size())); return; }
    if (h.len > h.cap / 2 + 1) { fail(fmt("len %zu > cap/2+1 (cap %zu)", h.len, h.cap)); return; }
  };
  auto scan = [&]() {
    R.scans++;
    epoch++;
    size_t used = 0;
    for (size_t j = 0; j < h.cap && R.err.empty(); j++) {
      if (!h.keys[j].str) continue;
      used++;
      // the table keeps the key pointer of the first insertion, so the model entry is found by pointer identity
      auto bp = by_ptr.find(h.keys[j].str);
      if (bp == by_ptr.end()) { fail(fmt("slot %zu holds a key pointer that was never stored by a mapput of a new key", j)); return; }
      MVal *mv = bp->second;
      if (mv->mark == epoch) { fail(fmt("slot %zu: key stored twice", j)); return; }
      mv->mark = epoch;
      if (h.vals[j] != mv->val) { fail(fmt("slot %zu holds the wrong value", j)); return; }
      if (h.keys[j].hash != mv->hash) { fail(fmt("slot %zu: stored hash differs from the key's hash", j)); return; }
      if (mapget(&h, &h.keys[j]) != mv->val) { fail(fmt("slot %zu: stored key is not findable", j)); return; }
      size_t home = h.keys[j].hash & (h.cap - 1);
      size_t chain = ((j - home) & (h.cap - 1)) + 1;
      R.max_chain = std::max(R.max_chain, chain);
      if (j < home) R.wraps++;
    }
    if (R.err.empty() && used != model.size()) fail(fmt("%zu slots in use, model has %zu keys", used, model.size()));
  };
  // slower variant that trusts nothing but the bytes (used at the end of every history)
  auto scan_bytes = [&]() {
    std::unordered_set<std::string_view> seen;
    for (size_t j = 0; j < h.cap && R.err.empty(); j++) {
      if (!h.keys[j].str) continue;
      std::string_view kv((const char *)h.keys[j].str, h.keys[j].len);
      if (!seen.insert(kv).second) { fail(fmt("slot %zu: key stored twice", j)); return; }
      auto it = model.find(std::string(kv));
      if (it == model.end()) { fail(fmt("slot %zu holds a key the model does not have", j)); return; }
      if (h.vals[j] != it->second.val) { fail(fmt("slot %zu holds the wrong value", j)); return; }
      if (h.keys[j].hash != mode_hash(H.hashmode, it->first)) { fail(fmt("slot %zu: stored hash differs from the key's hash", j)); return; }
    }
    if (R.err.empty() && seen.size() != model.size()) fail(fmt("%zu distinct keys stored, model has %zu", seen.size(), model.size()));
  };
  auto reinit_check = [&](bool with_del) {
    if (with_del) {
      g_deleted.clear();
      mapfree(&h, del_cb);
      std::vector<void *> want;
      for (auto &kv : model) want.push_back(kv.second.val);
      std::sort(want.begin(), want.end());
      std::sort(g_deleted.begin(), g_deleted.end());
      if (want != g_deleted) fail(fmt("mapfree called del %zu times for %zu stored values (or with wrong values)", g_deleted.size(), want.size()));
    } else {
      mapfree(&h, nullptr);
    }
    model.clear();
    by_ptr.clear();
    last_slot = nullptr;
  };

  mapinit(&h, (size_t)1 << H.c0);
  if (h.len != 0 || h.cap != (size_t)1 << H.c0) fail("mapinit: wrong len/cap");
  R.max_cap = h.cap;
  for (; i < (long)H.ops.size() && R.err.empty(); i++) {
    const COp &o = H.ops[(size_t)i];
    R.ops++;
    // the slot returned by the previous mapput stays valid (and keeps its value) until the next mapput
    if (last_slot && *last_slot != model[*last_key].val) { fail("slot of the previous mapput no longer holds its value"); break; }
    if (o.t == 'R' || o.t == 'D') {
      reinit_check(o.t == 'D');
      if (!R.err.empty()) break;
      mapinit(&h, (size_t)1 << o.c);
      if (h.len != 0 || h.cap != (size_t)1 << o.c) { fail("mapinit: wrong len/cap"); break; }
      R.reinits++;
      continue;
    }
    const std::string &kb = *o.key;
    auto it = model.find(kb);
    bool present = it != model.end();
    bool temp = o.temp && (o.t == 'G' || present);
    std::unique_ptr<TmpKey> tk;
    const void *kp = kb.data();
    if (temp) { tk.reset(new TmpKey(kb)); kp = tk->p; }
    struct mapkey k;
    mk(&k, kb, kp);
    if (!R.err.empty()) break;
    if (o.t == 'G') {
      if (!present && h.len >= h.cap) {
        // every slot is occupied (possible for cap 1 and 2 only): keyindex() cannot terminate for an absent key
        R.smallcap_full++;
        if (g_smallcap == 1) { fail(fmt("table is full (len %zu == cap %zu): mapget of an absent key cannot terminate", h.len, h.cap)); break; }
        if (g_smallcap == 0) continue;
      }
      void *r = mapget(&h, &k);
      if (r != (present ? it->second.val : nullptr)) { fail(present ? "mapget of a present key returned the wrong value" : "mapget of an absent key returned non-NULL"); break; }
    } else {
      size_t oldcap = h.cap, oldlen = h.len;
      void **slot = mapput(&h, &k);
      last_slot = nullptr;
      if (h.cap != oldcap) {
        R.growths++;
        if (h.cap < oldcap) { fail("capacity shrank"); break; }
      }
      if (!slot || slot < h.vals || slot >= h.vals + h.cap) { fail("mapput returned a pointer outside vals[0..cap)"); break; }
      size_t j = (size_t)(slot - h.vals);
      if (*slot != (present ? it->second.val : nullptr)) { fail(present ? "mapput of a present key: slot does not hold the stored value" : "mapput of a new key: slot is not NULL"); break; }
      if (!h.keys[j].str || h.keys[j].len != kb.size() || memcmp(h.keys[j].str, kb.data(), kb.size()) != 0) { fail("mapput: the key at the returned slot is not the key that was put"); break; }
      if (!present && h.keys[j].str != kp) { fail("mapput of a new key did not store the caller's key pointer"); break; }
      if (present && h.keys[j].str != it->second.stored) { fail("mapput of a present key replaced the stored key pointer"); break; }
      if (h.len != oldlen + (present ? 0 : 1)) { fail(fmt("len went from %zu to %zu on a put of a%s key", oldlen, h.len, present ? " present" : "n absent")); break; }
      void *v = (void *)(uintptr_t)(((uintptr_t)i + 1) << 4);   // unique, never NULL
      *slot = v;
      if (present) {
        it->second.val = v;
      } else {
        MVal &mv = model[kb];
        mv = MVal{v, kp, k.hash, 0};
        by_ptr[kp] = &mv;
      }
      tk.reset();   // a temporary key dies here; the table must not depend on it
      struct mapkey k2;
      mk(&k2, kb, kb.data());
      if (mapget(&h, &k2) != v) { fail("mapget right after mapput does not return the value just stored"); break; }
      last_slot = slot;
      last_key = o.key;
      size_t home = k2.hash & (h.cap - 1);
      R.max_chain = std::max(R.max_chain, ((j - home) & (h.cap - 1)) + 1);
      if (j < home) R.wraps++;
      since_scan += 64;
    }
    structural();
    R.max_cap = std::max(R.max_cap, h.cap);
    R.max_len = std::max(R.max_len, h.len);
    // full table scan: after every step while the table is small, otherwise amortised (about 64 slots per put)
    since_scan += 1;
    if (R.err.empty() && (h.cap <= 256 || since_scan >= (long)h.cap || i + 1 == (long)H.ops.size())) {
      scan();
      since_scan = 0;
    }
  }
  if (R.err.empty()) {
    i = (long)H.ops.size();
    scan();
    if (R.err.empty()) scan_bytes();
    // every key of the model is findable through a fresh struct mapkey
    for (auto &kv : model) {
      struct mapkey k;
      mk(&k, kv.first, kv.first.data());
      if (mapget(&h, &k) != kv.second.val) { fail("final sweep: a key of the model is not found"); break; }
    }
  }
  mapfree(&h, nullptr);
  return R;
}

// ------------------------------------------------------------------------------------------------ map-rc: phases -> concrete operations

enum PhKind { PH_PUTRUN, PH_GETRUN, PH_MIX, PH_GETPRESENT, PH_DERIVED, PH_REINIT, PH_FILL, PH_NK };
static const char *PHNAMES[] = {"putrun", "getrun", "mix", "getpresent", "derived", "reinit", "fill"};

struct Phase {
  int kind = 0, fam = 0, count = 0, c = 0;
  uint32_t start = 0;
  uint64_t seed = 0;
  bool temp = false, del = false;
};

static void showValue(const Phase &p, std::ostream &os) {
  os << PHNAMES[p.kind] << "(fam=" << FAMNAMES[p.fam] << ", start=" << p.start << ", n=" << p.count << ", seed=" << p.seed
     << ", c=" << p.c << (p.temp ? ", temp" : "") << (p.del ? ", del" : "") << ")";
}

struct Plan {
  int c0 = 3, hashmode = 0;
  std::vector<Phase> phases;
};

static void showValue(const Plan &p, std::ostream &os) {
  os << "c=" << p.c0 << " hashmode=" << p.hashmode << " phases=";
  rc::show(p.phases, os);
}

static History expand(const Plan &pl, size_t maxops) {
  History H;
  H.c0 = pl.c0;
  H.hashmode = pl.hashmode;
  if (pl.hashmode != 0) maxops = std::min<size_t>(maxops, 3000);   // every probe chain is O(n) with a weak hash
  std::unordered_set<std::string_view> present;
  std::vector<const std::string *> plist;
  Pool &P = *g_pool;
  auto put = [&](const std::string *k, bool temp) {
    if (H.ops.size() >= maxops) return;
    H.ops.push_back({'P', temp, 0, k});
    if (present.insert(std::string_view(*k)).second) plist.push_back(k);
  };
  auto get = [&](const std::string *k, bool temp) {
    if (H.ops.size() >= maxops) return;
    H.ops.push_back({'G', temp, 0, k});
  };
  auto absent_from = [&](int fam, uint32_t start) -> const std::string * {
    for (int f : {fam, (int)F_BULK}) {
      auto &v = P.fam[f];
      if (v.empty()) continue;
      size_t lim = std::min<size_t>(v.size(), f == F_BULK ? 4096 : 512);
      for (size_t t = 0; t < lim; t++) {
        const std::string *k = v[(start + t) % v.size()];
        if (!present.count(std::string_view(*k))) return k;
      }
    }
    return nullptr;
  };
  auto derive = [&](const std::string &k, uint64_t r) -> const std::string * {
    std::string d = k;
    switch (r % 5) {
    case 0: d += (char)(r >> 8); break;                               // extension
    case 1: if (!d.empty()) d.pop_back(); break;                      // proper prefix
    case 2: if (!d.empty()) d.back() = (char)(d.back() ^ (1 << ((r >> 8) & 7))); break;   // last byte differs
    case 3: if (!d.empty()) d[0] = (char)(d[0] ^ 0x20); break;        // first byte differs
    case 4: d += '\0'; break;                                         // trailing NUL
    }
    H.own->push_back(d);
    return &H.own->back();
  };
  for (const Phase &ph : pl.phases) {
    if (H.ops.size() >= maxops) break;
    auto &fv = P.fam[ph.fam];
    uint64_t sd = ph.seed;
    switch (ph.kind) {
    case PH_PUTRUN:
      for (int n = 0; n < ph.count; n++) put(fv[(ph.start + (uint32_t)n) % fv.size()], ph.temp);
      break;
    case PH_GETRUN:
      for (int n = 0; n < ph.count; n++) get(fv[(ph.start + (uint32_t)n) % fv.size()], ph.temp);
      break;
    case PH_GETPRESENT:
      for (int n = 0; n < ph.count && !plist.empty(); n++) get(plist[(ph.start + (uint32_t)n * 7919u) % plist.size()], ph.temp);
      break;
    case PH_DERIVED:
      for (int n = 0; n < ph.count && !plist.empty(); n++) {
        uint64_t r = splitmix(sd);
        const std::string *d = derive(*plist[r % plist.size()], r >> 16);
        if ((r >> 60) == 0) put(d, false); else get(d, (r >> 59) & 1);
      }
      break;
    case PH_MIX:
      for (int n = 0; n < ph.count; n++) {
        uint64_t r = splitmix(sd);
        unsigned w = r % 100;
        int fam = (r >> 8) % 4 == 0 ? (int)((r >> 10) % F_NFAM) : ph.fam;
        uint32_t idx = (uint32_t)(r >> 20);
        bool temp = (r >> 56) & 1;
        if (w < 40) {                         // put-new
          const std::string *k = absent_from(fam, idx);
          if (k) put(k, false);
        } else if (w < 55) {                  // put-existing (overwrite)
          if (!plist.empty()) put(plist[idx % plist.size()], temp);
        } else if (w < 75) {                  // get-present
          if (!plist.empty()) get(plist[idx % plist.size()], temp);
        } else if (w < 92) {                  // get-absent (pool key)
          const std::string *k = absent_from(fam, idx);
          if (k) get(k, temp);
        } else {                              // get of a near miss of a present key
          if (!plist.empty()) get(derive(*plist[idx % plist.size()], r >> 24), temp);
        }
      }
      break;
    case PH_FILL: {
      // new bulk keys until the table holds 2^t/2 + 1 keys (t = c + 1 .. 17): the next new key then doubles the
      // capacity to 2^(t+1), so every index width up to 18 bits is reached in the long configuration
      size_t target = ((size_t)1 << (ph.c + 1 + (ph.count % 11))) / 2 + 1;
      auto &bv = P.fam[F_BULK];
      for (size_t n = 0; n < bv.size() && plist.size() < target && H.ops.size() < maxops; n++) {
        const std::string *k = bv[(ph.start + n) % bv.size()];
        if (!present.count(std::string_view(*k))) put(k, false);
      }
      break;
    }
    case PH_REINIT:
      H.ops.push_back({ph.del ? 'D' : 'R', false, ph.c, nullptr});
      present.clear();
      plist.clear();
      break;
    }
  }
  return H;
}

static rc::Gen<Plan> genPlan(long maxops) {
  return rc::gen::withSize([=](int size) {
    int sz = std::min(size, 100);
    int maxcount = std::max(4, (int)(maxops * sz / 100));
    auto nominal = [](auto g) { return rc::gen::resize(rc::kNominalSize, std::move(g)); };
    auto phase = rc::gen::build<Phase>(
        rc::gen::set(&Phase::kind, rc::gen::weightedElement<int>({{6, PH_PUTRUN}, {3, PH_GETRUN}, {6, PH_MIX}, {2, PH_GETPRESENT},
                                                                  {2, PH_DERIVED}, {1, PH_REINIT}, {2, PH_FILL}})),
        rc::gen::set(&Phase::fam, rc::gen::weightedElement<int>({{3, F_C18A}, {2, F_C18B}, {2, F_C18C}, {2, F_C12}, {2, F_C8},
                                                                 {2, F_C4}, {2, F_LONGC18}, {2, F_LASTBYTE}, {1, F_BYTE},
                                                                 {2, F_NULS}, {2, F_PREFIX}, {8, F_BULK}})),
        rc::gen::set(&Phase::count, nominal(rc::gen::weightedOneOf<int>({{3, rc::gen::inRange(0, 70)},
                                                                         {2, rc::gen::inRange(0, std::max(4, maxcount / 10) + 1)},
                                                                         {1, rc::gen::inRange(0, maxcount + 1)}}))),
        rc::gen::set(&Phase::start, nominal(rc::gen::weightedOneOf<uint32_t>({{2, rc::gen::just<uint32_t>(0)},
                                                                              {3, rc::gen::inRange<uint32_t>(0, 1u << 20)}}))),
        rc::gen::set(&Phase::seed, nominal(rc::gen::arbitrary<uint64_t>())),
        rc::gen::set(&Phase::c, nominal(rc::gen::inRange(0, 7))),
        rc::gen::set(&Phase::temp, rc::gen::arbitrary<bool>()),
        rc::gen::set(&Phase::del, rc::gen::arbitrary<bool>()));
    return rc::gen::build<Plan>(
        rc::gen::set(&Plan::c0, nominal(rc::gen::inRange(0, 7))),
        rc::gen::set(&Plan::hashmode, rc::gen::weightedElement<int>({{16, 0}, {3, 1}, {1, 2}})),
        rc::gen::set(&Plan::phases, rc::gen::resize(2 + sz / 5, rc::gen::container<std::vector<Phase>>(phase))));
  });
}

// ------------------------------------------------------------------------------------------------ delta debugging in forked children

// A candidate is judged in a child process: exit 0 = passes, anything else (oracle failure, sanitizer report,
// abort, watchdog) = fails.  The budget is a number of evaluations, so the result does not depend on timing.
struct Shrinker {
  std::string mode;
  long evals = 0, budget = 4000;
  // a candidate of n steps normally takes n/10^5 seconds; candidates that do not return cost the whole timeout
  int slack = 1;

  bool fails_tree(const std::vector<uint64_t> &keys) {
    return judge(keys.size(), [&]() { return run_tree(keys).err.empty(); });
  }
  bool fails_map(const History &H) {
    return judge(H.ops.size(), [&]() { return run_map(H).err.empty(); });
  }
  bool judge(size_t steps, const std::function<bool()> &passes) {
    evals++;
    fflush(stdout);
    fflush(stderr);
    pid_t pid = fork();
    if (pid < 0) { perror("fork"); exit(2); }
    if (pid == 0) {
      g_quiet_child = true;
      int fd = open("/dev/null", O_WRONLY);
      if (fd >= 0) { dup2(fd, 1); dup2(fd, 2); }
      signal(SIGALRM, SIG_DFL);
      signal(SIGABRT, SIG_DFL);
      alarm((unsigned)slack * (1 + (unsigned)(steps / 5000)));
      bool ok = passes();
      _exit(ok ? 0 : 1);
    }
    int st = 0;
    while (waitpid(pid, &st, 0) < 0) {}
    return !(WIFEXITED(st) && WEXITSTATUS(st) == 0);
  }

  template <typename T, typename F>
  std::vector<T> ddmin(std::vector<T> v, F fails) {
    // 1. shortest failing prefix (the oracle runs after every step, so failure is monotone in the prefix)
    size_t lo = 0, hi = v.size();   // prefix of length hi fails
    while (lo + 1 < hi && evals < budget) {
      size_t mid = (lo + hi) / 2;
      std::vector<T> c(v.begin(), v.begin() + (long)mid);
      if (fails(c)) hi = mid; else lo = mid;
    }
    v.resize(hi);
    // 2. ddmin on complements
    size_t n = 2;
    while (v.size() >= 2 && evals < budget) {
      size_t chunk = (v.size() + n - 1) / n;
      bool reduced = false;
      for (size_t s = 0; s < v.size() && evals < budget; s += chunk) {
        std::vector<T> c;
        c.insert(c.end(), v.begin(), v.begin() + (long)s);
        c.insert(c.end(), v.begin() + (long)std::min(v.size(), s + chunk), v.end());
        if (c.size() == v.size()) continue;
        if (fails(c)) {
          v = std::move(c);
          n = std::max<size_t>(n - 1, 2);
          reduced = true;
          break;
        }
      }
      if (!reduced) {
        if (chunk <= 1) break;
        n = std::min(v.size(), n * 2);
      }
    }
    return v;
  }
};

static int shrink_tree(const std::string &mode, std::vector<uint64_t> keys) {
  Shrinker S;
  S.mode = mode;
  const std::vector<uint64_t> orig = keys;
  S.slack = 10;
  bool f0 = S.fails_tree(keys);
  S.slack = 1;
  if (!f0) { printf("shrink: the sequence passes\n"); return 0; }
  keys = S.ddmin(keys, [&](const std::vector<uint64_t> &c) { return S.fails_tree(c); });
  // rank-compress the keys if the failure survives it
  std::vector<uint64_t> sorted(keys);
  std::sort(sorted.begin(), sorted.end());
  sorted.erase(std::unique(sorted.begin(), sorted.end()), sorted.end());
  std::vector<uint64_t> ranked;
  for (uint64_t k : keys) ranked.push_back((uint64_t)(std::lower_bound(sorted.begin(), sorted.end(), k) - sorted.begin()) + 1);
  if (ranked != keys && S.fails_tree(ranked)) keys = ranked;
  S.slack = 10;   // the minimised sequence must still fail with a generous timeout, else keep the original
  if (!S.fails_tree(keys)) keys = orig;
  printf("MINIMIZED mode=%s keys=%zu evaluations=%ld\n", mode.c_str(), keys.size(), S.evals);
  printf("COUNTEREXAMPLE %s %s\n", mode.c_str(), tree_text(keys).c_str());
  return 1;
}

static int shrink_map(const std::string &mode, History H) {
  Shrinker S;
  S.mode = mode;
  const History orig = H;
  S.slack = 10;
  bool f0 = S.fails_map(H);
  S.slack = 1;
  if (!f0) { printf("shrink: the history passes\n"); return 0; }
  auto with_ops = [&](const std::vector<COp> &ops) { History c = H; c.ops = ops; return c; };
  H.ops = S.ddmin(H.ops, [&](const std::vector<COp> &c) { return S.fails_map(with_ops(c)); });
  // smaller initial capacity / plain keys if the failure survives
  for (int c = 0; c < H.c0 && S.evals < S.budget; c++) {
    History t = H;
    t.c0 = c;
    if (S.fails_map(t)) { H = t; break; }
  }
  {
    History t = H;
    bool any = false;
    for (COp &o : t.ops) if (o.temp) { o.temp = false; any = true; }
    if (any && S.fails_map(t)) H = t;
  }
  S.slack = 10;   // the minimised history must still fail with a generous timeout, else keep the original
  if (!S.fails_map(H)) H = orig;
  printf("MINIMIZED mode=%s ops=%zu evaluations=%ld\n", mode.c_str(), H.ops.size(), S.evals);
  printf("COUNTEREXAMPLE %s %s\n", mode.c_str(), map_text(H).c_str());
  return 1;
}

// ------------------------------------------------------------------------------------------------ rapidcheck drivers

// Once a property has been falsified rapidcheck re-runs it on shrink candidates.  Statistics stop then, and the
// work spent on shrinking is bounded by a count of executed steps (not by time); candidates beyond the budget
// are reported as passing, except those already known to fail (rapidcheck re-runs the final one; it gets the
// recorded oracle message without being executed again).
struct ShrinkGuard {
  bool failed = false;
  long steps = 0, budget = 30000000;
  std::unordered_map<uint64_t, std::string> known_fail;   // sequence hash -> oracle message
};

static std::string clip(const std::string &s, size_t n) { return s.size() <= n ? s : s.substr(0, n) + "..."; }

static int tree_rc() {
  long maxkeys = env_long("MAPTREE_MAXKEYS", 5000);
  TreeStats S;
  std::vector<uint64_t> nontrivial_keys;
  std::map<std::string, long> labels;
  ShrinkGuard G;
  std::vector<uint64_t> last_fail;
  long samples = 0;

  auto run_one = [&](const std::vector<uint64_t> &keys, const char *label) -> TreeRes {
    g_cur_mode = "tree-rc";
    g_cur_text = tree_text(keys);
    uint64_t hh = fnv64(g_cur_text);
    if (G.failed) {
      if (G.known_fail.count(hh)) RC_FAIL(G.known_fail[hh]);
      if (G.steps > G.budget) return TreeRes();
      G.steps += (long)keys.size() * 8 + 100;
    }
    arm(keys.size());
    TreeRes r = run_tree(keys);
    alarm(0);
    if (!r.err.empty()) {
      G.failed = true;
      G.known_fail[hh] = r.err;
      last_fail = keys;
      RC_FAIL(r.err);
    }
    if (G.failed) return r;
    S.seqs++;
    S.insertions += (long)keys.size();
    S.rotations += r.rotations;
    S.max_len = std::max(S.max_len, (long)keys.size());
    S.max_height = std::max(S.max_height, r.max_height);
    if (r.dups) S.seq_dup++;
    labels[label]++;
    labels[keys.size() < 10 ? "len<10" : keys.size() < 100 ? "len<100" : keys.size() < 1000 ? "len<1000" : "len>=1000"]++;
    if (r.dups) labels["has-duplicates"]++;
    if (r.rotations) {
      S.seq_rot++;
      nontrivial_keys.push_back(hh);
      if (samples < 3 && keys.size() >= 6 && keys.size() <= 40) { printf("SAMPLE tree-rc %s\n", g_cur_text.c_str()); samples++; }
    }
    return r;
  };

  bool ok = rc::check("tree.c: boundary-biased key sequences agree with a std::set model and stay AVL after every insertion", [&]() {
    std::vector<Seg> segs = *genSegs((int)maxkeys);
    std::vector<uint64_t> keys;
    flatten(segs, (size_t)maxkeys, keys);
    run_one(keys, "mixed-segments");
  });
  if (ok)
    ok = rc::check("tree.c: sorted / reverse-sorted runs starting at a boundary value (minimal height floor(log2 n)+1 while monotone)", [&]() {
      uint64_t base = *genBase();
      int delta = *rc::gen::resize(rc::kNominalSize, rc::gen::inRange(-3, 4));
      bool desc = *rc::gen::arbitrary<bool>();
      int n = *rc::gen::withSize([=](int size) {
        return rc::gen::resize(rc::kNominalSize, rc::gen::inRange(1, std::max(3, (int)(maxkeys * std::min(size, 100) / 100)) + 1));
      });
      std::vector<uint64_t> keys;
      for (int i = 0; i < n; i++) keys.push_back(desc ? base + (uint64_t)(int64_t)delta - (uint64_t)i : base + (uint64_t)(int64_t)delta + (uint64_t)i);
      run_one(keys, desc ? "sorted-desc" : "sorted-asc");
    });

  if (!ok) {
    fflush(stdout);
    shrink_tree("tree-rc", last_fail);
    return 1;
  }
  for (uint64_t k : nontrivial_keys) printf("KEY %016" PRIx64 "\n", k);
  std::string lj;
  for (auto &kv : labels) lj += fmt("%s\"%s\":%ld", lj.empty() ? "" : ",", kv.first.c_str(), kv.second);
  printf("STATS {\"mode\":\"tree-rc\",\"sequences\":%ld,\"insertions\":%ld,\"nontrivial\":%ld,\"with_duplicates\":%ld,"
         "\"rotations\":%ld,\"max_len\":%ld,\"max_height\":%d,\"labels\":{%s}}\n",
         S.seqs, S.insertions, S.seq_rot, S.seq_dup, S.rotations, S.max_len, S.max_height, lj.c_str());
  return 0;
}

static int map_rc() {
  long maxops = env_long("MAPTREE_MAXOPS", 10000);
  build_pool((size_t)std::max(4096L, maxops + maxops / 4));
  long histories = 0, total_ops = 0, h_growth = 0, h_chain3 = 0, h_nontrivial = 0, h_wrap = 0, h_reinit = 0, smallcap = 0, scans = 0;
  size_t max_cap = 0, max_chain = 0, max_len = 0, max_ops = 0;
  std::map<std::string, long> labels;
  std::vector<uint64_t> nontrivial_keys;
  ShrinkGuard G;
  History last_fail;
  long samples = 0;

  bool ok = rc::check("map.c: operation histories agree with a std::unordered_map model after every step", [&]() {
    Plan pl = *genPlan(maxops);
    History H = expand(pl, (size_t)maxops);
    g_cur_mode = "map-rc";
    g_cur_text = map_text(H);
    uint64_t hh = fnv64(g_cur_text);
    if (G.failed) {
      if (G.known_fail.count(hh)) RC_FAIL(G.known_fail[hh]);
      if (G.steps > G.budget) return;
      G.steps += (long)H.ops.size() * 4 + 100;
    }
    arm(H.ops.size());
    MapRes r = run_map(H);
    alarm(0);
    if (!r.err.empty()) {
      G.failed = true;
      G.known_fail[hh] = r.err;
      last_fail = H;
      RC_FAIL(r.err);
    }
    if (G.failed) return;
    histories++;
    total_ops += r.ops;
    scans += r.scans;
    smallcap += r.smallcap_full;
    max_cap = std::max(max_cap, r.max_cap);
    max_chain = std::max(max_chain, r.max_chain);
    max_len = std::max(max_len, r.max_len);
    max_ops = std::max(max_ops, H.ops.size());
    if (r.growths) h_growth++;
    if (r.max_chain >= 3) h_chain3++;
    if (r.wraps) h_wrap++;
    if (r.reinits) h_reinit++;
    labels[fmt("hashmode-%d", H.hashmode)]++;
    labels[fmt("c0-%d", H.c0)]++;
    labels[H.ops.size() < 100 ? "ops<100" : H.ops.size() < 1000 ? "ops<1e3" : H.ops.size() < 10000 ? "ops<1e4" : "ops>=1e4"]++;
    labels[r.max_cap <= 64 ? "cap<=64" : r.max_cap <= 4096 ? "cap<=4096" : r.max_cap <= 65536 ? "cap<=65536" : "cap>65536"]++;
    labels[r.max_chain < 3 ? "chain<3" : r.max_chain < 10 ? "chain<10" : r.max_chain < 40 ? "chain<40" : "chain>=40"]++;
    if (r.wraps) labels["wrap-around"]++;
    if (r.reinits) labels["reinit"]++;
    if (r.smallcap_full) labels["full-table-lookup-skipped"]++;
    if (r.growths && r.max_chain >= 3) {
      h_nontrivial++;
      nontrivial_keys.push_back(hh);
      if (samples < 3 && H.ops.size() <= 60) { printf("SAMPLE map-rc %s\n", clip(g_cur_text, 600).c_str()); samples++; }
    }
  });

  if (!ok) {
    fflush(stdout);
    shrink_map("map-rc", last_fail);
    return 1;
  }
  for (uint64_t k : nontrivial_keys) printf("KEY %016" PRIx64 "\n", k);
  std::string lj;
  for (auto &kv : labels) lj += fmt("%s\"%s\":%ld", lj.empty() ? "" : ",", kv.first.c_str(), kv.second);
  printf("STATS {\"mode\":\"map-rc\",\"histories\":%ld,\"operations\":%ld,\"with_growth\":%ld,\"with_chain3\":%ld,"
         "\"nontrivial\":%ld,\"with_wrap\":%ld,\"with_reinit\":%ld,\"max_cap\":%zu,\"max_chain\":%zu,\"max_len\":%zu,"
         "\"max_ops\":%zu,\"table_scans\":%ld,\"full_table_lookups_skipped\":%ld,\"labels\":{%s}}\n",
         histories, total_ops, h_growth, h_chain3, h_nontrivial, h_wrap, h_reinit, max_cap, max_chain, max_len, max_ops, scans,
         smallcap, lj.c_str());
  return 0;
}

// ------------------------------------------------------------------------------------------------ main

static std::string read_text(const char *arg) {
  if (arg[0] != '@') return arg;
  FILE *f = fopen(arg + 1, "rb");
  if (!f) { perror(arg + 1); exit(2); }
  std::string s;
  char buf[65536];
  size_t n;
  while ((n = fread(buf, 1, sizeof buf, f)) > 0) s.append(buf, n);
  fclose(f);
  while (!s.empty() && (s.back() == '\n' || s.back() == ' ')) s.pop_back();
  return s;
}

static int usage() {
  fprintf(stderr, "usage: maptree_rc tree-enum K [PART NPARTS] | tree-rc | map-rc | replay MODE TEXT|@FILE | shrink MODE TEXT|@FILE\n");
  return 2;
}

int main(int argc, char **argv) {
  static char a0[] = "maptree_rc";
  argv0 = a0;
  setvbuf(stdout, nullptr, _IOLBF, 0);
  install_handlers();
  const char *sc = getenv("MAPTREE_SMALLCAP");
  if (sc) g_smallcap = !strcmp(sc, "fail") ? 1 : !strcmp(sc, "exec") ? 2 : 0;
  if (argc < 2) return usage();
  std::string mode = argv[1];
  if (mode == "tree-enum") {
    int K = argc > 2 ? atoi(argv[2]) : 8;
    int part = argc > 4 ? atoi(argv[3]) : 0, nparts = argc > 4 ? atoi(argv[4]) : 1;
    if (K < 1 || K > 11 || nparts < 1 || part < 0 || part >= nparts) return usage();
    return tree_enum(K, part, nparts);
  }
  if (mode == "tree-rc") return tree_rc();
  if (mode == "map-rc") return map_rc();
  if ((mode == "replay" || mode == "shrink") && argc == 4) {
    std::string m = argv[2], text = read_text(argv[3]);
    bool tree = m.rfind("tree", 0) == 0;
    if (!tree && m.rfind("map", 0) != 0) return usage();
    g_cur_mode = m;
    g_cur_text = text;
    if (tree) {
      std::vector<uint64_t> keys;
      if (!tree_parse(text, keys)) { fprintf(stderr, "cannot parse key sequence\n"); return 2; }
      if (mode == "shrink") { g_cur_mode.clear(); return shrink_tree(m, keys); }
      arm(keys.size());
      TreeRes r = run_tree(keys);
      alarm(0);
      if (!r.err.empty()) { printf("FAIL %s\n", r.err.c_str()); return 1; }
      printf("PASS %zu insertions, %ld rotations, %ld duplicates, height %d\n", keys.size(), r.rotations, r.dups, r.max_height);
      return 0;
    }
    History H;
    if (!map_parse(text, H)) { fprintf(stderr, "cannot parse history\n"); return 2; }
    if (mode == "shrink") { g_cur_mode.clear(); return shrink_map(m, H); }
    arm(H.ops.size());
    MapRes r = run_map(H);
    alarm(0);
    if (!r.err.empty()) { printf("FAIL %s\n", r.err.c_str()); return 1; }
    printf("PASS %ld operations, %ld growths, max cap %zu, max chain %zu, %ld full-table lookups skipped\n", r.ops, r.growths,
           r.max_cap, r.max_chain, r.smallcap_full);
    return 0;
  }
  return usage();
}
