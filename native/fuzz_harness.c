/*
 * libFuzzer fork-per-input harness for cproc-qbe (DESIGN C19 source 1).
 *
 * cproc keeps all state in statics and leaves through exit(), so every input is
 * compiled in a forked child: the child runs cproc_main() (objects are built with
 * -Dmain=cproc_main -Dexit=verif_exit) on a memfd, verif_exit() copies the child's
 * inline 8-bit coverage counters into a shared mapping and _exit()s, the parent adds
 * them to its own counters and inspects the wait status.  No state can leak between
 * iterations.  A child that does not end with exit status 0, 1 or 2 is a candidate
 * violation: its input is saved under $VERIF_FUZZ_ART and fuzzing continues, so that a
 * shallow defect does not end the campaign; the Python side classifies every saved
 * input with the ASan/UBSan binary afterwards.
 *
 * This file must NOT be compiled with -fsanitize=fuzzer (see DESIGN / sandbox notes).
 */
#define _GNU_SOURCE
#include <errno.h>
#include <fcntl.h>
#include <signal.h>
#include <stdint.h>
#include <stdio.h>
#include <stdlib.h>
#include <string.h>
#include <sys/mman.h>
#include <sys/resource.h>
#include <sys/stat.h>
#include <sys/wait.h>
#include <unistd.h>

extern unsigned char __start___sancov_cntrs[], __stop___sancov_cntrs[];
int cproc_main(int, char **);

static unsigned char *shared;
static size_t ncntrs;
static int devnull = -1;
static unsigned long nsaved;

void
verif_exit(int status)
{
	if (shared)
		memcpy(shared, __start___sancov_cntrs, ncntrs);
	_exit(status);
}

static void
save(const uint8_t *data, size_t size, int st)
{
	const char *dir = getenv("VERIF_FUZZ_ART");
	char path[4096];
	uint64_t h = 1469598103934665603ull;
	size_t i;
	int fd;

	if (!dir || nsaved >= 400)
		return;
	for (i = 0; i < size; ++i)
		h = (h ^ data[i]) * 1099511628211ull;
	snprintf(path, sizeof(path), "%s/%016llx-%d", dir, (unsigned long long)h, st);
	fd = open(path, O_WRONLY | O_CREAT | O_EXCL, 0644);
	if (fd < 0)
		return;
	if (write(fd, data, size) < 0) {
	}
	close(fd);
	++nsaved;
}

int
LLVMFuzzerTestOneInput(const uint8_t *data, size_t size)
{
	static const char *targets[] = {"x86_64-sysv", "aarch64", "riscv64"};
	char *argv[6];
	int argc = 0, fd, status, opt;
	pid_t pid;
	size_t i;

	if (!shared) {
		ncntrs = __stop___sancov_cntrs - __start___sancov_cntrs;
		shared = mmap(NULL, ncntrs ? ncntrs : 1, PROT_READ | PROT_WRITE, MAP_SHARED | MAP_ANONYMOUS, -1, 0);
		if (shared == MAP_FAILED)
			abort();
		devnull = open("/dev/null", O_RDWR);
	}
	if (size < 1)
		return 0;
	opt = data[0];
	fd = memfd_create("in", 0);
	if (fd < 0)
		abort();
	if (size > 1 && write(fd, data + 1, size - 1) != (ssize_t)(size - 1))
		abort();
	lseek(fd, 0, SEEK_SET);
	memset(shared, 0, ncntrs);
	pid = fork();
	if (pid < 0)
		abort();
	if (pid == 0) {
		struct rlimit rl = {0, 0};
		setrlimit(RLIMIT_CORE, &rl);
		dup2(fd, 0);
		dup2(devnull, 1);
		dup2(devnull, 2);
		close(fd);
		alarm(10);
		argv[argc++] = "cproc-qbe";
		argv[argc++] = "-t";
		argv[argc++] = (char *)targets[opt % 3];
		if (opt / 3 % 2)
			argv[argc++] = "-E";
		argv[argc] = NULL;
		verif_exit(cproc_main(argc, argv));
	}
	close(fd);
	while (waitpid(pid, &status, 0) < 0 && errno == EINTR)
		;
	for (i = 0; i < ncntrs; ++i) {
		unsigned v = __start___sancov_cntrs[i] + shared[i];
		__start___sancov_cntrs[i] = v > 255 ? 255 : v;
	}
	if (WIFEXITED(status) && WEXITSTATUS(status) <= 2)
		return 0;
	save(data, size, WIFEXITED(status) ? WEXITSTATUS(status) : 1000 + WTERMSIG(status));
	return 0;
}
