/* Linked into every executed program: observation printers (one line each) and the trap reporter. */
#include <inttypes.h>
#include <stdio.h>
#include <stdlib.h>
#include <string.h>

void rt_trap(const char *what) { fflush(stdout); fprintf(stderr, "IL-TRAP: %s\n", what); fflush(stderr); _Exit(97); }

void chk_i64(long long v) { printf("i %lld\n", v); }
void chk_u64(unsigned long long v) { printf("u %llu\n", v); }
void chk_f64(double v) { unsigned long long b; memcpy(&b, &v, 8); if (v != v) printf("d nan\n"); else printf("d %016llx %.17g\n", b, v); }
void chk_f32(float v) { unsigned b; memcpy(&b, &v, 4); if (v != v) printf("f nan\n"); else printf("f %08x %.9g\n", b, (double)v); }
void chk_ptrdiff(long long v) { printf("p %lld\n", v); }
void chk_bytes(const void *p, unsigned long n) { const unsigned char *s = p; printf("b"); for (unsigned long i = 0; i < n; i++) printf(" %02x", s[i]); printf("\n"); }
void chk_str(const char *s) { printf("s %s\n", s); }
void chk_tag(long long id) { printf("t %lld\n", id); }
