/* Stand-in for the tools the cproc driver runs (preprocessor, cproc-qbe, qbe, as, ld).
 * Installed under each tool name (hard links); used by the C17 and C18 checks.
 *
 * Every invocation appends ONE record (a JSON object on one line, written with a single
 * write() on an O_APPEND descriptor, so concurrent stubs never interleave) to the file
 * named by $VSTUB_LOG:
 *
 *   {"tool": basename(argv[0]), "argv": [...], "fd0": readlink(/proc/self/fd/0),
 *    "fd1": readlink(/proc/self/fd/1), "xfds": {"<n>": link, ...}  (descriptors >= 3 that
 *    were inherited), "pid": .., "pgid": .., "n": k (k-th invocation of this tool name,
 *    only with $VSTUB_DIR), "beh": behaviour, "delay": ms}
 *
 * Then it behaves like a filter: it reads standard input to end-of-file when it has no
 * input-file operand (or when standard input is a pipe), writes its output ("TAG <tool>\n"
 * padded to $VSTUB_SIZE bytes) to the -o file, or to standard output without -o, exits 0.
 *
 * Fault injection (C18): $VSTUB_DIR is a directory in which invocations are counted by
 * creating "<tool>.<k>" with O_EXCL; $VSTUB_PLAN is a list "tool#k=behaviour:delay_ms;..."
 *   ok           as above, sleep delay, exit 0
 *   fail-before  sleep delay, exit 1 (nothing read, nothing written)
 *   fail-half    read one chunk, write half of the output, sleep delay, exit 1
 *   fail-after   as ok but exit 1
 *   segv         read input, write half of the output, sleep delay, die from SIGSEGV
 *   kill         sleep delay, die from SIGKILL (nothing read, nothing written)
 * A delay >= 1000 ms that runs to completion appends a second record
 * {"event": "held-out", ...}: the stage was neither terminated nor did it die early.
 * SIGTERM and SIGPIPE keep their default action (terminate), as for the real tools.
 */
#define _GNU_SOURCE
#include <dirent.h>
#include <errno.h>
#include <fcntl.h>
#include <signal.h>
#include <stdio.h>
#include <stdlib.h>
#include <string.h>
#include <sys/resource.h>
#include <sys/stat.h>
#include <time.h>
#include <unistd.h>

static char buf[1 << 16];
static size_t len;

static void
putch(char c)
{
	if (len < sizeof(buf) - 1)
		buf[len++] = c;
}

static void
putstr(const char *s)
{
	while (*s)
		putch(*s++);
}

static void
putjs(const char *s)
{
	char t[8];
	unsigned char c;

	putch('"');
	for (; *s; ++s) {
		c = *s;
		if (c == '"' || c == '\\') {
			putch('\\');
			putch(c);
		} else if (c < 0x20 || c >= 0x7f) {
			snprintf(t, sizeof(t), "\\u%04x", c);
			putstr(t);
		} else {
			putch(c);
		}
	}
	putch('"');
}

static void
putnum(long n)
{
	char t[32];

	snprintf(t, sizeof(t), "%ld", n);
	putstr(t);
}

static void
putlink(int fd)
{
	char p[64], l[4096];
	ssize_t n;

	snprintf(p, sizeof(p), "/proc/self/fd/%d", fd);
	n = readlink(p, l, sizeof(l) - 1);
	if (n < 0) {
		putstr("null");
		return;
	}
	l[n] = '\0';
	putjs(l);
}

static void
flushlog(const char *path)
{
	int fd;

	if (!path || len == 0)
		return;
	fd = open(path, O_WRONLY | O_APPEND | O_CREAT | O_CLOEXEC, 0666);
	if (fd >= 0) {
		(void)!write(fd, buf, len);
		close(fd);
	}
	len = 0;
}

static void
msleep(long ms)
{
	struct timespec ts;

	if (ms <= 0)
		return;
	ts.tv_sec = ms / 1000;
	ts.tv_nsec = (ms % 1000) * 1000000L;
	while (nanosleep(&ts, &ts) < 0 && errno == EINTR)
		;
}

/* options of the stand-in tools that take a separate argument */
static const char *const witharg[] = {
	"-o", "-t", "-D", "-U", "-I", "-include", "-idirafter", "-isystem", "-iquote",
	"-MF", "-MT", "-L", "-l", "-x", NULL,
};

static size_t
readsome(int all)
{
	static char in[1 << 16];
	size_t total = 0;
	ssize_t n;

	for (;;) {
		n = read(0, in, sizeof(in));
		if (n < 0 && errno == EINTR)
			continue;
		if (n <= 0)
			break;
		total += n;
		if (!all)
			break;
	}
	return total;
}

static int
writeall(int fd, const char *p, size_t n)
{
	ssize_t w;

	while (n > 0) {
		w = write(fd, p, n);
		if (w < 0) {
			if (errno == EINTR)
				continue;
			return -1;
		}
		p += w;
		n -= w;
	}
	return 0;
}

int
main(int argc, char *argv[])
{
	const char *log = getenv("VSTUB_LOG"), *dir = getenv("VSTUB_DIR"), *plan = getenv("VSTUB_PLAN");
	const char *tool, *out = NULL, *beh = "ok", *s;
	char name[4096], key[300], behbuf[64], *output;
	long delay = 0, size = 0, nth = 0;
	int i, j, fd, operands = 0, first, ofd, status;
	size_t outlen, taglen, n;
	struct stat st;
	struct rlimit rl = {0, 0};
	DIR *d;
	struct dirent *e;

	tool = strrchr(argv[0], '/');
	tool = tool ? tool + 1 : argv[0];
	if ((s = getenv("VSTUB_SIZE")))
		size = atol(s);

	/* operands and -o */
	for (i = 1; i < argc; ++i) {
		if (argv[i][0] != '-' || argv[i][1] == '\0') {
			++operands;
			continue;
		}
		for (j = 0; witharg[j]; ++j) {
			if (strcmp(argv[i], witharg[j]) == 0)
				break;
		}
		if (witharg[j] && i + 1 < argc) {
			if (strcmp(argv[i], "-o") == 0)
				out = argv[i + 1];
			++i;
		}
	}
	if (out && strcmp(out, "-") == 0)
		out = NULL;

	/* which invocation of this tool is this? */
	if (dir) {
		for (nth = 1; nth < 100000; ++nth) {
			snprintf(name, sizeof(name), "%s/%s.%ld", dir, tool, nth);
			fd = open(name, O_WRONLY | O_CREAT | O_EXCL | O_CLOEXEC, 0666);
			if (fd >= 0) {
				close(fd);
				break;
			}
			if (errno != EEXIST) {
				nth = 0;
				break;
			}
		}
	}
	if (plan && nth) {
		snprintf(key, sizeof(key), "%s#%ld=", tool, nth);
		s = strstr(plan, key);
		if (s && (s == plan || s[-1] == ';')) {
			s += strlen(key);
			for (n = 0; s[n] && s[n] != ':' && s[n] != ';' && n < sizeof(behbuf) - 1; ++n)
				behbuf[n] = s[n];
			behbuf[n] = '\0';
			beh = behbuf;
			if (s[n] == ':')
				delay = atol(s + n + 1);
		}
	}

	/* the record */
	putstr("{\"tool\": ");
	putjs(tool);
	putstr(", \"argv\": [");
	for (i = 0; i < argc; ++i) {
		if (i)
			putstr(", ");
		putjs(argv[i]);
	}
	putstr("], \"fd0\": ");
	putlink(0);
	putstr(", \"fd1\": ");
	putlink(1);
	putstr(", \"xfds\": {");
	d = opendir("/proc/self/fd");
	first = 1;
	if (d) {
		while ((e = readdir(d))) {
			if (e->d_name[0] < '0' || e->d_name[0] > '9')
				continue;
			fd = atoi(e->d_name);
			if (fd < 3 || fd == dirfd(d))
				continue;
			if (!first)
				putstr(", ");
			first = 0;
			putjs(e->d_name);
			putstr(": ");
			putlink(fd);
		}
		closedir(d);
	}
	putstr("}, \"pid\": ");
	putnum(getpid());
	putstr(", \"pgid\": ");
	putnum(getpgrp());
	putstr(", \"n\": ");
	putnum(nth);
	putstr(", \"beh\": ");
	putjs(beh);
	putstr(", \"delay\": ");
	putnum(delay);
	putstr("}\n");
	flushlog(log);

	/* the output this tool would write */
	taglen = strlen("TAG \n") + strlen(tool);
	outlen = size > (long)taglen ? (size_t)size : taglen;
	output = malloc(outlen + 1);
	if (!output)
		return 111;
	memset(output, '.', outlen);
	snprintf(output, outlen + 1, "TAG %s\n", tool);
	output[taglen] = outlen > taglen ? '.' : '\0';
	for (n = taglen + 63; n < outlen; n += 64)
		output[n] = '\n';
	if (outlen > taglen)
		output[outlen - 1] = '\n';

	status = 0;
	if (strcmp(beh, "fail-before") == 0) {
		msleep(delay);
		return 1;
	}
	if (strcmp(beh, "kill") == 0) {
		msleep(delay);
		raise(SIGKILL);
		return 112;
	}

	/* input: a filter reads standard input when it has no file operand; a pipe is always
	 * drained so that the writer never sees a closed pipe in a fault-free run */
	if (operands == 0 || (fstat(0, &st) == 0 && S_ISFIFO(st.st_mode)))
		readsome(strcmp(beh, "fail-half") != 0);

	if (strcmp(beh, "fail-half") == 0 || strcmp(beh, "segv") == 0) {
		outlen /= 2;
		status = 1;
	} else if (strcmp(beh, "fail-after") == 0) {
		status = 1;
	}

	ofd = 1;
	if (out) {
		ofd = open(out, O_WRONLY | O_CREAT | O_TRUNC, 0666);
		if (ofd < 0)
			return 113;
	}
	if (writeall(ofd, output, outlen) < 0 && status == 0)
		status = 114;
	if (out)
		close(ofd);

	msleep(delay);
	if (delay >= 1000) {
		putstr("{\"event\": \"held-out\", \"tool\": ");
		putjs(tool);
		putstr(", \"n\": ");
		putnum(nth);
		putstr(", \"pid\": ");
		putnum(getpid());
		putstr("}\n");
		flushlog(log);
	}
	if (strcmp(beh, "segv") == 0) {
		setrlimit(RLIMIT_CORE, &rl);
		signal(SIGSEGV, SIG_DFL);
		raise(SIGSEGV);
		return 115;
	}
	return status;
}
