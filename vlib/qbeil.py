"""QBE IL parser (from QBE's IL reference; independent of cproc's qbe.c).

parse(text) -> Module; raises ILSyntaxError with a line number on malformed text.
"""
import re
import struct


class ILSyntaxError(Exception):
    pass


class TypeDef:
    __slots__ = ("name", "align", "opaque_size", "fields", "is_union", "line")

    def __init__(self, name):
        self.name = name
        self.align = None        # explicit alignment or None
        self.opaque_size = None  # for `align N { size }`
        self.fields = []         # struct: list of (cls_or_typename, count); union: list of such lists
        self.is_union = False
        self.line = 0


class DataItem:
    __slots__ = ("kind", "cls", "value", "sym", "off", "thread")
    # kind: 'int' (cls,value) | 'flt' (cls,value) | 'str' (bytes) | 'zero' (value=n) | 'sym' (cls,sym,off)

    def __init__(self, kind, cls=None, value=None, sym=None, off=0):
        self.kind, self.cls, self.value, self.sym, self.off = kind, cls, value, sym, off
        self.thread = False


class DataDef:
    __slots__ = ("name", "export", "thread", "align", "items", "line", "section")

    def __init__(self, name):
        self.name = name
        self.export = False
        self.thread = False
        self.align = None
        self.items = []
        self.line = 0
        self.section = None


class Val:
    __slots__ = ("kind", "v", "thread")
    # kind: 'tmp' name | 'int' int | 'flt' ('s'|'d', float) | 'glo' name

    def __init__(self, kind, v, thread=False):
        self.kind, self.v, self.thread = kind, v, thread

    def __repr__(self):
        return "%s:%s" % (self.kind, self.v)


class Inst:
    __slots__ = ("op", "res", "cls", "args", "line", "cargs", "variadic_at", "rtype")

    def __init__(self):
        self.op = None
        self.res = None       # temp name or None
        self.cls = None       # 'w','l','s','d' or None; for aggregate-returning calls 'l' with rtype
        self.rtype = None     # ':type' name for calls returning aggregates
        self.args = []        # list of Val
        self.cargs = None     # for call: list of (cls_or_typename, Val); 'env' not supported by cproc
        self.variadic_at = None
        self.line = 0


class Phi:
    __slots__ = ("res", "cls", "args", "line")

    def __init__(self):
        self.res = None
        self.cls = None
        self.args = []   # list of (label, Val)
        self.line = 0


class Block:
    __slots__ = ("name", "phis", "insts", "jump", "line")

    def __init__(self, name):
        self.name = name
        self.phis = []
        self.insts = []
        self.jump = None   # ('jmp', label) | ('jnz', Val, l1, l2) | ('ret', Val|None) | ('hlt',) | None (fall through)
        self.line = 0


class Func:
    __slots__ = ("name", "export", "retcls", "rettype", "params", "variadic", "blocks", "line", "section")

    def __init__(self, name):
        self.name = name
        self.export = False
        self.retcls = None      # 'w','l','s','d' / None for void
        self.rettype = None     # ':type' for aggregate returns
        self.params = []        # list of (cls_or_typename, tmpname)
        self.variadic = False
        self.blocks = []
        self.line = 0


class Module:
    def __init__(self):
        self.types = {}      # name -> TypeDef (insertion ordered)
        self.data = []
        self.funcs = []
        self.order = []      # ('type'|'data'|'func', obj) in textual order


_TOK = re.compile(r"""
    (?P<ws>[ \t]+)
  | (?P<nl>\n)
  | (?P<comment>\#[^\n]*)
  | (?P<str>"(?:[^"\\\n]|\\.)*")
  | (?P<flt>[sd]_[-+0-9a-zA-Z.]+)
  | (?P<name>[$%@:](?:"(?:[^"\\\n]|\\.)*"|[A-Za-z0-9_.$]+))
  | (?P<int>-?[0-9]+)
  | (?P<ident>[A-Za-z_][A-Za-z0-9_.]*)
  | (?P<ellipsis>\.\.\.)
  | (?P<punct>[={}(),+])
""", re.X)


def _unquote(tok):
    """$"name" and $name denote the same symbol."""
    if len(tok) > 2 and tok[1] == '"' and tok[-1] == '"':
        return tok[0] + tok[2:-1]
    return tok


def _lex(text):
    toks = []
    line = 1
    pos = 0
    n = len(text)
    while pos < n:
        m = _TOK.match(text, pos)
        if not m:
            raise ILSyntaxError("line %d: invalid character %r" % (line, text[pos]))
        k = m.lastgroup
        pos = m.end()
        if k == "ws" or k == "comment":
            continue
        if k == "nl":
            toks.append(("nl", "\n", line))
            line += 1
            continue
        toks.append((k, _unquote(m.group()) if k == "name" else m.group(), line))
    toks.append(("nl", "\n", line))
    toks.append(("eof", "", line))
    return toks


def _fltval(s):
    body = s[2:]
    try:
        return float(body)
    except ValueError:
        raise ILSyntaxError("bad floating constant %r" % s)


def unescape(s):
    """Bytes of a quoted IL string (QBE hands the text to the assembler's .ascii: C-like escapes)."""
    out = bytearray()
    i = 1
    while i < len(s) - 1:
        c = s[i]
        if c == "\\":
            i += 1
            c = s[i]
            if c in "01234567":
                j = i
                v = 0
                while j < len(s) - 1 and j < i + 3 and s[j] in "01234567":
                    v = v * 8 + int(s[j])
                    j += 1
                out.append(v & 0xff)
                i = j
                continue
            mp = {"n": 10, "t": 9, "r": 13, "\\": 92, '"': 34, "0": 0, "b": 8, "f": 12}
            if c == "x":
                j = i + 1
                v = 0
                while j < len(s) - 1 and s[j] in "0123456789abcdefABCDEF":
                    v = v * 16 + int(s[j], 16)
                    j += 1
                out.append(v & 0xff)
                i = j
                continue
            if c not in mp:
                raise ILSyntaxError("unknown escape \\%s in string" % c)
            out.append(mp[c])
            i += 1
            continue
        out.extend(c.encode("utf-8", "surrogateescape"))
        i += 1
    return bytes(out)


CLASSES = ("w", "l", "s", "d")
EXT_CLASSES = ("w", "l", "s", "d", "b", "h", "sb", "ub", "sh", "uh")


class _P:
    def __init__(self, text):
        self.t = _lex(text)
        self.i = 0

    def peek(self):
        return self.t[self.i]

    def next(self):
        tk = self.t[self.i]
        self.i += 1
        return tk

    def err(self, msg, tk=None):
        tk = tk or self.peek()
        raise ILSyntaxError("line %d: %s (at %r)" % (tk[2], msg, tk[1]))

    def expect(self, kind, val=None):
        tk = self.next()
        if tk[0] != kind or (val is not None and tk[1] != val):
            self.err("expected %s" % (val or kind), tk)
        return tk

    def skipnl(self):
        while self.peek()[0] == "nl":
            self.next()

    def accept(self, kind, val=None):
        tk = self.peek()
        if tk[0] == kind and (val is None or tk[1] == val):
            self.i += 1
            return tk
        return None

    # ---- values
    def value(self):
        tk = self.next()
        if tk[0] == "int":
            return Val("int", int(tk[1]))
        if tk[0] == "flt":
            return Val("flt", (tk[1][0], _fltval(tk[1]), tk[1][2:]))
        if tk[0] == "ident" and tk[1] == "thread":
            n = self.expect("name")
            if n[1][0] != "$":
                self.err("thread must be followed by a global", n)
            return Val("glo", n[1][1:], True)
        if tk[0] == "name":
            if tk[1][0] == "%":
                return Val("tmp", tk[1][1:])
            if tk[1][0] == "$":
                return Val("glo", tk[1][1:])
        self.err("expected value", tk)

    def module(self):
        m = Module()
        while True:
            self.skipnl()
            tk = self.peek()
            if tk[0] == "eof":
                return m
            if tk[0] != "ident":
                self.err("expected definition")
            if tk[1] == "type":
                td = self.typedef()
                if td.name in m.types:
                    self.err("type :%s defined twice" % td.name, tk)
                m.types[td.name] = td
                m.order.append(("type", td))
                continue
            export = thread = False
            section = None
            line = tk[2]
            while True:
                tk = self.peek()
                if tk == ("ident", "export", tk[2]):
                    self.next()
                    export = True
                    self.skipnl()
                elif tk[0] == "ident" and tk[1] == "thread":
                    self.next()
                    thread = True
                    self.skipnl()
                elif tk[0] == "ident" and tk[1] == "section":
                    self.next()
                    section = self.expect("str")[1]
                    self.accept("str")
                    self.skipnl()
                else:
                    break
            tk = self.next()
            if tk[0] == "ident" and tk[1] == "data":
                d = self.datadef()
                d.export, d.thread, d.line, d.section = export, thread, line, section
                m.data.append(d)
                m.order.append(("data", d))
            elif tk[0] == "ident" and tk[1] == "function":
                if thread:
                    self.err("thread function", tk)
                f = self.funcdef()
                f.export, f.line = export, line
                m.funcs.append(f)
                m.order.append(("func", f))
            else:
                self.err("expected data or function", tk)

    def typedef(self):
        self.expect("ident", "type")
        n = self.expect("name")
        if n[1][0] != ":":
            self.err("expected :typename", n)
        td = TypeDef(n[1][1:])
        td.line = n[2]
        self.expect("punct", "=")
        if self.accept("ident", "align"):
            td.align = int(self.expect("int")[1])
        self.expect("punct", "{")
        tk = self.peek()
        if tk[0] == "int":
            self.next()
            td.opaque_size = int(tk[1])
            self.expect("punct", "}")
            return td
        if tk[0] == "punct" and tk[1] == "{":
            td.is_union = True
            while self.accept("punct", "{"):
                td.fields.append(self.fieldlist())
            self.expect("punct", "}")
            return td
        td.fields = self.fieldlist()
        return td

    def fieldlist(self):
        fields = []
        while True:
            tk = self.next()
            if tk[0] == "punct" and tk[1] == "}":
                return fields
            if tk[0] == "ident" and tk[1] in ("w", "l", "s", "d", "b", "h"):
                ty = tk[1]
            elif tk[0] == "name" and tk[1][0] == ":":
                ty = tk[1]
            else:
                self.err("expected field type", tk)
            cnt = 1
            c = self.accept("int")
            if c:
                cnt = int(c[1])
            fields.append((ty, cnt))
            if not self.accept("punct", ","):
                self.expect("punct", "}")
                return fields

    def datadef(self):
        n = self.expect("name")
        if n[1][0] != "$":
            self.err("expected $name", n)
        d = DataDef(n[1][1:])
        self.expect("punct", "=")
        if self.accept("ident", "align"):
            d.align = int(self.expect("int")[1])
        self.expect("punct", "{")
        while True:
            self.skipnl()
            tk = self.next()
            if tk[0] == "punct" and tk[1] == "}":
                break
            if tk[0] != "ident" or tk[1] not in ("b", "h", "w", "l", "s", "d", "z"):
                self.err("expected data item type", tk)
            cls = tk[1]
            if cls == "z":
                d.items.append(DataItem("zero", value=int(self.expect("int")[1])))
            else:
                nitems = 0
                while True:
                    tk = self.peek()
                    if tk[0] == "int":
                        self.next()
                        d.items.append(DataItem("int", cls, int(tk[1])))
                    elif tk[0] == "flt":
                        self.next()
                        d.items.append(DataItem("flt", cls, (tk[1][0], _fltval(tk[1]), tk[1][2:])))
                    elif tk[0] == "str":
                        self.next()
                        if cls != "b":
                            self.err("string in non-byte item", tk)
                        d.items.append(DataItem("str", cls, unescape(tk[1])))
                    elif tk[0] == "name" and tk[1][0] == "$" or (tk[0] == "ident" and tk[1] == "thread"):
                        thread = False
                        if tk[0] == "ident":
                            self.next()
                            thread = True
                            tk = self.peek()
                        self.next()
                        off = 0
                        if self.accept("punct", "+"):
                            off = int(self.expect("int")[1])
                        it = DataItem("sym", cls, sym=tk[1][1:], off=off)
                        it.thread = thread
                        d.items.append(it)
                    else:
                        break
                    nitems += 1
                if nitems == 0:
                    self.err("data item without value")
            self.skipnl()
            if not self.accept("punct", ","):
                self.skipnl()
                self.expect("punct", "}")
                break
        return d

    def abity(self):
        tk = self.next()
        if tk[0] == "ident" and tk[1] in EXT_CLASSES:
            return tk[1]
        if tk[0] == "name" and tk[1][0] == ":":
            return tk[1]
        self.err("expected class or :type", tk)

    def funcdef(self):
        tk = self.peek()
        retcls = rettype = None
        if tk[0] == "ident" and tk[1] in EXT_CLASSES:
            self.next()
            retcls = tk[1]
        elif tk[0] == "name" and tk[1][0] == ":":
            self.next()
            rettype = tk[1]
            retcls = "l"
        n = self.expect("name")
        if n[1][0] != "$":
            self.err("expected function name", n)
        f = Func(n[1][1:])
        f.retcls, f.rettype = retcls, rettype
        self.expect("punct", "(")
        if not self.accept("punct", ")"):
            while True:
                if self.accept("ellipsis"):
                    f.variadic = True
                    self.expect("punct", ")")
                    break
                if self.accept("ident", "env"):
                    ty = "env"
                else:
                    ty = self.abity()
                t = self.expect("name")
                if t[1][0] != "%":
                    self.err("expected parameter temporary", t)
                f.params.append((ty, t[1][1:]))
                if self.accept("punct", ")"):
                    break
                self.expect("punct", ",")
        self.skipnl()
        self.expect("punct", "{")
        self.expect("nl")
        cur = None
        while True:
            self.skipnl()
            tk = self.peek()
            if tk[0] == "punct" and tk[1] == "}":
                self.next()
                break
            if tk[0] == "eof":
                self.err("unterminated function")
            if tk[0] == "name" and tk[1][0] == "@":
                self.next()
                cur = Block(tk[1][1:])
                cur.line = tk[2]
                f.blocks.append(cur)
                self.expect("nl")
                continue
            if cur is None:
                self.err("instruction before first label")
            if cur.jump is not None:
                self.err("instruction after block terminator")
            self.statement(cur)
        return f

    def statement(self, b):
        tk = self.next()
        line = tk[2]
        if tk[0] == "ident" and tk[1] in ("jmp", "jnz", "ret", "hlt"):
            if tk[1] == "jmp":
                l = self.expect("name")
                b.jump = ("jmp", l[1][1:])
            elif tk[1] == "jnz":
                v = self.value()
                self.expect("punct", ",")
                l1 = self.expect("name")
                self.expect("punct", ",")
                l2 = self.expect("name")
                if l1[1][0] != "@" or l2[1][0] != "@":
                    self.err("jnz needs labels", l1)
                b.jump = ("jnz", v, l1[1][1:], l2[1][1:])
            elif tk[1] == "ret":
                v = None
                if self.peek()[0] != "nl":
                    v = self.value()
                b.jump = ("ret", v)
            else:
                b.jump = ("hlt",)
            self.expect("nl")
            return
        res = cls = rtype = None
        if tk[0] == "name" and tk[1][0] == "%":
            res = tk[1][1:]
            self.expect("punct", "=")
            c = self.next()
            if c[0] == "ident" and c[1] in CLASSES:
                cls = c[1]
            elif c[0] == "name" and c[1][0] == ":":
                cls, rtype = "l", c[1]
            else:
                self.err("expected class after '='", c)
            tk = self.next()
        if tk[0] != "ident":
            self.err("expected instruction", tk)
        op = tk[1]
        if op == "phi":
            if b.insts:
                self.err("phi after ordinary instruction", tk)
            p = Phi()
            p.res, p.cls, p.line = res, cls, line
            if res is None:
                self.err("phi without result", tk)
            while True:
                l = self.expect("name")
                if l[1][0] != "@":
                    self.err("expected label in phi", l)
                p.args.append((l[1][1:], self.value()))
                if not self.accept("punct", ","):
                    break
            self.expect("nl")
            b.phis.append(p)
            return
        ins = Inst()
        ins.op, ins.res, ins.cls, ins.rtype, ins.line = op, res, cls, rtype, line
        if op == "call":
            ins.args.append(self.value())
            self.expect("punct", "(")
            ins.cargs = []
            if not self.accept("punct", ")"):
                while True:
                    if self.accept("ellipsis"):
                        if ins.variadic_at is not None:
                            self.err("two '...' in call")
                        ins.variadic_at = len(ins.cargs)
                    else:
                        if self.accept("ident", "env"):
                            ty = "env"
                        else:
                            ty = self.abity()
                        ins.cargs.append((ty, self.value()))
                    if self.accept("punct", ")"):
                        break
                    self.expect("punct", ",")
        else:
            if self.peek()[0] != "nl":
                ins.args.append(self.value())
                while self.accept("punct", ","):
                    ins.args.append(self.value())
        self.expect("nl")
        b.insts.append(ins)


def parse(text):
    if isinstance(text, bytes):
        text = text.decode("utf-8", "surrogateescape")
    return _P(text).module()


# ---------------------------------------------------------------------------- layout helpers

BASE_SIZE = {"b": 1, "h": 2, "w": 4, "l": 8, "s": 4, "d": 8}


def type_layout(mod, name, _depth=0):
    """QBE's aggregate layout: returns (size, align, flat) with flat = list of (offset, cls) for scalar leaves
    (for unions: leaves of all alternatives)."""
    if _depth > 64:
        raise ILSyntaxError("recursive type :%s" % name)
    td = mod.types.get(name)
    if td is None:
        raise ILSyntaxError("undefined type :%s" % name)
    if td.opaque_size is not None:
        return td.opaque_size, td.align or 1, [(0, "opaque", td.opaque_size)]

    def struct_layout(fields):
        off = 0
        al = 1
        flat = []
        for ty, cnt in fields:
            if ty.startswith(":"):
                sz, a, sub = type_layout(mod, ty[1:], _depth + 1)
            else:
                sz, a, sub = BASE_SIZE[ty], BASE_SIZE[ty], [(0, ty, BASE_SIZE[ty])]
            off = (off + a - 1) // a * a
            for i in range(cnt):
                for so, sc, ss in sub:
                    flat.append((off + so, sc, ss))
                off += sz
            al = max(al, a)
        return off, al, flat

    if td.is_union:
        size = 0
        al = 1
        flat = []
        for alt in td.fields:
            s, a, fl = struct_layout(alt)
            size = max(size, s)
            al = max(al, a)
            flat.extend(fl)
    else:
        size, al, flat = struct_layout(td.fields)
    if td.align:
        al = td.align
    size = (size + al - 1) // al * al
    return size, al, flat


def data_image(d):
    """(size, bytes image with relocation slots zeroed, relocs [(offset, size, sym, addend, thread)])."""
    out = bytearray()
    relocs = []
    for it in d.items:
        if it.kind == "zero":
            out.extend(b"\0" * it.value)
        elif it.kind == "str":
            out.extend(it.value)
        elif it.kind == "int":
            n = BASE_SIZE[it.cls]
            if it.cls in ("s", "d"):
                out.extend((it.value % (1 << (8 * n))).to_bytes(n, "little"))
            else:
                out.extend((it.value % (1 << (8 * n))).to_bytes(n, "little"))
        elif it.kind == "flt":
            if it.cls == "s":
                from .il2c import round_to_f32
                out.extend(struct.pack("<f", round_to_f32(it.value[2])))
            elif it.cls == "d":
                out.extend(struct.pack("<d", it.value[1]))
            else:
                raise ILSyntaxError("floating constant in integer data item of $%s" % d.name)
        elif it.kind == "sym":
            n = BASE_SIZE[it.cls]
            relocs.append((len(out), n, it.sym, it.off, it.thread))
            out.extend(b"\0" * n)
    return len(out), bytes(out), relocs


def _to_f32(x):
    try:
        return struct.unpack("<f", struct.pack("<f", x))[0]
    except OverflowError:
        return float("inf") if x > 0 else float("-inf")
