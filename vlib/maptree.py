"""In-process rapidcheck harness for /repo's tree.c and map.c (DESIGN C15(a), C16(a)).

native/maptree_rc.cpp is linked against tree.o, map.o and util.o compiled from the *current* /repo tree
(build.REPO, i.e. $VERIF_REPO) with ASan+UBSan.  This module builds it and wraps its modes as framework
sources:

    tree_sources(ctx)  -> [Source("tree-enum", exhaustive), Source("tree-rc")]
    map_sources(ctx)   -> [Source("map-rc")]
    replay_source()    -> Source("rc-replay")   case = {"mode": "tree-rc"|"tree-enum"|"map-rc", "text": "..."}

Every case of an enum source is one harness process: (mode, seed offset) for the rapidcheck modes (16 cases, so
the 16 workers run 16 independent rapidcheck processes whose `seed=` is derived from ctx.seed), (K, part, 16)
for the exhaustive enumeration.  A case is judged failed when the process exits with anything but 0
(property falsified, sanitizer report, abort, watchdog) or prints no STATS line.

Counting.  res.n is the number of sequences / histories the harness reports in its STATS line.  The rapidcheck
modes print one `KEY <hash>` line per non-trivial sequence (hash of the sequence text); those are the
distinctness keys.  The exhaustive mode would have to print 46 233 sequences, so its keys are synthetic,
"tree-enum:<i>": the harness *counts* the orders in which at least one rotation happened (all orders are
distinct permutations by construction) and this module emits that many keys (capped at 50 000 over all parts).

Non-trivial (as measured by the harness):
  tree: at least one insertion of the sequence rotated, i.e. the ancestors of the new node after the insertion
        differ from the nodes of the plain search path walked before it;
  map:  the history grew the table at least once and saw a probe chain of length >= 3 (distance from the
        slot `hash & cap-1` to the slot holding the key, computed with the reference hash).

Known hazard of the unchanged tree (not reachable from cproc, which uses capacities 8/32/64): with capacity 1
or 2 the table can become completely full (len == cap), after which mapget() of an absent key never terminates.
By default the harness does not issue such a lookup and counts it (label "full-table-lookup-skipped");
MAPTREE_SMALLCAP=fail makes it a failure, MAPTREE_SMALLCAP=exec performs the call (the watchdog then fires).
SMALLCAP_CASE below replays it.
"""
import fcntl
import hashlib
import json
import os
import shutil
import subprocess
import sys
import time

from . import build
from .runner import Result, Source, run, sha

SRC = os.path.join(build.VERIF, "native", "maptree_rc.cpp")
OBJCACHE = os.path.join(os.path.dirname(build.CACHE), "maptree-obj")

C_FLAGS = ["-std=c99", "-g", "-O1", "-fsanitize=address,undefined", "-fno-sanitize-recover=undefined"]
# The harness TU itself is compiled with ASan only: UBSan instrumentation of the rapidcheck templates quadruples
# the compile time (26 s -> 100 s) and checks nothing of /repo.  The link line has both runtimes.
CXX_FLAGS = ["-std=gnu++17", "-g", "-O1", "-fsanitize=address"]
LD_FLAGS = ["-std=gnu++17", "-g", "-O1", "-fsanitize=address,undefined"]
C_FILES = ["tree.c", "map.c", "util.c"]

ENV = {
    "PATH": "/usr/local/bin:/usr/bin:/bin",
    "LC_ALL": "C",
    "ASAN_OPTIONS": "detect_leaks=1:abort_on_error=0:symbolize=1:handle_abort=0:detect_stack_use_after_return=0",
    "UBSAN_OPTIONS": "print_stacktrace=1:halt_on_error=1:abort_on_error=1",
    "ASAN_SYMBOLIZER_PATH": "/usr/bin/llvm-symbolizer-14",
}

NPROC = 16

# max_success is per rapidcheck property and per process (tree-rc has two properties).
TIERS = {
    "quick": dict(K=8, tree_success=150, map_success=100, maxops=10000, maxkeys=5000, timeout=900),
    "thorough": dict(K=10, tree_success=6000, map_success=800, maxops=100000, maxkeys=5000, timeout=6 * 3600),
}

SMALLCAP_CASE = {"mode": "map-rc", "text": "c=0 h=0 P61 G62", "env": {"MAPTREE_SMALLCAP": "exec", "MAPTREE_WATCHDOG": "5"}}


def _sh(cmd, what, timeout=900):
    r = subprocess.run(cmd, stdin=subprocess.DEVNULL, stdout=subprocess.PIPE, stderr=subprocess.STDOUT, timeout=timeout)
    if r.returncode != 0:
        raise build.BuildError("%s failed: %s\n%s" % (what, " ".join(cmd), r.stdout.decode(errors="replace")[-4000:]))


def _locked(path):
    os.makedirs(os.path.dirname(path), exist_ok=True)
    f = open(path, "w")
    fcntl.flock(f, fcntl.LOCK_EX)
    return f


def _harness_object():
    """maptree_rc.o depends on the harness source and on util.h (struct layouts) only: cached on their bytes."""
    h = hashlib.sha256()
    for p in (SRC, os.path.join(build.REPO, "util.h")):
        with open(p, "rb") as f:
            h.update(f.read())
        h.update(b"\0")
    h.update(" ".join(CXX_FLAGS).encode())
    key = h.hexdigest()[:24]
    d = os.path.join(OBJCACHE, key)
    obj = os.path.join(d, "maptree_rc.o")
    lock = _locked(os.path.join(OBJCACHE, key + ".lock"))
    try:
        if not os.path.exists(obj):
            os.makedirs(d, exist_ok=True)
            # util.h is copied so that -I does not expose the rest of /repo to the C++ compiler
            shutil.copy(os.path.join(build.REPO, "util.h"), os.path.join(d, "util.h"))
            _sh(["g++"] + CXX_FLAGS + ["-I" + d, "-c", SRC, "-o", obj + ".tmp"], "harness compile")
            os.rename(obj + ".tmp", obj)
            # keep the three newest objects
            ents = sorted((os.path.getmtime(os.path.join(OBJCACHE, x)), x) for x in os.listdir(OBJCACHE)
                          if os.path.isdir(os.path.join(OBJCACHE, x)))
            for _, x in ents[:-3]:
                if x != key:
                    shutil.rmtree(os.path.join(OBJCACHE, x), ignore_errors=True)
        return obj, key
    finally:
        fcntl.flock(lock, fcntl.LOCK_UN)
        lock.close()


def build_harness(ctx=None):
    """Compile tree.c, map.c, util.c from build.REPO (current tree) and link the harness.  Returns the binary."""
    obj, okey = _harness_object()
    key = build.tree_hash("maptree" + okey + " ".join(C_FLAGS + LD_FLAGS))
    d = os.path.join(build.CACHE, key)
    exe = os.path.join(d, "maptree_rc")
    lock = _locked(os.path.join(build.CACHE, key + ".lock"))
    try:
        if os.path.exists(os.path.join(d, ".ok")):
            os.utime(d)
        else:
            shutil.rmtree(d, ignore_errors=True)
            os.makedirs(d)
            try:
                objs = []
                for c in C_FILES:
                    o = os.path.join(d, c[:-2] + ".o")
                    _sh(["gcc"] + C_FLAGS + ["-I" + build.REPO, "-c", os.path.join(build.REPO, c), "-o", o], "compile of " + c)
                    objs.append(o)
                _sh(["g++"] + LD_FLAGS + ["-o", exe, obj] + objs + ["-lrapidcheck"], "harness link")
            except Exception:
                shutil.rmtree(d, ignore_errors=True)
                raise
            open(os.path.join(d, ".ok"), "w").close()
    finally:
        fcntl.flock(lock, fcntl.LOCK_UN)
        lock.close()
    if ctx is not None:
        ctx.builds["maptree"] = exe
    return exe


def prepare(ctx):
    build_harness(ctx)


# --------------------------------------------------------------------------- running one harness process

_SALT = {"tree-rc": 101, "map-rc": 202}


def rc_seed(ctx_seed, mode, off):
    return (int(ctx_seed) * 1000003 + off * 7919 + _SALT[mode]) % (1 << 62)


def _exe(ctx):
    exe = ctx.builds.get("maptree")
    if not exe:
        exe = build_harness(ctx)
    return exe


def _env(extra=None):
    e = dict(ENV)
    for k in ("MAPTREE_SMALLCAP", "MAPTREE_WATCHDOG"):
        if k in os.environ:
            e[k] = os.environ[k]
    if extra:
        e.update(extra)
    return e


def _text_arg(ctx, text):
    """Sequence text as an argv word, or via @file when it is too long for one."""
    if len(text) < 100000:
        return text
    p = os.path.join(ctx.wdir(), "seq-%s.txt" % sha(text))
    with open(p, "w") as f:
        f.write(text)
    return "@" + p


def _last_counterexample(out):
    """-> (mode, text, shrunk?) of the last COUNTEREXAMPLE line, or None."""
    found = None
    prev = ""
    for ln in out.splitlines():
        if ln.startswith("COUNTEREXAMPLE "):
            w = ln.split(" ", 2)
            if len(w) == 3:
                found = (w[1], w[2], prev.startswith("MINIMIZED"))
        if ln.strip():
            prev = ln
    return found


def _failure(ctx, exe, mode, p, out, err):
    why = "timeout" if p.timeout else "exit status %s" % p.rc
    ce = _last_counterexample(out)
    note = ""
    if ce and not ce[2]:
        # the process died (sanitizer / abort / watchdog) while running this sequence: delta-debug it in forked children
        q = run([exe, "shrink", ce[0], _text_arg(ctx, ce[1])], env=_env(), timeout=900)
        ce2 = _last_counterexample(q.out.decode(errors="replace"))
        if ce2:
            ce = ce2
        else:
            note = " (not minimised: shrink said %r)" % q.out.decode(errors="replace")[-200:]
    body = (out[-1500:] if len(out) > 1500 else out) + "\n--- stderr ---\n" + err
    # drop the bulky unshrunk sequence from the message
    body = "\n".join(l if len(l) < 600 else l[:600] + "...[%d chars]" % len(l) for l in body.splitlines())
    if ce:
        head = "COUNTEREXAMPLE %s %s%s" % (ce[0], ce[1] if len(ce[1]) < 3000 else ce[1][:3000] + "...", note)
        return dict(sig="", msg="%s: %s\n%s\n%s" % (mode, why, head, body[:2000]), replay_args=[ce[0], ce[1]])
    return dict(sig="", msg="%s: %s, no counter-example printed\n%s" % (mode, why, body[:2000]), replay_args=None)


def _parse_stats(out):
    for ln in reversed(out.splitlines()):
        if ln.startswith("STATS "):
            try:
                return json.loads(ln[6:])
            except ValueError:
                return None
    return None


def check(case, ctx):
    """One harness process.  case: {"mode": "tree-enum", "K":, "part":, "nparts":} or {"mode": "tree-rc"|"map-rc", "off": i}."""
    res = Result()
    exe = _exe(ctx)
    mode = case["mode"]
    t = TIERS[ctx.tier]
    env = _env()
    if mode == "tree-enum":
        cmd = [exe, "tree-enum", str(case["K"]), str(case["part"]), str(case["nparts"])]
        seed = None
    else:
        seed = rc_seed(ctx.seed, mode, case["off"])
        ms = t["tree_success"] if mode == "tree-rc" else t["map_success"]
        env["RC_PARAMS"] = "seed=%d max_success=%d max_size=100" % (seed, ms)
        env["MAPTREE_MAXOPS"] = str(t["maxops"])
        env["MAPTREE_MAXKEYS"] = str(t["maxkeys"])
        cmd = [exe, mode]
    p = run(cmd, env=env, timeout=t["timeout"], cwd=ctx.wdir())
    out = p.out.decode(errors="replace")
    err = p.err.decode(errors="replace")
    st = _parse_stats(out)
    res.sample = {"source": mode, "case": case, "rc_seed": seed,
                  "sequences": [l.split(" ", 2)[2][:300] for l in out.splitlines() if l.startswith("SAMPLE ")][:3]}
    if p.rc != 0 or p.timeout or st is None:
        res.n = 1
        res.fail = _failure(ctx, exe, mode, p, out, err[-3000:])
        return res
    if mode == "tree-enum":
        res.n = st["orders"]
        cap = 50000 // case["nparts"]
        res.keys = ["tree-enum:%d" % (case["part"] + case["nparts"] * j) for j in range(min(st["nontrivial"], cap))]
        res.labels = ["tree-enum-order"] * min(st["orders"], 100000)
        res.sample["stats"] = st
    else:
        res.n = st["sequences"] if mode == "tree-rc" else st["histories"]
        res.keys = [l[4:].strip() for l in out.splitlines() if l.startswith("KEY ")]
        for k, v in sorted(st.get("labels", {}).items()):
            res.labels.extend(["%s:%s" % (mode, k)] * min(int(v), 100000))
        res.sample["stats"] = {k: v for k, v in st.items() if k != "labels"}
    return res


def replay_check(case, ctx):
    """Replay of one sequence: {"mode": ..., "text": ...} (optional "env": extra environment for the harness)."""
    res = Result()
    res.n = 1
    exe = _exe(ctx)
    p = run([exe, "replay", case["mode"], _text_arg(ctx, case["text"])], env=_env(case.get("env")), timeout=600, cwd=ctx.wdir())
    out = p.out.decode(errors="replace")
    err = p.err.decode(errors="replace")
    res.sample = {"source": "rc-replay", "mode": case["mode"], "text": case["text"][:300], "says": out.strip()[-300:]}
    if p.rc == 0:
        res.keys = [sha(case["mode"] + " " + case["text"])]
        res.labels = ["rc-replay:" + case["mode"]]
        return res
    why = "timeout" if p.timeout else "exit status %s" % p.rc
    body = "\n".join(l if len(l) < 600 else l[:600] + "..." for l in (out + "\n--- stderr ---\n" + err).splitlines())
    res.fail = dict(sig="", msg="replay %s: %s\nCOUNTEREXAMPLE %s %s\n%s" % (case["mode"], why, case["mode"], case["text"][:3000], body[:2000]),
                    replay_args=[case["mode"], case["text"]])
    return res


# --------------------------------------------------------------------------- sources

def _enum_tree_enum(ctx):
    K = TIERS[ctx.tier]["K"]
    for i in range(NPROC):
        yield {"mode": "tree-enum", "K": K, "part": i, "nparts": NPROC}


def _enum_rc(mode):
    def e(ctx):
        for i in range(NPROC):
            yield {"mode": mode, "off": i}
    return e


def tree_sources(ctx):
    return [Source("tree-enum", check, enum=_enum_tree_enum, exhaustive=True),
            Source("tree-rc", check, enum=_enum_rc("tree-rc"))]


def map_sources(ctx):
    return [Source("map-rc", check, enum=_enum_rc("map-rc"))]


def replay_source():
    return Source("rc-replay", replay_check, enum=lambda ctx: iter(()))


# --------------------------------------------------------------------------- stand-alone driver (timing, sensitivity runs)

def _one(args):
    name, case, tier, seed, tmp, exe, idx = args
    from .runner import Ctx
    ctx = Ctx("maptree", tier, seed)
    ctx.tmp, ctx.worker = tmp, idx
    ctx.builds["maptree"] = exe
    t0 = time.time()
    res = check(case, ctx)
    return name, case, res.n, len(res.keys), res.fail, time.time() - t0, (res.sample or {}).get("stats")


def main(argv):
    import multiprocessing
    import tempfile
    from .runner import Ctx
    tier = argv[0] if argv else "quick"
    seed = int(argv[1]) if len(argv) > 1 else 1
    only = argv[2].split(",") if len(argv) > 2 else None
    ctx = Ctx("maptree", tier, seed)
    ctx.tmp = tempfile.mkdtemp(prefix="verif-maptree-")
    t0 = time.time()
    exe = build_harness(ctx)
    print("built %s in %.1fs (REPO=%s)" % (exe, time.time() - t0, build.REPO))
    rc = 0
    try:
        for src in tree_sources(ctx) + map_sources(ctx):
            if only and src.name not in only:
                continue
            t1 = time.time()
            jobs = [(src.name, c, tier, seed, ctx.tmp, exe, i) for i, c in enumerate(src.enum(ctx))]
            with multiprocessing.get_context("fork").Pool(NPROC) as pool:
                outs = pool.map(_one, jobs, chunksize=1)
            n = sum(o[2] for o in outs)
            k = sum(o[3] for o in outs)
            fails = [o for o in outs if o[4]]
            agg = {}
            for o in outs:
                for a, b in (o[6] or {}).items():
                    if isinstance(b, int) and a not in ("K", "part", "nparts"):
                        agg[a] = max(agg.get(a, 0), b) if a.startswith("max_") else agg.get(a, 0) + b
            print("%-9s %8d evaluations %7d non-trivial %2d failing processes  %.1fs wall (slowest process %.1fs)"
                  % (src.name, n, k, len(fails), time.time() - t1, max(o[5] for o in outs)))
            print("          " + json.dumps(agg, sort_keys=True))
            for o in fails[:2]:
                print("  FAIL after %.1fs: %s" % (o[5], o[4]["msg"][:1200].replace("\n", "\n    ")))
                print("  replay_args: %r" % (o[4]["replay_args"] and [o[4]["replay_args"][0], o[4]["replay_args"][1][:400]],))
            if fails:
                rc = 1
    finally:
        shutil.rmtree(ctx.tmp, ignore_errors=True)
    print("total %.1fs" % (time.time() - t0))
    return rc


if __name__ == "__main__":
    sys.exit(main(sys.argv[1:]))
