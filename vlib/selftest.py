"""Self-tests of the oracles that do not depend on /repo (run by setup.sh)."""
import sys


def main():
    from . import clex
    toks = [(t.kind, t.s) for t in clex.lex("a+++b x<<=1 .5e+3 u8\"s\" L'c' a/**/b // c\n...", keep_newlines=False)]
    want = [("ident", "a"), ("punct", "++"), ("punct", "+"), ("ident", "b"), ("ident", "x"), ("punct", "<<="),
            ("number", "1"), ("number", ".5e+3"), ("string", "u8\"s\""), ("char", "L'c'"), ("ident", "a"),
            ("ident", "b"), ("punct", "...")]
    assert toks == want, toks
    for name in ("ilcheck", "il2c", "cmodel"):
        try:
            mod = __import__("vlib." + name, fromlist=["selftest"])
        except ImportError:
            continue
        if hasattr(mod, "selftest"):
            mod.selftest()
    print("selftest ok")


main()
