import argparse
import importlib
import os
import sys
import faulthandler
import signal
faulthandler.register(signal.SIGUSR1, all_threads=True, chain=False)   # kill -USR1 <pid>: Python stack to stderr (development aid)


def main():
    ap = argparse.ArgumentParser()
    ap.add_argument("id")
    ap.add_argument("--tier", default=os.environ.get("VERIF_TIER") or "quick", choices=["quick", "thorough"])
    ap.add_argument("--replay")
    ap.add_argument("--source")
    ap.add_argument("--seed", type=int, default=None)
    a = ap.parse_args()
    try:
        seed = a.seed if a.seed is not None else int(os.environ.get("VERIF_SEED", "0") or 0)
    except ValueError:
        seed = 0
    mod = importlib.import_module("vlib.props." + a.id.lower())
    from . import runner
    sys.stdout.reconfigure(line_buffering=True)
    if a.replay:
        sys.exit(runner.replay(mod, a.replay))
    sys.exit(runner.run_property(mod, a.tier, seed, a.source))


main()
