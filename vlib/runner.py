"""Worker pool, seeds, budgets, evidence, known findings, replay files (DESIGN 2.7, 5).

A property module (vlib/props/cNN.py) defines
    ID, LEVEL, RULE, ASSUMPTIONS
    prepare(ctx)            -> builds what it needs from /repo (before forking)
    sources(ctx)            -> list of Source
Each Source has a name, a `check(case, ctx) -> Result` function and either a
Hypothesis strategy (kind "hyp") or an enumerator (kind "enum") of JSON-able cases.
"""
import collections
import hashlib
import json
import multiprocessing
import os
import shutil
import signal
import subprocess
import sys
import tempfile
import time
import traceback

VERIF = os.path.dirname(os.path.dirname(os.path.abspath(__file__)))
NWORK = int(os.environ.get("VERIF_JOBS", "16"))
COLLECT = bool(os.environ.get("VERIF_COLLECT"))
SHRINK_CALLS = int(os.environ.get("VERIF_SHRINK_CALLS", "80"))
SCALE = float(os.environ.get("VERIF_SCALE", "1") or 1)     # development only (smoke runs of the thorough tier); registered commands never set it


# --------------------------------------------------------------------------- subprocess helper

class Proc:
    __slots__ = ("rc", "out", "err", "timeout", "sig")

    def __init__(self, rc, out, err, timeout):
        self.rc, self.out, self.err, self.timeout = rc, out, err, timeout
        self.sig = -rc if rc is not None and rc < 0 else 0


def run(cmd, input=None, timeout=20, env=None, cwd=None, stdout=subprocess.PIPE, stderr=subprocess.PIPE,
        preexec=None, stdin=None):
    """Run a subprocess with stdin=/dev/null (unless input given), its own session, kill-on-timeout."""
    if stdin is None:
        stdin = subprocess.PIPE if input is not None else subprocess.DEVNULL
    p = subprocess.Popen(cmd, stdin=stdin, stdout=stdout, stderr=stderr,
                         env=env, cwd=cwd, start_new_session=True, preexec_fn=preexec)
    if stdout == subprocess.PIPE and stderr == subprocess.PIPE:
        return _communicate_capped(p, input, timeout)
    try:
        out, err = p.communicate(input, timeout=timeout)
        return Proc(p.returncode, out or b"", err or b"", False)
    except subprocess.TimeoutExpired:
        try:
            os.killpg(p.pid, signal.SIGKILL)
        except OSError:
            pass
        try:
            out, err = p.communicate(timeout=5)
        except Exception:
            out, err = b"", b""
        return Proc(None, out or b"", err or b"", True)


OUTPUT_CAP = 256 << 20


def _communicate_capped(p, input, timeout):
    """communicate() with a bound on what is kept: a child that prints without end (a compiler stuck in an expansion loop)
    is killed and reported like a timeout instead of exhausting the memory of the checking process."""
    import selectors
    import time as _t
    sel = selectors.DefaultSelector()
    bufs = {p.stdout: [], p.stderr: []}
    size = 0
    for f in bufs:
        os.set_blocking(f.fileno(), False)
        sel.register(f, selectors.EVENT_READ)
    inbuf = memoryview(input) if input else None
    stdin_open = False
    if p.stdin is not None:
        if inbuf is None or not len(inbuf):
            p.stdin.close()
        else:
            os.set_blocking(p.stdin.fileno(), False)
            sel.register(p.stdin, selectors.EVENT_WRITE)
            stdin_open = True
    end = _t.monotonic() + timeout
    killed = False
    open_r = 2
    while open_r or stdin_open:
        left = end - _t.monotonic()
        if left <= 0 or size > OUTPUT_CAP:
            killed = True
            break
        for key, ev in sel.select(min(left, 1.0)):
            f = key.fileobj
            if f is p.stdin:
                try:
                    n = os.write(f.fileno(), inbuf[:65536])
                    inbuf = inbuf[n:]
                except BlockingIOError:
                    n = 0
                except OSError:
                    inbuf = inbuf[:0]
                if not len(inbuf):
                    sel.unregister(f)
                    stdin_open = False
                    try:
                        f.close()
                    except OSError:
                        pass
                continue
            try:
                data = os.read(f.fileno(), 1 << 16)
            except BlockingIOError:
                continue
            except OSError:
                data = b""
            if not data:
                sel.unregister(f)
                open_r -= 1
            else:
                bufs[f].append(data)
                size += len(data)
    if killed:
        try:
            os.killpg(p.pid, signal.SIGKILL)
        except OSError:
            pass
    out, err = b"".join(bufs[p.stdout]), b"".join(bufs[p.stderr])
    sel.close()
    for f in (p.stdin, p.stdout, p.stderr):
        try:
            if f is not None:
                f.close()
        except OSError:
            pass
    try:
        p.wait(timeout=10 if killed else max(1.0, end - _t.monotonic()))
    except subprocess.TimeoutExpired:
        killed = True
        try:
            os.killpg(p.pid, signal.SIGKILL)
        except OSError:
            pass
        try:
            p.wait(timeout=10)
        except subprocess.TimeoutExpired:
            pass
    if killed:
        return Proc(None, out[:1 << 20], err[:1 << 20], True)
    return Proc(p.returncode, out, err, False)


# --------------------------------------------------------------------------- results

def sha(x):
    if isinstance(x, str):
        x = x.encode("utf-8", "surrogateescape")
    elif not isinstance(x, (bytes, bytearray)):
        x = json.dumps(x, sort_keys=True, default=str).encode()
    return hashlib.sha256(x).hexdigest()[:16]


class Result:
    """Outcome of checking one case.

    fail: None or dict(sig=<finding signature or ''>, msg=<what went wrong>, ...)
    nontrivial: the case is non-trivial by the property's rule; key: distinctness key
    n / n_nontrivial_keys: for batched cases, how many sub-cases were evaluated and the
    keys of the non-trivial ones.
    """
    __slots__ = ("fail", "keys", "n", "labels", "discard", "sample", "known", "extra_fails")

    def __init__(self):
        self.fail = None
        self.keys = []          # distinct keys of non-trivial sub-cases
        self.n = 0              # evaluations
        self.labels = []        # label strings (histogram)
        self.discard = []       # discard reasons
        self.sample = None      # something printable describing the case
        self.known = []         # (sig, msg) of known findings matched
        self.extra_fails = []   # further failures found by a batch case: dict(source=, case=, fail=)

    def ok(self):
        return self.fail is None


class Source:
    def __init__(self, name, check, strategy=None, examples=None, enum=None, exhaustive=False, chunk=1):
        self.name = name
        self.check = check
        self.strategy = strategy    # callable ctx -> hypothesis strategy
        self.examples = examples    # dict tier -> total max_examples
        self.enum = enum            # callable ctx -> iterable of cases
        self.exhaustive = exhaustive
        self.chunk = chunk


class Ctx:
    def __init__(self, prop, tier, seed):
        self.prop = prop
        self.tier = tier
        self.seed = seed
        self.tmp = None
        self.builds = {}
        self.data = {}
        self.worker = 0
        self.known = {}      # sig -> finding dict (open findings of this property)

    def wdir(self):
        d = os.path.join(self.tmp, "w%d" % self.worker)
        os.makedirs(d, exist_ok=True)
        return d


# --------------------------------------------------------------------------- known findings

def load_findings(pid):
    p = os.path.join(VERIF, "known_findings.json")
    try:
        with open(p) as f:
            data = json.load(f)
    except FileNotFoundError:
        return {}, []
    open_, fixed = {}, []
    for e in data.get("findings", []):
        if e.get("property") != pid:
            continue
        if e.get("status") == "open":
            open_[e["signature"]] = e
        else:
            fixed.append(e)
    return open_, fixed


# --------------------------------------------------------------------------- worker

class _Stats:
    def __init__(self):
        self.evals = 0
        self.keys = set()
        self.labels = collections.Counter()
        self.discards = collections.Counter()
        self.samples = []
        self.known = collections.Counter()
        self.known_msg = {}
        self.failures = []      # list of dict(source, case, fail)
        self.errors = []
        self.slow = []

    def add(self, res, source):
        self.evals += max(res.n, 1)
        self.keys.update(res.keys)
        self.labels.update(res.labels)
        self.discards.update(res.discard)
        if res.sample is not None and len(self.samples) < 4 and res.keys:
            self.samples.append(res.sample)
        for sig, msg in res.known:
            self.known[sig] += 1
            self.known_msg.setdefault(sig, msg)

    def pack(self):
        return dict(evals=self.evals, keys=list(self.keys), labels=dict(self.labels),
                    discards=dict(self.discards), samples=self.samples, known=dict(self.known),
                    known_msg=self.known_msg, failures=self.failures, errors=self.errors, slow=self.slow)


class _Falsified(Exception):
    pass


def _filter_known(res, ctx, case=None, source=None):
    """Failures whose signature is a recorded open finding are counted, not raised."""
    keep = []
    for ef in res.extra_fails:
        sub = Result()
        sub.fail = ef["fail"]
        sub.sample = res.sample
        _filter_known(sub, ctx, ef["case"], ef["source"])
        res.known.extend(sub.known)
        if sub.fail is not None:
            keep.append(ef)
    res.extra_fails = keep
    f = res.fail
    if f is not None and f.get("sig") and COLLECT and f["sig"] not in ctx.known:
        d = os.path.join(VERIF, "replays", "collect", ctx.prop)
        os.makedirs(d, exist_ok=True)
        p = os.path.join(d, sha(f["sig"]) + ".json")
        if not os.path.exists(p):
            with open(p, "w") as fh:
                json.dump(dict(sig=f["sig"], fail=f, case=case, source=source, sample=res.sample), fh, indent=1, default=str)
        res.known.append(("collect:" + f["sig"], f.get("msg", "")))
        res.fail = None
        return res
    if f is not None and f.get("sig") and f["sig"] in ctx.known:
        res.known.append((f["sig"], f.get("msg", "")))
        res.fail = None
    return res


def _worker(args):
    modname, srcname, tier, seed, widx, nwork, tmp, builds, data, known = args
    import importlib
    mod = importlib.import_module(modname)
    ctx = Ctx(mod.ID, tier, seed)
    ctx.tmp, ctx.builds, ctx.data, ctx.worker, ctx.known = tmp, builds, data, widx, known
    st = _Stats()
    try:
        src = [s for s in mod.sources(ctx) if s.name == srcname][0]
        if src.enum is not None:
            for i, case in enumerate(src.enum(ctx)):
                if i % nwork != widx:
                    continue
                t1 = time.time()
                res = _filter_known(src.check(case, ctx), ctx, case, src.name)
                st.add(res, src)
                if time.time() - t1 > 5 and len(st.slow) < 5:
                    st.slow.append(["%.1fs" % (time.time() - t1), res.sample])
                st.failures.extend(res.extra_fails)
                if res.fail is not None:
                    st.failures.append(dict(source=src.name, case=case, fail=res.fail))
                if len(st.failures) >= 3:
                    break
        else:
            total = max(1, int(src.examples[tier] * SCALE))
            n = max(1, total // nwork)
            _hyp(src, ctx, st, n, seed * 1000 + widx)
    except Exception:
        st.errors.append(traceback.format_exc())
    return st.pack()


def _hyp(src, ctx, st, n, hseed):
    from hypothesis import given, settings, seed as hseed_dec, HealthCheck, Phase, Verbosity
    last = {}

    @settings(max_examples=n, database=None, deadline=None, derandomize=False,
              report_multiple_bugs=False, suppress_health_check=list(HealthCheck),
              phases=[Phase.generate, Phase.shrink], verbosity=Verbosity.quiet,
              print_blob=False)
    @hseed_dec(hseed)
    @given(src.strategy(ctx))
    def t(case):
        if last:
            # bound the cost of shrinking: after SHRINK_CALLS evaluations candidates are declined unevaluated
            last["calls"] = last.get("calls", 0) + 1
            if last["calls"] > SHRINK_CALLS:
                return
        res = _filter_known(src.check(case, ctx), ctx, case, src.name)
        st.add(res, src)
        if res.fail is not None:
            last["case"] = case
            last["fail"] = res.fail
            raise _Falsified(res.fail.get("msg", ""))

    try:
        t()
    except _Falsified:
        st.failures.append(dict(source=src.name, case=last["case"], fail=last["fail"]))
    except Exception as e:
        # includes hypothesis Flaky: report as machinery error unless a falsifying case is at hand
        if last:
            st.failures.append(dict(source=src.name, case=last["case"], fail=last["fail"], note=repr(e)))
        else:
            raise


# --------------------------------------------------------------------------- driver

def _validate_evidence(ev):
    try:
        import jsonschema
        with open("/root/.vp/EVIDENCE.schema.json") as f:
            schema = json.load(f)
        jsonschema.validate(ev, schema)
    except FileNotFoundError:
        pass


def write_replay(pid, rec):
    d = os.path.join(VERIF, "replays", pid)
    os.makedirs(d, exist_ok=True)
    body = json.dumps(rec, indent=1, sort_keys=True, default=str)
    p = os.path.join(d, sha(body) + ".json")
    with open(p, "w") as f:
        f.write(body)
    return p


def run_property(mod, tier, seed, only_source=None):
    t0 = time.time()
    pid = mod.ID
    ctx = Ctx(pid, tier, seed)
    ctx.tmp = tempfile.mkdtemp(prefix="verif-%s-" % pid)
    open_f, fixed_f = load_findings(pid)
    ctx.known = open_f
    violations = []
    try:
        try:
            mod.prepare(ctx)
        except Exception as e:
            from . import build
            if isinstance(e, build.TreeViolation):
                rp = write_replay(pid, {"property": pid, "source": "prepare", "case": e.case, "fail": {"msg": e.msg, "sig": ""}, "tier": tier, "seed": seed})
                print("VIOLATION property=%s replay=%s" % (pid, rp))
                print("  what: %s" % e.msg[:3000])
                return 1
            if isinstance(e, build.BuildError):
                print("BROKEN-TREE: %s" % e)
                return 2
            raise
        agg = _Stats()
        per_source = {}
        exhaustive = []
        srcs = [s for s in mod.sources(ctx) if only_source in (None, s.name)]
        # replay tier: reproducers of known findings (open: must still fail -> KNOWN-FINDING line;
        # fixed: must pass, else violation)
        known_lines = []
        for e in list(open_f.values()) + fixed_f:
            rp = e.get("reproducer")
            if not rp:
                continue
            rec = json.load(open(os.path.join(VERIF, rp)))
            src = [s for s in mod.sources(ctx) if s.name == rec["source"]][0]
            res = src.check(rec["case"], ctx)
            agg.evals += max(res.n, 1)
            agg.keys.update("replay:" + k for k in res.keys)
            if e["status"] == "open":
                if res.fail is not None and res.fail.get("sig") == e["signature"]:
                    known_lines.append("KNOWN-FINDING: property=%s %s" % (pid, e["what_fails"]))
                elif res.fail is not None:
                    violations.append(dict(source=src.name, case=rec["case"], fail=res.fail))
            else:
                if res.fail is not None:
                    res.fail["msg"] = "regression of fixed finding %s: %s" % (e.get("commit", "?"), res.fail.get("msg"))
                    violations.append(dict(source=src.name, case=rec["case"], fail=res.fail))
        mp = multiprocessing.get_context("fork")
        for src in srcs:
            nwork = NWORK
            if src.enum is None:
                nwork = max(1, min(NWORK, src.examples[tier]))
            args = [(mod.__name__, src.name, tier, seed, i, nwork, ctx.tmp, ctx.builds, ctx.data, ctx.known)
                    for i in range(nwork)]
            # (an executor, not multiprocessing.Pool: when a worker is killed from outside - the kernel's OOM killer - Pool.map
            # waits for ever, the executor raises)
            from concurrent.futures import ProcessPoolExecutor
            from concurrent.futures.process import BrokenProcessPool
            try:
                with ProcessPoolExecutor(nwork, mp_context=mp) as pool:
                    packs = list(pool.map(_worker, args, chunksize=1))
            except BrokenProcessPool:
                print("MACHINERY-ERROR in %s: a worker process of source %s died without reporting (killed from outside?)" % (pid, src.name))
                return 2
            ps = dict(evals=0, nontrivial=0)
            keys = set()
            for pk in packs:
                agg.evals += pk["evals"]
                ps["evals"] += pk["evals"]
                keys.update(pk["keys"])
                agg.labels.update(pk["labels"])
                agg.discards.update(pk["discards"])
                for s in pk["samples"]:
                    if len(agg.samples) < 8:
                        agg.samples.append(s)
                agg.known.update(pk["known"])
                for k, v in pk["known_msg"].items():
                    agg.known_msg.setdefault(k, v)
                agg.failures.extend(pk["failures"])
                agg.errors.extend(pk["errors"])
                agg.slow.extend(pk["slow"])
            agg.keys.update(src.name + ":" + k for k in keys)
            ps["nontrivial"] = len(keys)
            nd = collections.Counter()
            for pk in packs:
                nd.update(pk["discards"])
            ps["discards"] = sum(nd.values())
            if ps["evals"] >= 40 and ps["discards"] > 0.05 * ps["evals"]:
                # not a verdict: a reminder that cases which were generated and counted were not judged (DESIGN 11.6, lesson of batch 9)
                print("DISCARD-RATE %s source=%s: %d discards in %d evaluations (%s)" % (
                    pid, src.name, ps["discards"], ps["evals"], ", ".join("%s x%d" % kv for kv in nd.most_common(3))))
            per_source[src.name] = ps
            if src.exhaustive and not agg.failures:
                exhaustive.append(src.name)
        if agg.errors:
            print("MACHINERY-ERROR in %s:\n%s" % (pid, agg.errors[0]))
            return 2
        # confirm failures: replay 3x through the plain function
        flaky = 0
        seen = set()
        for f in agg.failures:
            k = sha([f["source"], f["case"]])
            if k in seen:
                continue
            seen.add(k)
            if len(violations) >= 8:
                # enough confirmed reproductions to report; confirming hundreds of slow failures one by one (a stage that now
                # runs into its timeout on every input) would keep a broken tree from being reported at all
                break
            src = [s for s in mod.sources(ctx) if s.name == f["source"]][0]
            ok = 0
            for _ in range(3):
                res = _filter_known(src.check(f["case"], ctx), ctx, f["case"], f["source"])
                if res.fail is not None:
                    ok += 1
            if ok == 3:
                violations.append(f)
            else:
                flaky += 1
        for sig, cnt in sorted(agg.known.items()):
            if sig.startswith("collect:"):
                print("COLLECTED %s x%d" % (sig[8:], cnt))
                continue
            line = "KNOWN-FINDING: property=%s %s" % (pid, open_f[sig]["what_fails"])
            if line not in known_lines:
                known_lines.append(line)
        for line in known_lines:
            print(line)
        vio_paths = []
        for v in violations[:5]:
            rec = dict(property=pid, source=v["source"], case=v["case"], fail=v["fail"], seed=seed, tier=tier)
            p = write_replay(pid, rec)
            vio_paths.append(p)
            print("VIOLATION property=%s replay=%s" % (pid, p))
            print("  what: %s" % str(v["fail"].get("msg", ""))[:2000])
        cov = dict(
            evaluations=agg.evals,
            distinct_nontrivial=len(agg.keys),
            rule=mod.RULE,
            samples=agg.samples[:8] or ["(none)"],
            per_source=per_source,
            labels=dict(agg.labels.most_common(400)),
            discards=dict(agg.discards),
            known_findings_seen=dict(agg.known),
            unconfirmed_failures=flaky,
            slow_cases=agg.slow[:10],
        )
        if exhaustive and only_source is None:
            cov["exhaustive_sources"] = exhaustive
        if getattr(mod, "EXHAUSTIVE_ALL", False) and not violations:
            cov["exhaustive"] = True
        extra = getattr(mod, "extra_coverage", None)
        if extra:
            cov.update(extra(ctx, agg))
        ev = dict(property_id=pid, tier=tier, seed=seed, level=mod.LEVEL, coverage=cov,
                  assumptions=list(mod.ASSUMPTIONS), wall_s=round(time.time() - t0, 2),
                  violations=len(violations))
        if only_source is None:
            _validate_evidence(ev)
            os.makedirs(os.path.join(VERIF, "evidence"), exist_ok=True)
            with open(os.path.join(VERIF, "evidence", pid + ".json"), "w") as f:
                json.dump(ev, f, indent=1, sort_keys=True, default=str)
        print("%s %s seed=%d: %d evaluations, %d distinct non-trivial, %d violation(s), %.1fs"
              % (pid, tier, seed, agg.evals, len(agg.keys), len(violations), time.time() - t0))
        return 1 if violations else 0
    finally:
        shutil.rmtree(ctx.tmp, ignore_errors=True)


def replay(mod, path):
    rec = json.load(open(path))
    ctx = Ctx(mod.ID, rec.get("tier", "quick"), rec.get("seed", 0))
    ctx.tmp = tempfile.mkdtemp(prefix="verif-%s-" % mod.ID)
    open_f, _ = load_findings(mod.ID)
    ctx.known = {}
    try:
        try:
            mod.prepare(ctx)
        except Exception as e:
            from . import build
            if isinstance(e, build.TreeViolation):
                print("VIOLATION property=%s replay=%s" % (mod.ID, path))
                print("  what: %s" % e.msg[:3000])
                return 1
            raise
        if rec["source"] == "prepare":
            print("replay passes: property=%s %s" % (mod.ID, path))
            return 0
        src = [s for s in mod.sources(ctx) if s.name == rec["source"]][0]
        res = src.check(rec["case"], ctx)
        if res.fail is not None:
            print("VIOLATION property=%s replay=%s" % (mod.ID, path))
            print("  what: %s" % str(res.fail.get("msg", ""))[:4000])
            return 1
        print("replay passes: property=%s %s" % (mod.ID, path))
        return 0
    finally:
        shutil.rmtree(ctx.tmp, ignore_errors=True)
