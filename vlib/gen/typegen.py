"""Type generator for C06/C07/C08: struct/union/array/enum definitions with every layout feature cproc supports."""
from hypothesis import strategies as st

SCALARS = ["char", "signed char", "unsigned char", "short", "unsigned short", "int", "unsigned", "long", "unsigned long",
           "long long", "unsigned long long", "float", "double", "_Bool", "void *", "int *", "long double"]
BF_BASES = ["_Bool", "char", "signed char", "unsigned char", "short", "unsigned short", "int", "unsigned", "long", "unsigned long",
            "long long", "unsigned long long"]
BITS = {"_Bool": 8, "char": 8, "signed char": 8, "unsigned char": 8, "short": 16, "unsigned short": 16, "int": 32, "unsigned": 32,
        "long": 64, "unsigned long": 64, "long long": 64, "unsigned long long": 64}
NATALIGN = {"char": 1, "signed char": 1, "unsigned char": 1, "_Bool": 1, "short": 2, "unsigned short": 2, "int": 4, "unsigned": 4,
            "float": 4, "long": 8, "unsigned long": 8, "long long": 8, "unsigned long long": 8, "double": 8, "void *": 8, "int *": 8,
            "long double": 16}


class TypeDef:
    """One generated aggregate type.

    text: C definition; name: 'struct S3'; paths: designators of all addressable (non-bit-field) members incl. nested
    and array elements; bfpaths: designators of bit-field members; flags: feature labels."""

    def __init__(self):
        self.text = ""
        self.name = ""
        self.paths = []
        self.bfpaths = []     # (path, base type, width)
        self.leafpaths = []   # (path, scalar type) of scalar non-bit-field leaves
        self.flags = set()
        self.nmembers = 0
        self.has_fam = False
        self.align_floor = 1


class Gen:
    def __init__(self, draw, allow_long_double=True, allow_alignas_member=True, allow_packed=True, allow_fam=True, allow_bf=True):
        self.draw = draw
        self.n = 0
        self.defs = []
        self.opts = dict(ld=allow_long_double, am=allow_alignas_member, pk=allow_packed, fam=allow_fam, bf=allow_bf)

    def uid(self, p):
        self.n += 1
        return "%s%d" % (p, self.n)

    def scalar(self):
        t = self.draw(st.sampled_from(SCALARS))
        if t == "long double" and not self.opts["ld"]:
            t = "double"
        return t

    def aggregate(self, depth=0, top=True):
        d = self.draw
        td = TypeDef()
        subreq = [0]    # strictest explicit alignment found in nested types
        kind = "struct" if d(st.integers(0, 4)) else "union"
        tag = self.uid("S" if kind == "struct" else "U")
        td.name = "%s %s" % (kind, tag)
        packed = kind == "struct" and self.opts["pk"] and d(st.integers(0, 9)) == 0
        n = d(st.integers(1, 7))
        members = []
        used_bf = False
        i = 0
        while i < n:
            m = "m%d" % i
            k = d(st.integers(0, 11))
            al = ""
            if self.opts["am"] and d(st.integers(0, 11)) == 0:
                al = "A"
            if k <= 3:
                t = self.scalar()
                a = self._alignas(al, NATALIGN[t])
                members.append("%s%s %s;" % (a, t, m))
                td.paths.append(m)
                td.leafpaths.append((m, t))
            elif k <= 5:
                t = self.scalar()
                dims = d(st.lists(st.sampled_from([1, 2, 3, 5, 9]), min_size=1, max_size=2))
                a = self._alignas(al, NATALIGN[t])
                members.append("%s%s %s%s;" % (a, t, m, "".join("[%d]" % x for x in dims)))
                td.paths.append(m)
                td.paths.append(m + "".join("[%d]" % (x - 1) for x in dims))
                td.leafpaths.append((m + "".join("[%d]" % (x - 1) for x in dims), t))
                td.leafpaths.append((m + "".join("[0]" for x in dims), t))
                td.flags.add("array")
            elif k <= 7 and depth < 3:
                sub = self.aggregate(depth + 1, top=False)
                subreq.append(getattr(sub, "areq", 0))
                form = d(st.sampled_from(["named", "named", "array", "anon"]))
                if sub.has_fam:
                    form = "skip"
                if form in ("named", "array"):
                    self.defs.append(sub.text + ";")
                if form == "named":
                    members.append("%s %s;" % (sub.name, m))
                    td.paths.append(m)
                    td.paths += [m + "." + p for p in sub.paths]
                    td.bfpaths += [(m + "." + p, b, w) for p, b, w in sub.bfpaths]
                    td.leafpaths += [(m + "." + p, t) for p, t in sub.leafpaths]
                elif form == "array":
                    members.append("%s %s[2];" % (sub.name, m))
                    td.paths.append(m + "[1]")
                    td.paths += ["%s[1].%s" % (m, p) for p in sub.paths]
                    td.bfpaths += [("%s[1].%s" % (m, p), b, w) for p, b, w in sub.bfpaths]
                    td.leafpaths += [("%s[1].%s" % (m, p), t) for p, t in sub.leafpaths]
                elif form == "anon":
                    # anonymous member: its members are reachable directly; rename to keep names unique
                    body = sub.text[sub.text.index("{"):sub.text.rindex("}") + 1]
                    ren = "a%d_" % self.n
                    self.n += 1
                    body2, paths2, bf2, leaf2 = _rename(body, sub, ren)
                    # an alignment specifier on the anonymous member itself (not weaker than any member's natural alignment)
                    al = "_Alignas(%d) " % d(st.sampled_from([128] if sub.areq > 64 else [64, 128])) if d(st.integers(0, 3)) == 0 else ""
                    if al:
                        td.flags.add("anonymous-alignas")
                    members.append("%s%s %s;" % (al, sub.name.split()[0], body2))
                    td.paths += paths2
                    td.bfpaths += bf2
                    td.leafpaths += leaf2
                    td.flags.add("anonymous")
                td.flags.add("nested")
                td.flags |= sub.flags
            elif k <= 9 and self.opts["bf"] and not packed:
                base = d(st.sampled_from(BF_BASES))
                w = 1 if base == "_Bool" else min(BITS[base], d(st.sampled_from([1, 2, 3, 5, 7, 8, 9, 12, 15, 16, 17, 24, 31, 32, 33, 40, 48, 63, 64])))
                form = d(st.integers(0, 9))
                if form == 0:
                    members.append("%s :0;" % base)
                    td.flags.add("bf-zero")
                elif form == 1:
                    members.append("%s :%d;" % (base, w))
                    td.flags.add("bf-unnamed")
                else:
                    members.append("%s %s:%d;" % (base, m, w))
                    td.bfpaths.append((m, base, w))
                    td.flags.add("bitfield")
                    used_bf = True
            else:
                t = d(st.sampled_from(["char", "short", "int", "long", "double", "void *"]))
                a = self._alignas(al, NATALIGN[t])
                members.append("%s%s %s;" % (a, t, m))
                td.paths.append(m)
                td.leafpaths.append((m, t))
            i += 1
        if kind == "struct" and top and self.opts["fam"] and d(st.integers(0, 12)) == 0 and td.paths:
            t = d(st.sampled_from(["char", "int", "long", "double"]))
            members.append("%s fam[];" % t)
            td.has_fam = True
            td.flags.add("flexible")
        if not td.paths and not td.bfpaths:
            members.append("int last;")
            td.paths.append("last")
            td.leafpaths.append(("last", "int"))
        attr = ""
        if packed:
            # the spellings attr.c accepts for the one attribute it implements (GNU and C23 syntax, with and without underscores)
            attr = " " + self.draw(st.sampled_from(["__attribute__((packed))", "__attribute__((packed))", "__attribute__((__packed__))", "[[gnu::packed]]", "[[__gnu__::__packed__]]",
                                                    "[[gnu::__packed__]]", "__attribute__((unused, packed))", "[[maybe_unused]] [[gnu::packed]]", "PKD", "PKD", "PKB",
                                                    "__attribute__((packed, unused))", "[[gnu::packed]] [[maybe_unused]]", "__attribute__((packed)) __attribute__((unused))",
                                                    "[[gnu::packed, deprecated(\"x\")]]", "__attribute__((__packed__, __may_alias__))"]))
            td.flags.add("packed")
        td.nmembers = len(members)
        td.text = "%s%s %s { %s }" % (kind, attr, tag, " ".join(members))
        td.flags.add(kind)
        import re
        td.areq = max([int(x) for x in re.findall(r"_Alignas\((\d+)\)", td.text)] + subreq)
        return td

    def _alignas(self, al, nat):
        if not al:
            return ""
        d = self.draw
        if d(st.integers(0, 3)) == 0:
            return "_Alignas(%s) " % d(st.sampled_from(["long", "double", "long long", "int"])) if nat <= 4 else ""
        n = d(st.sampled_from([1, 2, 4, 8, 16, 32, 64]))
        if n < nat:
            n = nat
        return "_Alignas(%d) " % n


def _rename(body, sub, ren):
    """Rename the direct member names m<i> of an anonymous aggregate so they stay unique in the enclosing type."""
    import re
    names = set()
    for p in sub.paths + [p for p, _, _ in sub.bfpaths] + [p for p, _ in sub.leafpaths]:
        h = re.split(r"[.\[]", p)[0]
        # names promoted from an inner anonymous member are already unique (a<N>_ prefix)
        if re.fullmatch(r"m\d+|last", h):
            names.add(h)
    depth = 0
    out = []
    i = 0
    # only rename identifiers at brace depth 1 (direct members)
    tokens = re.split(r"(\W)", body)
    for tk in tokens:
        if tk == "{":
            depth += 1
        elif tk == "}":
            depth -= 1
        if depth == 1 and tk in names:
            out.append(ren + tk)
        else:
            out.append(tk)
    body2 = "".join(out)

    def rn(p):
        head = re.split(r"[.\[]", p)[0]
        return ren + p if head in names else p
    return body2, [rn(p) for p in sub.paths], [(rn(p), b, w) for p, b, w in sub.bfpaths], [(rn(p), t) for p, t in sub.leafpaths]


@st.composite
def enums(draw):
    """enum definitions with values around the int/unsigned/long boundaries."""
    n = draw(st.integers(1, 6))
    fixed = draw(st.sampled_from([None, None, None, "unsigned char", "short", "int", "unsigned", "long", "unsigned long"]))
    ranges = {None: (-(1 << 63), (1 << 64) - 1), "unsigned char": (0, 255), "short": (-32768, 32767), "int": (-(1 << 31), (1 << 31) - 1),
              "unsigned": (0, (1 << 32) - 1), "long": (-(1 << 63), (1 << 63) - 1), "unsigned long": (0, (1 << 64) - 1)}
    lo, hi = ranges[fixed]
    pool = [v for v in [0, 1, -1, 127, 128, 255, 256, 32767, 32768, 65535, -32768, (1 << 31) - 1, 1 << 31, -(1 << 31), -(1 << 31) - 1,
                        (1 << 32) - 1, 1 << 32, (1 << 63) - 1, -(1 << 63), 1 << 63, (1 << 64) - 1, 5, 1000, -1000] if lo <= v <= hi]
    vals = draw(st.lists(st.sampled_from(pool), min_size=n, max_size=n))
    if fixed is None:
        # one enum cannot hold both negative values and values above LONG_MAX
        if any(v < 0 for v in vals) and any(v >= 1 << 63 for v in vals):
            vals = [v for v in vals if v < 1 << 63]
    # a fixed underlying type may be given by an earlier declaration and repeated or omitted in the definition
    fwd = draw(st.sampled_from([None, None, "repeat", "omit"])) if fixed else None
    return {"fixed": fixed, "vals": vals, "forward": fwd}
