"""Generator B (DESIGN C01 P4-P8): structured programs built UB-free by construction.

Each program is a set of independent "scenes" (a few declarations + one function) called from main in order.
Scenes only use operations that are defined for every value that can reach them: unsigned arithmetic, masked
shift counts, guarded divisions, bounded loops, in-bounds indices computed modulo the array length.  The expected
output comes from the two reference compilers (C01 discards a case if they report UB or disagree).
"""
from hypothesis import strategies as st

from .exprgen import PROLOGUE

SCALARS = ["char", "signed char", "unsigned char", "short", "unsigned short", "int", "unsigned", "long", "unsigned long",
           "long long", "unsigned long long", "float", "double", "_Bool"]
INTS = [t for t in SCALARS if t not in ("float", "double")]
UINTS = ["unsigned char", "unsigned short", "unsigned", "unsigned long", "unsigned long long"]


def chk(t, e):
    if t == "float":
        return "chk_f32(%s);" % e
    if t == "double":
        return "chk_f64(%s);" % e
    if t.startswith("unsigned") or t == "_Bool":
        return "chk_u64(%s);" % e
    return "chk_i64(%s);" % e


def small(draw, t):
    """A value that is safe to add/multiply a few times in type t."""
    if t == "_Bool":
        return str(draw(st.integers(0, 1)))
    if t in ("float", "double"):
        v = draw(st.sampled_from([0.0, 1.0, -1.0, 0.5, 2.25, -3.5, 100.0, 1e6, -1e-3, 7.0]))
        return repr(v) + ("f" if t == "float" else "")
    if t.startswith("unsigned"):
        return "%du" % draw(st.integers(0, 250))
    if t in ("char",):
        return str(draw(st.integers(0, 100)))
    return str(draw(st.integers(-100, 100)))


class Ctx:
    def __init__(self, draw):
        self.draw = draw
        self.n = 0
        self.globals = []
        self.funcs = []
        self.calls = []
        self.labels = set()
        self.uses_varargs = False
        self.packed_types = set()

    def uid(self, p="x"):
        self.n += 1
        return "%s%d" % (p, self.n)


# ---------------------------------------------------------------------------------------------- types

def gen_struct(c, depth=0, allow_bf=True, max_members=6):
    """Returns (type name, definition text, list of (access path, scalar type, array len or 0)) for leaf members."""
    d = c.draw
    name = c.uid("S")
    kind = "struct" if d(st.integers(0, 5)) else "union"
    attr = ""
    members = []
    leaves = []
    n = d(st.integers(1, max_members))
    has_bf = False
    for i in range(n):
        m = "m%d" % i
        k = d(st.integers(0, 9))
        if k <= 4:
            t = d(st.sampled_from(SCALARS))
            members.append("%s %s;" % (t, m))
            leaves.append((m, t, 0))
        elif k <= 6:
            t = d(st.sampled_from(SCALARS))
            ln = d(st.sampled_from([1, 2, 3, 5, 8, 17, 33]))
            members.append("%s %s[%d];" % (t, m, ln))
            leaves.append((m, t, ln))
        elif k == 7 and depth < 2:
            sn, sdef, sl = gen_struct(c, depth + 1, allow_bf, 4)
            c.globals.append(sdef)
            if d(st.booleans()):
                members.append("%s %s;" % (sn, m))
                leaves.extend((m + "." + p, t, ln) for p, t, ln in sl)
            else:
                members.append("%s %s[2];" % (sn, m))
                leaves.extend(("%s[1].%s" % (m, p), t, ln) for p, t, ln in sl)
        elif k == 8 and allow_bf and kind == "struct":
            t = d(st.sampled_from(["int", "unsigned", "long", "unsigned long", "unsigned char", "short", "unsigned short"]))
            w = d(st.sampled_from([1, 3, 7, 8, 9, 13, 16]))
            if t in ("unsigned char",):
                w = min(w, 8)
            if d(st.integers(0, 6)) == 0:
                members.append("%s :%d;" % (t, d(st.sampled_from([0, 2, 5]))))
            members.append("%s %s:%d;" % (t, m, w))
            leaves.append((m, "bf:%s:%d" % (t, w), 0))
            has_bf = True
        else:
            t = d(st.sampled_from(["char *", "int *", "void *"]))
            members.append("%s%s;" % (t, m))
            leaves.append((m, "ptr", 0))
    if kind == "struct" and not has_bf and d(st.integers(0, 7)) == 0:
        attr = " __attribute__((packed))"
        c.labels.add("packed")
        c.packed_types.add(name)
    # avoid(alignas-member): _Alignas on members is a recorded finding (IL type descriptions ignore it; C06/C08)
    if kind == "union":
        # a union is accessed through one member only
        leaves = leaves[:1] if leaves else leaves
    tdef = "%s%s %s { %s };" % (kind, attr, name, " ".join(members))
    c.labels.add(kind)
    return "%s %s" % (kind, name), tdef, leaves


def leaf_value(c, t, salt):
    d = c.draw
    if t == "ptr":
        return "(void *)0" if d(st.booleans()) else "(void *)&anchor[%d]" % d(st.integers(0, 7))
    if t.startswith("bf:"):
        _, bt, w = t.split(":")
        w = int(w)
        if bt.startswith("unsigned"):
            return "%du" % d(st.integers(0, (1 << w) - 1))
        return str(d(st.integers(-(1 << (w - 1)), (1 << (w - 1)) - 1)))
    return small(c.draw, t)


def dump_leaf(var, path, t, ln):
    acc = "%s.%s" % (var, path)
    if t == "ptr":
        return ["chk_i64(%s ? (char *)%s - (char *)anchor : -1);" % (acc, acc)]
    if t.startswith("bf:"):
        bt = t.split(":")[1]
        return [chk("unsigned" if bt.startswith("unsigned") else "int", acc)]
    if ln:
        return ["for (int i_ = 0; i_ < %d; i_++) %s" % (ln, chk(t, acc + "[i_]"))]
    return [chk(t, acc)]


def fill_leaf(var, path, t, ln, c, k):
    acc = "%s.%s" % (var, path)
    if ln:
        et = t
        if et in ("float", "double"):
            return ["for (int i_ = 0; i_ < %d; i_++) %s[i_] = (%s)(i_ * %d + %d) / 4;" % (ln, acc, et, k + 1, k)]
        if et == "_Bool":
            return ["for (int i_ = 0; i_ < %d; i_++) %s[i_] = (i_ + %d) & 1;" % (ln, acc, k)]
        return ["for (int i_ = 0; i_ < %d; i_++) %s[i_] = (%s)((unsigned)(i_ * %d + %d) %% 100u);" % (ln, acc, et, k + 3, k)]
    return ["%s = %s;" % (acc, leaf_value(c, t, k))]


# ---------------------------------------------------------------------------------------------- scenes

def scene_struct_copy(c):
    d = c.draw
    tn, tdef, leaves = gen_struct(c)
    c.globals.append(tdef)
    f = c.uid("copy")
    g = c.uid("gs")
    body = ["%s a, b, *p = &b;" % tn, "%s arr[3];" % tn]
    body.append("__builtin_memset(&a, 0, sizeof a);") if False else None
    body = [x for x in body if x]
    for k, (p, t, ln) in enumerate(leaves):
        body += fill_leaf("a", p, t, ln, c, k)
    how = d(st.sampled_from(["assign", "ptr", "ret", "arg", "array", "global", "cond"]))
    if how in ("ret", "arg") and c.packed_types:
        # avoid(packed-by-value): packed structs passed/returned by value are a recorded finding
        how = "assign"
    if how in ("ret", "arg") and any(t.startswith("bf:") for _, t, _ in leaves):
        # avoid(byvalue-bitfield-aggregate): recorded finding (C08): the IL type description of an aggregate that contains
        # bit-fields can have the wrong size, so such aggregates are not passed or returned by value here
        how = "assign"
        c.labels.add("avoided:byvalue-bitfield-aggregate")
    c.labels.add("copy:" + how)
    if how == "assign":
        body.append("b = a;")
    elif how == "ptr":
        body.append("*p = a;")
    elif how == "ret":
        c.funcs.append("static %s %s_id(%s v) { return v; }" % (tn, f, tn))
        body.append("b = %s_id(a);" % f)
    elif how == "arg":
        c.funcs.append("static void %s_put(%s *dst, %s v, int pad, %s w) { *dst = pad ? v : w; }" % (f, tn, tn, tn))
        body.append("%s_put(&b, a, %d, a);" % (f, d(st.integers(0, 1))))
    elif how == "array":
        body.append("arr[%d] = a; b = arr[%d];" % ((d(st.integers(0, 2)),) * 2))
    elif how == "global":
        c.globals.append("static %s %s;" % (tn, g))
        body.append("%s = a; b = %s;" % (g, g))
    else:
        body.append("b = %s ? a : a;" % d(st.sampled_from(["1", "0", "anchor[0]"])))
    for (p, t, ln) in leaves:
        body += dump_leaf("b", p, t, ln)
    body.append("chk_u64(sizeof(%s));" % tn)
    c.funcs.append("static void %s(void) {\n\t%s\n}" % (f, "\n\t".join(body)))
    c.calls.append("%s();" % f)


def scene_init(c):
    """Automatic and static initialisation in several forms."""
    d = c.draw
    tn, tdef, leaves = gen_struct(c, allow_bf=True)
    c.globals.append(tdef)
    f = c.uid("init")
    scalars = [(p, t, ln) for (p, t, ln) in leaves]
    form = d(st.sampled_from(["designated", "positional-partial", "empty", "zero", "compound", "static", "nested-override"]))
    c.labels.add("init:" + form)
    storage = "static " if form == "static" else ""
    if form in ("designated", "static", "nested-override"):
        parts = []
        order = list(scalars)
        if order and d(st.booleans()):
            order = order[::-1]
        first = None
        for k, (p, t, ln) in enumerate(order):
            if d(st.integers(0, 3)) == 0:
                continue
            if first is None:
                first = (p, t, ln)
            if ln:
                idx = d(st.integers(0, ln - 1))
                parts.append(".%s[%d] = %s" % (p, idx, small(c.draw, t)))
                if idx + 1 < ln and d(st.booleans()):
                    parts.append(small(c.draw, t))
            else:
                parts.append(".%s = %s" % (p, leaf_value(c, t, k)))
        if form == "nested-override" and parts:
            # (the value must have the type of the member that parts[0] designates, not of the first member of the order)
            parts.append(parts[0].split("=")[0] + "= " + (leaf_value(c, first[1], 0) if not first[2] else small(c.draw, first[1])))
        init = "{ %s }" % ", ".join(parts) if parts else "{ 0 }"
    elif form == "positional-partial":
        init = "{ 0 }"
    elif form == "empty":
        init = "{}"
    elif form == "zero":
        init = "{ 0 }"
    else:
        init = None
    body = []
    if form == "compound":
        parts = [".%s = %s" % (p, leaf_value(c, t, 1)) for (p, t, ln) in scalars if not ln][:3]
        body.append("%s v = (%s){ %s };" % (tn, tn, ", ".join(parts) or "0"))
    else:
        body.append("%s%s v = %s;" % (storage, tn, init))
    for (p, t, ln) in leaves:
        body += dump_leaf("v", p, t, ln)
    # arrays with designators and strings
    ln = d(st.sampled_from([4, 7, 16]))
    body.append("int ia[%d] = { [%d] = %d, %d, [0] = %d };" % (ln, ln - 2, d(st.integers(-9, 9)), d(st.integers(-9, 9)), d(st.integers(-9, 9))))
    body.append("for (int i_ = 0; i_ < %d; i_++) chk_i64(ia[i_]);" % ln)
    s = d(st.sampled_from(["abc", "", "hello world", "x\\0y", "\\377\\1"]))
    body.append("char sa[%d] = \"%s\"; chk_bytes(sa, sizeof sa);" % (d(st.sampled_from([12, 16])), s))
    body.append("char sb[] = \"%s\"; chk_u64(sizeof sb); chk_bytes(sb, sizeof sb);" % s)
    body.append("unsigned ua[] = { 1, 2, [5] = 6 }; chk_u64(sizeof ua / sizeof ua[0]);")
    c.funcs.append("static void %s(void) {\n\t%s\n}" % (f, "\n\t".join(body)))
    c.calls.append("%s();" % f)
    if d(st.booleans()):
        c.calls.append("%s();" % f)   # second call: static objects keep state, automatic ones are re-initialised


def scene_control(c):
    d = c.draw
    f = c.uid("ctl")
    n1, n2 = d(st.integers(1, 6)), d(st.integers(1, 6))
    br, ct = d(st.integers(0, 7)), d(st.integers(0, 7))
    loop = d(st.sampled_from(["for", "while", "do"]))
    c.labels.add("loop:" + loop)
    # case labels in the order drawn (not sorted: the order decides the shape of the compiler's case tree), up to 12 of them
    cases = d(st.lists(st.integers(-3, 14), min_size=1, max_size=12, unique=True))
    swt = d(st.sampled_from(["int", "unsigned char", "long", "unsigned long", "short", "enum e1"]))
    body = ["unsigned acc = %du; %s i = 0; int j;" % (d(st.integers(0, 99)), "int")]
    inner = ["for (j = 0; j < %d; j++) {" % n2,
             "\tif (j == %d) continue;" % ct,
             "\tif (i + j == %d) break;" % br,
             "\tswitch ((%s)(i * 3 + j - 2)) {" % ("int" if swt == "enum e1" else swt)]
    for k, cv in enumerate(cases):
        if swt.startswith("unsigned") and cv < 0:
            continue
        inner.append("\tcase %d: acc = acc * 31u + %du;%s" % (cv, k, "" if d(st.integers(0, 3)) == 0 else " break;"))
    if d(st.booleans()):
        inner.append("\tdefault: acc ^= 0x55u; %s" % d(st.sampled_from(["break;", "continue;", ""])))
    inner.append("\t}")
    inner.append("\tchk_tag(acc & 0xffff);")
    inner.append("}")
    if loop == "for":
        body.append("for (i = 0; i < %d; i++) {" % n1)
        body += ["\t" + x for x in inner]
        body.append("}")
    elif loop == "while":
        body.append("while (i < %d) {" % n1)
        body += ["\t" + x for x in inner]
        body.append("\ti++;")
        body.append("}")
    else:
        body.append("do {")
        body += ["\t" + x for x in inner]
        body.append("} while (++i < %d);" % n1)
    # goto forward/backward and short-circuit with side effects
    # labels whose names come from a macro (every use hands the compiler the same spelling object)
    c.globals.append("#define LBL_%s fin_%s" % (f, f))
    body.append("for (j = 0; j < 3; j++) { if (j == 1) goto LBL_%s; if (j == 5) goto LBL_%s; acc += 3u; } LBL_%s: acc += (unsigned)j;" % (f, f, f))
    body.append("j = 0;")
    body.append("again: j++; if (j < %d) goto again; if (j == %d) goto out; acc += 7u; out: chk_u64(acc + j);" % (d(st.integers(1, 5)), d(st.integers(1, 5))))
    body.append("{ int a = %d, b = %d, r; r = (a++ > 0) && (b++ > 0); chk_i64(a * 100 + b * 10 + r); r = (a-- > 3) || (b-- > 0); chk_i64(a * 100 + b * 10 + r);"
                " r = a > b ? (a += 5, a) : (b += 7, b); chk_i64(r + a + b); }" % (d(st.integers(-2, 4)), d(st.integers(-2, 4))))
    # operands with side effects next to a constant that decides the result, in the places the compiler tries to fold: the first
    # operand of ?:, an array length, an equality with a pointer
    body.append("{ int n1 = %d, n2 = %d, n3 = 1; int r1 = (n1++ || 1) ? 10 : 20; int r2 = (n2++ && 0) ? 30 : 40; char va[(n3++ || 1) + 2]; int r3 = (--n1 && 0) ? 1 : (n2-- || 1) ? 2 : 3;"
                " int *pz = ((n3 += 2) && 0) ? &n1 : 0; chk_i64(n1 * 10000 + n2 * 100 + n3); chk_i64(r1 + r2 + r3); chk_u64(sizeof va); chk_i64(pz == 0); chk_i64((0 && n1++) + (1 || n2++) + n1 + n2); }"
                % (d(st.integers(-2, 2)), d(st.integers(-2, 2))))
    c.funcs.append("static void %s(void) {\n\t%s\n}" % (f, "\n\t".join(body)))
    c.calls.append("%s();" % f)


def scene_calls(c):
    d = c.draw
    f = c.uid("call")
    n = d(st.integers(1, 10))
    ptypes = [d(st.sampled_from(SCALARS)) for _ in range(n)]
    rt = d(st.sampled_from(["int", "unsigned", "long", "unsigned long", "double", "float", "short", "unsigned char", "_Bool", "void"]))
    params = ", ".join("%s p%d" % (t, i) for i, t in enumerate(ptypes))
    body = [chk(t, "p%d" % i) for i, t in enumerate(ptypes)]
    # (a negative floating value converted to an unsigned type is undefined: go through long)
    ret = "" if rt == "void" else "return (%s)%s;" % (rt, ("(long)p0" if ptypes[0] in ("float", "double") and rt.startswith("unsigned") else "p0") if ptypes[0] != "_Bool" else "1")
    c.funcs.append("static %s %s_callee(%s) {\n\t%s\n\t%s\n}" % (rt, f, params, "\n\t".join(body), ret))
    args = ", ".join(small(c.draw, t) for t in ptypes)
    caller = []
    how = d(st.integers(0, 5))
    if how <= 1:
        caller.append("%s (*fp)(%s) = %s_callee;" % (rt, ", ".join(ptypes), f))
        callee = d(st.sampled_from(["fp", "(*fp)", "(**fp)"]))
        c.labels.add("funcptr")
    elif how == 2:
        # the callee expression itself contains a call with arguments of several classes
        c.funcs.append("static %s (*%s_sel(int a, long b, double x))(%s) { chk_i64(a); chk_i64(b); chk_f64(x); return a ? %s_callee : 0; }"
                       % (rt, f, ", ".join(ptypes), f))
        callee = "%s_sel(%d, anchor[%d], %s)" % (f, d(st.integers(1, 9)), d(st.integers(0, 7)), d(st.sampled_from(["1.5", "(double)anchor[2]", "-0.25"])))
        c.labels.add("callee-expression-with-call")
    elif how == 3:
        c.funcs.append("static int %s_idx(int a, void *p) { chk_i64(a); return a + (p == 0); }" % f)
        caller.append("%s (*tab[3])(%s) = { 0, %s_callee, 0 };" % (rt, ", ".join(ptypes), f))
        callee = "tab[%s_idx(1, anchor)]" % f
        c.labels.add("callee-expression-with-call")
    else:
        callee = "%s_callee" % f
    if rt == "void":
        caller.append("%s(%s);" % (callee, args))
    else:
        caller.append(chk(rt, "%s(%s)" % (callee, args)))
    # recursion
    caller.append("chk_u64(%s_rec(%d, 1u));" % (f, d(st.integers(0, 12))))
    c.funcs.append("static unsigned %s_rec(int n, unsigned a) { return n <= 0 ? a : %s_rec(n - 1, a * 3u + (unsigned)n); }" % (f, f))
    if d(st.integers(0, 2)) == 0:
        # variadic: promoted arguments of several classes, enough to spill registers
        k = d(st.integers(0, 14))
        kinds = [d(st.sampled_from("ildp")) for _ in range(k)]
        c.uses_varargs = True
        c.labels.add("variadic")
        va = ["__builtin_va_list ap;", "__builtin_va_start(ap, fmt);", "for (; *fmt; fmt++) {", "\tswitch (*fmt) {",
              "\tcase 'i': chk_i64(__builtin_va_arg(ap, int)); break;", "\tcase 'l': chk_i64(__builtin_va_arg(ap, long)); break;",
              "\tcase 'd': chk_f64(__builtin_va_arg(ap, double)); break;",
              "\tcase 'p': chk_i64((char *)__builtin_va_arg(ap, void *) - (char *)anchor); break;", "\t}", "}", "__builtin_va_end(ap);"]
        c.funcs.append("static void %s_va(const char *fmt, ...) {\n\t%s\n}" % (f, "\n\t".join(va)))
        vargs = []
        for kk in kinds:
            if kk == "i":
                vargs.append(d(st.sampled_from(["%d" % d(st.integers(-99, 99)), "(short)%d" % d(st.integers(-9, 9)), "(char)%d" % d(st.integers(0, 99)), "(_Bool)1",
                                                "(short)(anchor[2] * 30000)", "(unsigned char)(anchor[3] * 100)", "(signed char)(anchor[2] * 50)",
                                                "(unsigned short)(anchor[4] * 20000)", "(_Bool)anchor[5]"])))
            elif kk == "l":
                vargs.append("%dl" % d(st.integers(-10 ** 12, 10 ** 12)))
            elif kk == "d":
                vargs.append(d(st.sampled_from(["1.5", "-2.25", "3.0f", "(float)0.5", "1e100", "(float)anchor[2] / 4"])))
            else:
                vargs.append("(void *)&anchor[%d]" % d(st.integers(0, 7)))
        caller.append("%s_va(\"%s\"%s);" % (f, "".join(kinds), "".join(", " + a for a in vargs)))
    c.funcs.append("static void %s(void) {\n\t%s\n}" % (f, "\n\t".join(caller)))
    c.calls.append("%s();" % f)


def scene_vla(c):
    d = c.draw
    f = c.uid("vla")
    et = d(st.sampled_from(["int", "long", "char", "double", "short"]))
    # avoid(vla-element-size): subscripting/arithmetic on pointers whose element type is a VLA is a recorded finding,
    # so only one-dimensional VLAs (and pointers to them that are not stepped) are generated
    body = ["%s a[n * m];" % et, "unsigned s = 0;",
            "for (int i = 0; i < n; i++) for (int j = 0; j < m; j++) a[i * m + j] = (%s)(i * 10 + j);" % et,
            "for (int i = 0; i < n * m; i++) s = s * 7u + (unsigned)a[i];",
            "chk_u64(s); chk_u64(sizeof a); chk_u64(sizeof a[0]); chk_u64(sizeof(%s[n + 1]));" % et,
            "%s (*p)[n * m] = &a; chk_i64((char *)*p - (char *)a); chk_u64(sizeof *p); chk_i64((*p)[n * m - 1] == a[n * m - 1]);" % et,
            "chk_i64(&a[n * m - 1] - &a[0]);"]
    if d(st.booleans()):
        # a typedef of a VLA type fixes its length where it is declared; its first uses sit in sibling branches
        body += ["{ typedef %s TV[n + 1]; n += 2;" % et, "  if (m & 1) { TV v; v[n - 2] = 1; chk_u64(sizeof v); chk_i64((long)v[n - 2]); } else { TV w; w[0] = 2; chk_u64(sizeof w + 1); }",
                 "  chk_u64(sizeof(TV)); for (int i = 0; i < 2; i++) { TV z; z[n - 2] = (%s)i; chk_u64(sizeof z + (unsigned)z[n - 2]); } n -= 2; }" % et]
        c.labels.add("vla-typedef")
    if d(st.booleans()):
        body += ["char *q = __builtin_alloca(n * 8 + 1);", "for (int i = 0; i < n * 8 + 1; i++) q[i] = (char)i;", "chk_i64(q[n * 8] + q[0]);"]
        c.labels.add("alloca")
    if d(st.booleans()):
        al = d(st.sampled_from([16, 32, 64]))
        body += ["_Alignas(%d) char big[%d];" % (al, d(st.sampled_from([1, 3, 64]))), "big[0] = 1;", "chk_u64(((unsigned long)big %% %du) + big[0]);" % al]
        c.labels.add("overaligned")
    c.funcs.append("static void %s(int n, int m) {\n\t%s\n}" % (f, "\n\t".join(body)))
    c.calls.append("%s(%d, %d);" % (f, d(st.integers(1, 5)), d(st.integers(1, 6))))
    c.labels.add("vla")


def scene_aligned_copy(c):
    """Whole-object copies of aggregates whose alignment exceeds the widest load/store (assignment, through pointers, array
    elements, conditional operator); no by-value calls (avoid(alignas-member): the IL type descriptors are a recorded finding)."""
    d = c.draw
    f = c.uid("alc")
    al = d(st.sampled_from([16, 16, 32, 64]))
    mems = ["_Alignas(%d) %s a0;" % (al, d(st.sampled_from(["long", "char", "int", "double"])))]
    for i in range(1, d(st.integers(2, 6))):
        mems.append("%s%s a%d%s;" % ("_Alignas(%d) " % al if d(st.integers(0, 4)) == 0 else "", d(st.sampled_from(["long", "char", "int", "double", "short"])), i,
                                     "[%d]" % d(st.integers(1, 5)) if d(st.integers(0, 2)) == 0 else ""))
    n = len(mems)
    kind = d(st.sampled_from(["struct", "struct", "union"]))
    body = ["%s %s_t x, y, z[2], *p = &z[1];" % (kind, f),
            "for (unsigned i = 0; i < sizeof x; i++) ((unsigned char *)&x)[i] = (unsigned char)(i * 7 + 3);",
            "__builtin_memset_free: ;"[:0] + "for (unsigned i = 0; i < sizeof y; i++) { ((unsigned char *)&y)[i] = 0x55; ((unsigned char *)z)[i] = 0x66; ((unsigned char *)z)[i + sizeof y] = 0x77; }",
            "y = x; chk_bytes(&y, sizeof y);", "*p = y; chk_bytes(z, sizeof z);", "z[0] = *p; chk_bytes(z, sizeof z);",
            "x.a0 = 0; y = n ? x : z[1]; chk_bytes(&y, sizeof y); y = (z[0], x); chk_bytes(&y, sizeof y);",
            "{ %s %s_t w = *p, v = { 0 }; chk_bytes(&w, sizeof w); v = w; chk_bytes(&v, sizeof v); }" % (kind, f),
            "chk_u64(sizeof x); chk_u64(_Alignof(%s %s_t)); chk_u64((unsigned long)&x %% %du);" % (kind, f, al)]
    c.funcs.append("%s %s_t { %s };\nstatic void %s(int n) {\n\t%s\n}" % (kind, f, " ".join(mems), f, "\n\t".join(b for b in body if b)))
    c.calls.append("%s(%d);" % (f, d(st.integers(0, 1))))
    c.labels.add("overaligned-copy")


def scene_anon(c):
    """Members of anonymous structs and unions are members of the enclosing type; members declared after an anonymous
    member (at any depth, also inside further anonymous members) keep their own offsets."""
    d = c.draw
    f = c.uid("anon")
    ty = ["int", "long", "char", "short", "double", "unsigned char"]
    k = [0]

    def mem():
        k[0] += 1
        return "%s m%d;" % (d(st.sampled_from(ty)), k[0])

    def agg(depth):
        parts = []
        for _ in range(d(st.integers(1, 4))):
            if depth < 2 and d(st.integers(0, 2)) == 0:
                parts.append("%s { %s };" % (d(st.sampled_from(["struct", "struct", "union"])), agg(depth + 1)))
            else:
                parts.append(mem())
        return " ".join(parts)
    body_t = "%s struct { %s }; %s union { %s }; %s" % (mem(), agg(1), mem(), agg(1), mem())
    n = k[0]
    # union members overlap: write and read back one member at a time for those; struct members keep independent values
    lines = ["struct %s_t s = { 0 }, *p = &s;" % f]
    for i in range(1, n + 1):
        lines.append("%s.m%d = (%d); chk_i64((long)%s.m%d); chk_i64((char *)&%s.m%d - (char *)&s); chk_u64(__builtin_offsetof(struct %s_t, m%d));"
                     % ("s" if i % 2 else "(*p)", i, i * 3 + 1, "p[0]" if i % 3 == 0 else "s", i, "s" if i % 2 == 0 else "p[0]", i, f, i))
    lines.append("chk_u64(sizeof s);")
    lines.append(FUNCNAME_CHECK)
    c.funcs.append("struct %s_t { %s };\nstatic void %s(void) {\n\t%s\n}" % (f, body_t, f, "\n\t".join(lines)))
    c.calls.append("%s();" % f)
    c.labels.add("anonymous-members")


# the predefined identifier is an array of the function's name with its terminator (6.4.2.2): size, contents, last element
FUNCNAME_CHECK = "chk_u64(sizeof __func__); chk_str(__func__); chk_i64(__func__[sizeof __func__ - 1]); { char fn_[sizeof __func__]; chk_u64(sizeof fn_); }"
SS_DECLS = ["sizeof(enum { %(n)s = %(v)d })", "(int)(enum { %(n)s = %(v)d })%(v)d", "_Alignof(enum { %(n)s = %(v)d }) * %(v)d / _Alignof(int)",
            "sizeof(struct %(t)s { char c[%(v)d]; })", "sizeof *(struct %(t)s { char c[%(v)d]; } *)0", "sizeof (struct %(t)s { char c[%(v)d]; }){ { 0 } }",
            "sizeof(union %(t)s { char c[%(v)d]; int i; })", "sizeof(typeof(enum { %(n)s = %(v)d }))"]
# {D}: an expression whose type name declares an enumeration constant or a tag spelled like an outer one; {U}: a use of the name.
# Selection and iteration statements and their substatements are blocks (6.8.4p3, 6.8.5p5): nothing they declare outlives them.
SS_SHAPES = ["do k++; while (k < (int)({D}) && k < 6);", "do {{ k++; }} while (({D}), k < 3);", "do k += (int)({D}) > 0; while (k < {U});",
             "while (k < (int)({D}) && k < 5) k++;", "for (; k < (int)({D}) && k < 7; k++) ;", "if ((int)({D}) > k) k += 2; else k += 3;",
             "switch ((int)({D}) > 2) {{ case 1: k += 4; break; default: k += 5; }}", "for (k = (int)({D}) > 0; k < 4; k++) ;",
             "do do k++; while (k < (int)({D}) && k < 4); while (k < {U});", "for (;; k += (int)({D}) > 0) {{ if (k >= 5) break; }}",
             "if (k) ; else k += (int)({D}) > 1;", "do k++; while (k < 2 + 0 * (int)({D}));"]


def scene_stmt_scope(c):
    """Names declared by a type name inside a controlling expression or a substatement go out of scope with the statement; the outer
    declaration of the same spelling is visible again afterwards (and inside the part of the statement that precedes the declaration)."""
    d = c.draw
    f = c.uid("ssc")
    outer_file = d(st.booleans())
    lines = ["int k = 0;"]
    ov = d(st.integers(1, 9))
    decls = "enum { %s_N = %d }; struct %s_t { char c[%d]; }; union %s_t2 { char c[%d]; };" % (f, ov, f, ov, f, ov)
    if not outer_file:
        lines.append(decls)
    for _ in range(d(st.integers(1, 4))):
        dec = d(st.sampled_from(SS_DECLS))
        v = d(st.integers(2, 40))
        tag = f + ("_t2" if "union" in dec else "_t")
        dtxt = dec % {"n": f + "_N", "t": tag, "v": v}
        use = "%s_N" % f if "enum" in dec else "(int)sizeof(%s %s)" % ("union" if "union" in dec else "struct", tag)
        sh = d(st.sampled_from(SS_SHAPES)).replace("{D}", dtxt).replace("{U}", use).replace("{{", "{").replace("}}", "}")
        if d(st.integers(0, 3)) == 0:
            sh = "{ %s chk_i64(%s); }" % (sh, use)
        lines.append("k = 0; " + sh)
        lines.append("chk_i64(k); chk_i64(%s);" % use)
        if d(st.integers(0, 2)) == 0:
            # the tag or constant can be declared afresh in the enclosing block only if the statement did not leak its own
            lines.append("{ %s; chk_i64(%s); }" % (("enum { %s_N = %d }" % (f, v + 1)) if "enum" in dec else "%s %s { char c[%d]; }" % ("union" if "union" in dec else "struct", tag, v + 1), use))
    lines.append(FUNCNAME_CHECK)
    c.funcs.append("%s\nstatic void %s(void) {\n\t%s\n}" % (decls if outer_file else "", f, "\n\t".join(lines)))
    c.calls.append("%s();" % f)
    c.labels.add("statement-scope-declarations")


def scene_alloca(c):
    """Blocks from alloca live until the function returns: a call site executed several times (loop, backward goto) hands
    out a fresh block each time, whatever the form of the size expression."""
    d = c.draw
    f = c.uid("alc")
    sizes = ["sizeof *p", "sizeof(struct %s_nd)" % f, "16UL", "16", "(unsigned long)16", "n * 0 + 16", "sizeof(struct %s_nd) + 0" % f, "%s_SZ" % f, "sizeof(long[2])", "32ul", "n + 16"]
    s1, s2 = d(st.sampled_from(sizes)), d(st.sampled_from([x for x in sizes if "*p" not in x]))
    body = ["struct %s_nd *head = 0;" % f,
            "for (int i = 0; i < n; i++) {", "\tstruct %s_nd *p = __builtin_alloca(%s);" % (f, s1), "\tp->val = i * 7 + 1; p->next = head; head = p;"]
    if d(st.booleans()):
        body.append("\t{ int v[i + 1]; v[i] = i; chk_i64(v[i]); }")
    body += ["}", "long s = 0; int cnt = 0;",
             "for (struct %s_nd *p = head; p && cnt < 100; p = p->next, cnt++) s = s * 3 + p->val;" % f, "chk_i64(s); chk_i64(cnt);",
             "int k = 0; char *ptrs[4];", "again:", "ptrs[k] = __builtin_alloca(%s); ptrs[k][0] = (char)(k + 1); ptrs[k][15] = (char)(k + 2);" % s2,
             "if (++k < 4) goto again;",
             "chk_i64(ptrs[0][0] + ptrs[1][0] * 2 + ptrs[2][0] * 4 + ptrs[3][0] * 8 + ptrs[0][15] * 16); chk_i64(ptrs[0] != ptrs[1]); chk_i64(ptrs[2] != ptrs[3]);",
             "chk_u64((unsigned long)ptrs[1] % 16u);"]
    c.funcs.append("struct %s_nd { struct %s_nd *next; long val; }; enum { %s_SZ = 16 };\nstatic void %s(int n) {\n\t%s\n}" % (f, f, f, f, "\n\t".join(body)))
    c.calls.append("%s(%d);" % (f, d(st.integers(1, 6))))
    c.labels.add("alloca-in-loop")


def scene_pointers(c):
    d = c.draw
    f = c.uid("ptr")
    et = d(st.sampled_from(["int", "long", "short", "unsigned char", "double", "struct pt"]))
    ln = d(st.integers(2, 9))
    i1, i2 = d(st.integers(0, ln - 1)), d(st.integers(0, ln - 1))
    body = ["%s a[%d]; %s *p = a, *q = &a[%d], **pp = &p;" % (et, ln, et, i2)]
    if et == "struct pt":
        body.append("for (int i = 0; i < %d; i++) { a[i].x = i; a[i].y = i * 2.5; }" % ln)
        val = lambda e: "(%s).x" % e
    else:
        body.append("for (int i = 0; i < %d; i++) a[i] = (%s)(i * 3 + 1);" % (ln, et))
        val = lambda e: e
    body += ["p += %d;" % i1, "chk_i64(q - p); chk_i64(p - a); chk_i64(p < q); chk_i64(p == q); chk_i64(p >= a);",
             chk("long", "(long)" + val("*p")), chk("long", "(long)" + val("%d[a]" % i2)), chk("long", "(long)" + val("(*pp)[0]")),
             "p = a; chk_i64((long)%s); chk_i64(p - a);" % val("*p++"),
             "chk_i64((long)%s); chk_i64(p - a);" % val("*--p"),
             "chk_i64((char *)(p + 1) - (char *)p);",
             "{ void *v = q; %s *r = v; chk_i64(r == q); chk_i64(!v); chk_i64(v && 1); }" % et,
             # pointer plus a run-time index minus a constant, in the positions where the compiler tries to fold (equality operands,
             # the first operand of ?:)
             "{ int k1 = %d, k2 = %d; chk_i64(q == a + k1 - 1); chk_i64(a + k2 - 1 != q); chk_i64((a + k1 - 1) ? 1 : 2); chk_i64(&a[k2] - 2 == a + k2 - 2); chk_i64(q == &p[k1] - 1); chk_i64((p + k1 - 1 == a + k1 - 1) ? k1 : k2); }" % (i2 + 1, max(2, min(i1 + 2, ln))),
             # an integer of every width and signedness subtracted from and added to a pointer
             "{ unsigned u1 = %d; unsigned char c1 = 1; unsigned short s1 = 1; unsigned long l1 = 1; long long ll1 = -1; chk_i64((a + %d) - u1 - a); chk_i64(&a[%d] - 1u - a);"
             " chk_i64((a + %d) - c1 - s1 - a); chk_i64(&a[%d] - l1 - a); chk_i64((a + 1) + ll1 - a); chk_i64((a + u1) - a); chk_i64(q - 0u - a); }" % (min(i1, 1), ln - 1, ln - 1, ln, ln - 1),
             # equality with the operands in every order: null pointer constant first, void pointer first, const-qualified side
             "{ void *v = q; const void *cv = p; %s *z0 = 0; chk_i64(0 == q); chk_i64(0 != z0); chk_i64((void *)0 == z0); chk_i64((void *)0 != q); chk_i64(v == q); chk_i64(q == v);"
             " chk_i64(v != p); chk_i64(cv == p); chk_i64(p != cv); chk_i64(cv == v); chk_i64(0 == v); chk_i64(z0 == (void *)0); }" % et,
             "{ unsigned char *b = (unsigned char *)&anchor[1]; chk_u64(b[0] + 256u * b[1]); }"]
    if et in ("int", "long", "short"):
        body += ["*p += %d; p[%d] -= 2; (*p)++; --*p; chk_i64(*p); chk_i64(a[%d]);" % (d(st.integers(-5, 5)), ln - 1, ln - 1),
                 "%s *z = 0; chk_i64(z == 0); chk_i64(z ? 1 : 2);" % et]
    c.funcs.append("static void %s(void) {\n\t%s\n}" % (f, "\n\t".join(body)))
    c.calls.append("%s();" % f)
    c.labels.add("pointers")


def scene_statics(c):
    d = c.draw
    f = c.uid("stat")
    t = d(st.sampled_from(["int", "unsigned long", "double", "short"]))
    tl = "_Thread_local " if d(st.booleans()) else ""
    c.globals.append("%sstatic %s %s_g = %s;" % (tl, t, f, small(c.draw, t)))
    body = ["static %s cnt = %s;" % (t, small(c.draw, t)), "cnt += 1; %s_g += cnt;" % f, chk(t, "cnt"), chk(t, "%s_g" % f),
            "{ static const char *names[] = { \"zero\", \"one\", \"two\" }; chk_str(names[(unsigned)cnt % 3u]); }" if t in ("int", "unsigned long", "short") else "",
            "{ int *cl = (int[]){ %d, %d, %d }; cl[1] += 1; chk_i64(cl[0] + cl[1] * 10 + cl[2] * 100); }" % tuple(d(st.integers(0, 9)) for _ in range(3)),
            "chk_str(__func__); chk_i64(\"abcdef\"[%d]); chk_u64(sizeof \"abc\");" % d(st.integers(0, 6))]
    c.funcs.append("static void %s(void) {\n\t%s\n}" % (f, "\n\t".join(x for x in body if x)))
    for _ in range(d(st.integers(1, 3))):
        c.calls.append("%s();" % f)
    c.labels.add("static-local")
    if tl:
        c.labels.add("thread-local")


def scene_arith_loop(c):
    """Unsigned/guarded arithmetic on every width inside loops (mul/div/rem/shift with run-time operands)."""
    d = c.draw
    f = c.uid("ar")
    t = d(st.sampled_from(UINTS + ["int", "long"]))
    bits = {"unsigned char": 8, "unsigned short": 16, "unsigned": 32, "unsigned long": 64, "unsigned long long": 64, "int": 32, "long": 64}[t]
    body = ["%s x = (%s)seed, y = (%s)(seed2 | 1);" % (t, t, t), "for (int i = 0; i < %d; i++) {" % d(st.integers(1, 8))]
    if t.startswith("unsigned"):
        ops = ["x = x * 3u + y;", "x ^= x >> (i & %d);" % (bits - 1 if bits < 32 else 31), "x = x / y + x % y;", "y = (%s)(y + 2u);" % t,
               "x <<= (y & 7u);", "x = ~x & (%s)-1;" % t, "x -= y;", "x = (x > y) ? x - y : y - x;", "x |= (%s)1 << (i %% %d);" % (t, min(bits, 31))]
    else:
        ops = ["x = x % 1000 + y % 100;", "x = (x / (y % 10 + 1)) * 2;", "x = -x;", "x = x >> 1;", "x = (x & 0xff) << (i & 3);", "y = y % 50 + 1;", "x = x < y ? y - 1 : x - 1;"]
    for _ in range(d(st.integers(2, 6))):
        body.append("\t" + d(st.sampled_from(ops)))
    body += ["\t" + chk(t, "x"), "}", chk(t, "y")]
    c.funcs.append("static void %s(long seed, long seed2) {\n\t%s\n}" % (f, "\n\t".join(body)))
    c.calls.append("%s(%d, %d);" % (f, d(st.integers(0, 10 ** 6)), d(st.integers(0, 1000))))
    c.labels.add("arith-loop")


def scene_float(c):
    d = c.draw
    f = c.uid("fl")
    t = d(st.sampled_from(["float", "double"]))
    body = ["%s a = (%s)x, b = (%s)y, r;" % (t, t, t), "r = a * b + a / (b + 3) - b;", chk(t, "r"),
            "chk_i64(a < b); chk_i64(a == b); chk_i64(a != a); chk_i64(!a); chk_i64(a && b);",
            "chk_i64((long)(a * 100)); chk_u64((unsigned)(b < 0 ? -b : b)); " + chk(t, "-a") + " " + chk("double", "(double)a + 1"),
            "{ int k = %d; %s s = 0; while (k--) s += (%s)k / 8; %s }" % (d(st.integers(0, 9)), t, t, chk(t, "s")),
            "{ float ff = (float)x; double dd = ff; chk_f64(dd); chk_f32((float)(dd * 0.1)); }"]
    c.funcs.append("static void %s(double x, double y) {\n\t%s\n}" % (f, "\n\t".join(body)))
    c.calls.append("%s(%s, %s);" % (f, d(st.sampled_from(["0.0", "1.5", "-7.25", "1e6", "0.1", "3"])), d(st.sampled_from(["2.0", "-0.5", "100", "1e-3", "7"]))))
    c.labels.add("float-scene")


SCENES = [scene_struct_copy, scene_struct_copy, scene_init, scene_init, scene_control, scene_calls, scene_calls,
          scene_vla, scene_pointers, scene_statics, scene_arith_loop, scene_float, scene_alloca, scene_anon, scene_aligned_copy, scene_stmt_scope]


@st.composite
def programs(draw, max_scenes=5):
    c = Ctx(draw)
    c.globals.append("static long anchor[8] = { 0x0102, 0x0304, 3, 4, 5, 6, 7, 8 };")
    c.globals.append("struct pt { int x; double y; };")
    c.globals.append("enum e1 { E1A, E1B = 5, E1C };")
    n = draw(st.integers(1, max_scenes))
    for _ in range(n):
        draw(st.sampled_from(SCENES))(c)
    src = PROLOGUE + "\n".join(c.globals) + "\n" + "\n".join(c.funcs) + "\nint main(void) {\n\t" + "\n\t".join(c.calls) + \
        "\n\treturn %d;\n}\n" % draw(st.integers(0, 3))
    return {"src": src, "labels": sorted(c.labels), "profile": "B", "varargs": c.uses_varargs}


def strategy(ctx):
    @st.composite
    def s(draw):
        c = draw(programs(max_scenes=4 if ctx.tier == "quick" else 8))
        t = draw(st.integers(0, 2))
        if c["varargs"] and t == 2:
            t = draw(st.integers(0, 1))
        c["t"] = t
        c["std"] = "gnu11"
        return c
    return s()
