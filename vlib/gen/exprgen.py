"""Generator A (DESIGN C01 P1-P3): straight-line programs of typed expressions over objects with known values.

Every operand value lives in an initialised object (so nothing is folded by the compiler under test); the
expected output of every observation is computed by vlib.cmodel while generating, and an operator application
whose behaviour would be undefined is replaced by another draw (construction, not rejection).
"""
import math
import struct

from hypothesis import strategies as st

from .. import cmodel as cm

PROLOGUE = ("void chk_i64(long long);\nvoid chk_u64(unsigned long long);\nvoid chk_f64(double);\nvoid chk_f32(float);\n"
            "void chk_bytes(const void *, unsigned long);\nvoid chk_str(const char *);\nvoid chk_tag(long long);\n")

ARITH = ["+", "-", "*", "/", "%"]
BITS = ["&", "|", "^", "<<", ">>"]
CMP = ["<", ">", "<=", ">=", "==", "!="]
LOGIC = ["&&", "||"]
ALLBIN = ARITH + BITS + CMP + LOGIC
UNARY = ["-", "+", "~", "!"]


def fmt_expected(v, t):
    """The line rt.c prints for value v of (promoted or not) type t passed to the matching chk_ function."""
    if t.kind == "float":
        if t is cm.FLOAT:
            if math.isnan(v):
                return "f nan"
            b = struct.unpack("<I", struct.pack("<f", v))[0]
            return "f %08x %s" % (b, cfmt_g(v, 9))
        if math.isnan(v):
            return "d nan"
        b = struct.unpack("<Q", struct.pack("<d", v))[0]
        return "d %016x %s" % (b, cfmt_g(v, 17))
    if t.signed:
        return "i %d" % v
    return "u %d" % v


def cfmt_g(v, prec):
    if math.isinf(v):
        return "-inf" if v < 0 else "inf"
    return "%.*g" % (prec, v)


def chk_for(t):
    if t is cm.FLOAT:
        return "chk_f32"
    if t is cm.DOUBLE:
        return "chk_f64"
    return "chk_i64" if t.signed else "chk_u64"


class Var:
    __slots__ = ("name", "type", "value", "bf", "text")

    def __init__(self, name, type_, value, bf=None, text=None):
        self.name, self.type, self.value, self.bf, self.text = name, type_, value, bf, text or name


class Node:
    __slots__ = ("text", "value", "type", "bf")

    def __init__(self, text, value, type_, bf=None):
        self.text, self.value, self.type, self.bf = text, value, type_, bf


def _types(char_signed):
    return cm.int_types(char_signed) + [cm.FLOAT, cm.DOUBLE]


@st.composite
def values(draw, t):
    b = cm.boundary_values(t)
    if draw(st.integers(0, 3)) != 0:
        return draw(st.sampled_from(b))
    if t.kind == "float":
        x = draw(st.floats(allow_nan=False, allow_infinity=False, width=32 if t is cm.FLOAT else 64))
        return cm.fnorm(x, t)
    return draw(st.integers(t.min, t.max))


class Builder:
    """Draw-driven construction of one program."""

    def __init__(self, draw, char_signed, profile):
        self.draw = draw
        self.cs = char_signed
        self.types = _types(char_signed)
        self.vars = []
        self.decls = []
        self.stmts = []
        self.expect = []
        self.labels = set()
        self.funcs = []
        self.profile = profile
        self.nconv = 0
        self.kinds = ["bin", "bin", "bin", "bin", "un", "cast", "cond", "call"]

    def new_var(self, t=None, value=None):
        d = self.draw
        if t is None:
            t = d(st.sampled_from(self.types))
        if value is None:
            value = d(values(t))
        name = "g%d" % len(self.vars)
        v = Var(name, t, value)
        self.vars.append(v)
        self.decls.append("%s%s %s = %s;" % (d(st.sampled_from(["", "static "])), t.name, name, self.init_lit(value, t)))
        return v

    def init_lit(self, v, t):
        if t.kind == "int" and t.rank < cm.INT.rank:
            return cm.literal(v, cm.INT)
        return cm.literal(v, t)

    def new_bitfield_struct(self):
        d = self.draw
        n = d(st.integers(1, 6))
        bases = [cm.INT, cm.UINT, cm.LONG, cm.ULONG, cm.SHORT, cm.USHORT, cm.UCHAR, cm.SCHAR, cm.BOOL, cm.char_type(self.cs)]
        sname = "bs%d" % len(self.decls)
        members = []
        inits = []
        vs = []
        for i in range(n):
            base = d(st.sampled_from(bases))
            if d(st.integers(0, 5)) == 0:
                members.append("%s m%d;" % (base.name, i))
                val = d(values(base))
                inits.append(self.init_lit(val, base))
                vs.append(Var(None, base, val, None, "%s.m%d" % (sname, i)))
                continue
            if base.is_bool:
                w = 1
            else:
                w = d(st.sampled_from([1, 2, 3, 7, 8, 9, 15, 16, 17, 24, 31, 32, 33, 40, 63, 64]))
                w = min(w, base.bits)
            if d(st.integers(0, 7)) == 0:
                members.append("%s :%d;" % (base.name, d(st.sampled_from([0, 1] if base.is_bool else [0, 1, 3, min(5, base.bits)]))))
            bt = cm.IntT("%s:%d" % (base.name, w), w, base.signed and not base.is_bool, base.rank, base.is_bool)
            val = d(values(bt)) if w > 1 or bt.is_bool else d(st.sampled_from([bt.min, bt.max]))
            members.append("%s m%d:%d;" % (base.name, i, w))
            inits.append(cm.literal(val, cm.LLONG if base.signed else cm.ULLONG))
            var = Var(None, base, val, w, "%s.m%d" % (sname, i))
            var.type = bt
            # the declared type decides promotion; keep both
            vs.append(Var(None, base, val, w, "%s.m%d" % (sname, i)))
            self.labels.add("bitfield-w%d" % w)
        self.decls.append("struct %s_t { %s } %s = { %s };" % (sname, " ".join(members), sname, ", ".join(inits)))
        self.vars.extend(vs)
        self.labels.add("bitfield-struct")
        return vs

    # ---- storing into a variable (conversion as if by assignment)
    def store_value(self, var, v, t):
        if var.bf is not None:
            if var.type.is_bool:
                return cm.convert(v, t, cm.BOOL)
            bt = cm.IntT("bf", var.bf, var.type.signed, var.type.rank)
            return cm.convert(v, t, bt)
        return cm.convert(v, t, var.type)

    def leaf(self):
        d = self.draw
        k = d(st.integers(0, 9))
        if k == 0 or not self.vars:
            t = d(st.sampled_from([cm.INT, cm.UINT, cm.LONG, cm.ULONG, cm.LLONG, cm.ULLONG, cm.DOUBLE, cm.FLOAT]))
            v = d(values(t))
            return Node(cm.literal(v, t), v, t)
        if k == 1 and len(self.vars) < 40:
            var = self.new_var()
        else:
            var = d(st.sampled_from(self.vars))
        return Node(var.text, var.value, var.type, var.bf)

    def expr(self, depth):
        d = self.draw
        if depth <= 0 or d(st.integers(0, 4)) == 0:
            return self.leaf()
        kind = d(st.sampled_from(self.kinds))
        if kind == "bin":
            a = self.expr(depth - 1)
            b = self.expr(depth - 1)
            for attempt in range(5):
                op = d(st.sampled_from(ALLBIN))
                if (a.type.kind == "float" or b.type.kind == "float") and op in ("%", "&", "|", "^", "<<", ">>"):
                    continue
                try:
                    v, t = cm.binop(op, a.value, a.type, b.value, b.type, a.bf, b.bf)
                except cm.UB:
                    continue
                self.labels.add("op" + op)
                return Node("(%s %s %s)" % (a.text, op, b.text), v, t)
            v, t = cm.binop("!=", a.value, a.type, b.value, b.type, a.bf, b.bf)
            return Node("(%s != %s)" % (a.text, b.text), v, t)
        if kind == "un":
            a = self.expr(depth - 1)
            for attempt in range(3):
                op = d(st.sampled_from(UNARY))
                if a.type.kind == "float" and op == "~":
                    continue
                try:
                    v, t = cm.unop(op, a.value, a.type, a.bf)
                except cm.UB:
                    continue
                self.labels.add("un" + op)
                return Node("(%s %s)" % (op, a.text), v, t)
            v, t = cm.unop("!", a.value, a.type, a.bf)
            return Node("(! %s)" % a.text, v, t)
        if kind == "cast":
            a = self.expr(depth - 1)
            for attempt in range(4):
                t = d(st.sampled_from(self.types))
                try:
                    src_t = cm.promote(a.type, a.bf) if a.bf is not None else a.type
                    v0 = a.value
                    v = cm.convert(v0, src_t, t)
                except cm.UB:
                    continue
                self.labels.add("cast:%s->%s" % ("f" if a.type.kind == "float" else "i", "f" if t.kind == "float" else ("b" if t.is_bool else "i")))
                return Node("((%s)%s)" % (t.name, a.text), v, t)
            return a
        if kind == "cond":
            c = self.expr(depth - 1)
            a = self.expr(depth - 1)
            b = self.expr(depth - 1)
            pa, pb = cm.promote(a.type, a.bf), cm.promote(b.type, b.bf)
            t = cm.common(pa, pb)
            try:
                if c.value != 0:
                    v = cm.convert(cm.convert(a.value, a.type, pa) if a.type.kind == "int" else a.value, pa, t)
                else:
                    v = cm.convert(cm.convert(b.value, b.type, pb) if b.type.kind == "int" else b.value, pb, t)
                # both arms must be convertible (kept simple: require no UB in either)
                cm.convert(a.value, pa, t)
                cm.convert(b.value, pb, t)
            except cm.UB:
                return a
            self.labels.add("cond")
            return Node("(%s ? %s : %s)" % (c.text, a.text, b.text), v, t)
        # call: conversion through parameter passing and return
        a = self.expr(depth - 1)
        for attempt in range(4):
            pt = d(st.sampled_from(self.types))
            rt = d(st.sampled_from(self.types))
            try:
                src_t = cm.promote(a.type, a.bf) if a.bf is not None else a.type
                v1 = cm.convert(a.value, src_t, pt)
                v2 = cm.convert(v1, pt, rt)
            except cm.UB:
                continue
            name = "cv%d" % self.nconv
            self.nconv += 1
            self.funcs.append("%s%s %s(%s x) { return x; }" % (d(st.sampled_from(["static ", ""])), rt.name, name, pt.name))
            self.labels.add("call-conv")
            return Node("%s(%s)" % (name, a.text), v2, rt)
        return a

    def observe(self, node):
        t = cm.promote(node.type, node.bf) if node.type.kind == "int" else node.type
        v = node.value
        self.stmts.append("\t%s(%s);" % (chk_for(t), node.text))
        self.expect.append(fmt_expected(v, t))

    def assign_stmt(self, depth):
        d = self.draw
        if not self.vars:
            self.new_var()
        var = d(st.sampled_from(self.vars))
        vt = var.type
        kind = d(st.sampled_from(["=", "op=", "op=", "incdec"]))
        if kind == "=":
            e = self.expr(depth)
            try:
                src_t = cm.promote(e.type, e.bf) if e.bf is not None else e.type
                nv = self.store_value(var, e.value, src_t)
            except cm.UB:
                return
            self.stmts.append("\t%s = %s;" % (var.text, e.text))
            self.labels.add("assign")
        elif kind == "op=":
            e = self.expr(depth)
            done = False
            for attempt in range(4):
                op = d(st.sampled_from(ARITH + BITS))
                if (vt.kind == "float" or e.type.kind == "float") and op in ("%", "&", "|", "^", "<<", ">>"):
                    continue
                try:
                    r, rt = cm.binop(op, var.value, vt, e.value, e.type, var.bf, e.bf)
                    nv = self.store_value(var, r, rt)
                except cm.UB:
                    continue
                self.stmts.append("\t%s %s= %s;" % (var.text, op, e.text))
                self.labels.add("compound" + op)
                done = True
                break
            if not done:
                return
        else:
            op = d(st.sampled_from(["++", "--"]))
            pre = d(st.booleans())
            try:
                r, rt = cm.binop("+" if op == "++" else "-", var.value, vt, 1, cm.INT, var.bf, None)
                nv = self.store_value(var, r, rt)
            except cm.UB:
                return
            # the value of the expression itself is observed too
            obs_v = nv if pre else var.value
            text = (op + var.text) if pre else (var.text + op)
            ot = cm.promote(vt, var.bf) if vt.kind == "int" else vt
            self.stmts.append("\t%s(%s);" % (chk_for(ot), text))
            self.expect.append(fmt_expected(obs_v, ot))
            self.labels.add("incdec")
        # all Var objects aliasing the same storage (bit-field duplicates share text)
        for v2 in self.vars:
            if v2.text == var.text:
                v2.value = nv
        self.observe(Node(var.text, nv, vt, var.bf))

    def source(self):
        body = "\n".join(self.stmts)
        return (PROLOGUE + "\n".join(self.decls) + "\n" + "\n".join(self.funcs) + "\nint main(void) {\n" + body + "\n\treturn 0;\n}\n")


@st.composite
def expr_programs(draw, char_signed=True, max_stmts=24, depth=4):
    profile = draw(st.sampled_from(["ops", "ops", "conv", "bitfield", "mixed"]))
    b = Builder(draw, char_signed, profile)
    for _ in range(draw(st.integers(2, 6))):
        b.new_var()
    if profile in ("bitfield", "mixed"):
        for _ in range(draw(st.integers(1, 2))):
            b.new_bitfield_struct()
    n = draw(st.integers(3, max_stmts))
    for _ in range(n):
        if draw(st.integers(0, 2)) == 0:
            b.assign_stmt(depth - 1)
        else:
            b.observe(b.expr(depth))
    return {"src": b.source(), "expect": b.expect, "labels": sorted(b.labels), "profile": "A:" + profile, "char_signed": char_signed}
