"""(type, initialiser) generator for C07: type trees and valid-by-construction initialisers."""
from hypothesis import strategies as st

INT_RANGE = {"char": (0, 127), "signed char": (-128, 127), "unsigned char": (0, 255), "short": (-32768, 32767),
             "unsigned short": (0, 65535), "int": (-(1 << 31), (1 << 31) - 1), "unsigned": (0, (1 << 32) - 1),
             "long": (-(1 << 63), (1 << 63) - 1), "unsigned long": (0, (1 << 64) - 1), "long long": (-(1 << 63), (1 << 63) - 1),
             "unsigned long long": (0, (1 << 64) - 1), "_Bool": (0, 1)}
BITS = {"char": 8, "signed char": 8, "unsigned char": 8, "short": 16, "unsigned short": 16, "int": 32, "unsigned": 32, "long": 64,
        "unsigned long": 64, "long long": 64, "unsigned long long": 64, "_Bool": 1}
SCALARS = list(INT_RANGE) + ["float", "double", "char *", "int *", "void *", "const char *", "int (*)(void)"]


class T:
    """kind: scalar | array | struct | union; bf: bit-field width for scalar members (None otherwise)."""

    def __init__(self, kind, name=None, elem=None, n=0, members=None, tag=None, bf=None, anon=False):
        self.kind, self.name, self.elem, self.n, self.members, self.tag, self.bf = kind, name, elem, n, members or [], tag, bf
        self.anon = anon    # anonymous struct/union member: (None, T(..., anon=True)) in the enclosing member list

    def decl(self, ident):
        if self.kind == "scalar":
            if self.name == "int (*)(void)":
                return "int (*%s)(void)" % ident
            return "%s %s" % (self.name, ident)
        if self.kind == "array":
            dims = ""
            t = self
            while t.kind == "array":
                dims += "[%s]" % (t.n if t.n else "")
                t = t.elem
            return t.decl(ident + dims)
        return "%s %s %s" % (self.kind, self.tag, ident)

    def leaves(self, prefix):
        """(access path, scalar T) for every named scalar leaf (all array elements; unions: every member)."""
        if self.kind == "scalar":
            yield prefix, self
        elif self.kind == "array":
            for i in range(self.n):
                yield from self.elem.leaves("%s[%d]" % (prefix, i))
        else:
            for mn, mt in self.members:
                if mn is None:
                    if mt is not None and mt.anon:
                        yield from mt.leaves(prefix)
                    continue
                yield from mt.leaves("%s.%s" % (prefix, mn))


class G:
    def __init__(self, draw):
        self.draw = draw
        self.n = 0
        self.defs = []
        self.labels = set()
        self.auto = False       # initialisers for automatic objects: see avoid(auto-string-element-override)

    def uid(self, p):
        self.n += 1
        return "%s%d" % (p, self.n)

    def scalar(self, allow_ptr=True):
        d = self.draw
        pool = SCALARS if allow_ptr else [s for s in SCALARS if "*" not in s]
        return T("scalar", d(st.sampled_from(pool)))

    def type(self, depth=0):
        d = self.draw
        k = d(st.integers(0, 9))
        if depth >= 3 or k <= 3:
            return self.scalar()
        if k <= 5:
            n = d(st.sampled_from([1, 2, 3, 4, 6, 9]))
            elem = self.type(depth + 1) if d(st.booleans()) else self.scalar()
            if elem.kind == "scalar" and d(st.integers(0, 2)) == 0:
                elem = T("scalar", d(st.sampled_from(["char", "unsigned char", "signed char", "int", "unsigned short", "unsigned"])))
            return T("array", elem=elem, n=n)
        kind = "struct" if k <= 8 else "union"
        tag = self.uid("S" if kind == "struct" else "U")
        members = []
        text = []
        for i in range(d(st.integers(1, 5))):
            mn = "m%d" % i
            if kind == "struct" and d(st.integers(0, 4)) == 0:
                base = d(st.sampled_from(["int", "unsigned", "long", "unsigned long", "unsigned char", "short", "unsigned short", "_Bool", "signed char"]))
                w = 1 if base == "_Bool" else min(BITS[base], d(st.sampled_from([1, 2, 3, 7, 8, 9, 15, 16, 17, 31, 32, 33, 63, 64])))
                if BITS[base] == 64 and d(st.booleans()):
                    # fields that do not fit in 32 bits, at every bit offset within their first byte
                    w = d(st.sampled_from([33, 34, 39, 40, 41, 47, 48, 56, 57, 60, 63]))
                if d(st.integers(0, 8)) == 0:
                    text.append("%s :%d;" % (base, d(st.sampled_from([0, min(3, BITS[base]), min(5, BITS[base])]))))
                    members.append((None, None))
                members.append((mn, T("scalar", base, bf=w)))
                text.append("%s %s:%d;" % (base, mn, w))
                self.labels.add("bitfield")
            elif d(st.integers(0, 5)) == 0:
                # a text member: array of a character type, initialised by string literals of its width below
                en = d(st.sampled_from(["char", "unsigned char", "unsigned short", "unsigned", "char"]))
                mt = T("array", elem=T("scalar", en), n=d(st.sampled_from([2, 3, 4, 8, 16])))
                mt.text = True
                members.append((mn, mt))
                text.append(mt.decl(mn) + ";")
                self.labels.add("text-member")
            elif kind == "struct" and d(st.integers(0, 6)) == 0:
                # anonymous struct or union member (C11 6.7.2.1p13): its members are members of the enclosing type
                ak = d(st.sampled_from(["struct", "struct", "union"]))
                inner = []
                itext = []
                for _ in range(d(st.integers(1, 3))):
                    an = self.uid("a")
                    at = self.scalar() if d(st.integers(0, 3)) else self.type(depth + 2)
                    inner.append((an, at))
                    itext.append(at.decl(an) + ";")
                members.append((None, T(ak, members=inner, anon=True)))
                aal = ""
                if d(st.integers(0, 3)) == 0:
                    # an alignment specifier on the anonymous member itself (same monotone rule as for named members below)
                    self.maxal = max(getattr(self, "maxal", 0), d(st.sampled_from([16, 16, 32, 64])))
                    aal = "_Alignas(%d) " % self.maxal
                    self.labels.add("overaligned-anonymous-member")
                text.append("%s%s { %s };" % (aal, ak, " ".join(itext)))
                self.labels.add("anonymous-member")
            else:
                mt = self.type(depth + 1)
                members.append((mn, mt))
                al = ""
                if d(st.integers(0, 7)) == 0:
                    # a member aligned beyond the widest store instruction: the enclosing types inherit the alignment
                    # (never weaker than an alignment already used by a type of this unit: the member's type may contain one)
                    self.maxal = max(getattr(self, "maxal", 0), d(st.sampled_from([16, 16, 32, 64])))
                    al = "_Alignas(%d) " % self.maxal
                    self.labels.add("overaligned-member")
                text.append(al + mt.decl(mn) + ";")
        self.defs.append("%s %s { %s };" % (kind, tag, " ".join(text)))
        self.labels.add(kind)
        return T(kind, tag=tag, members=members)

    # ---- values
    def value(self, t):
        d = self.draw
        n = t.name
        if n in INT_RANGE:
            lo, hi = INT_RANGE[n]
            if t.bf is not None:
                if n == "_Bool":
                    lo, hi = 0, 1
                elif lo < 0:
                    lo, hi = -(1 << (t.bf - 1)), (1 << (t.bf - 1)) - 1
                else:
                    lo, hi = 0, (1 << t.bf) - 1
            v = d(st.sampled_from([lo, hi, 0, 1, hi // 2, lo // 2])) if d(st.booleans()) else d(st.integers(lo, hi))
            v = max(lo, min(hi, v))
            if d(st.integers(0, 9)) == 0:
                # a floating constant converted by the initialisation (C11 6.3.1.4, and 6.3.1.2 for _Bool: any non-zero
                # value, however small or large, gives 1)
                self.labels.add("float-to-int-init")
                if n == "_Bool":
                    return d(st.sampled_from(["0.5", "0.25f", "-3.5", "1e30", "0.0", "-0.0", "2.0", "1e-300", "-0.75", "(1.0/3)", "0x1p-60"]))
                if abs(v) < (1 << 50):
                    return "%s%d.%s" % ("-" if v < 0 else "", abs(v), d(st.sampled_from(["75", "5", "0", "999", "25f" if abs(v) < 1000 else "25"])))
            if v == -(1 << 63):
                return "(-9223372036854775807L-1)"
            if v >= 1 << 63:
                return "%dUL" % v
            if v >= 1 << 31 or v < -(1 << 31):
                return "%dL" % v
            form = d(st.integers(0, 5))
            if form == 0 and 32 <= v < 127 and v not in (39, 92):
                return "'%s'" % chr(v)
            if form == 1 and v >= 0:
                return hex(v)
            if form == 2 and 0 <= v < 1000:
                return "(%d + %d)" % (v - v // 2, v // 2)
            return str(v)
        if n in ("float", "double"):
            v = d(st.sampled_from(["0.0", "1.5", "-2.25", "1e10", "0.1", "3", "-7", "1.0f", "(1.0/3)", "0x1p-3"]))
            return v
        # pointers
        self.labels.add("reloc")
        if n in ("char *", "const char *"):
            k = d(st.integers(0, 4))
            if getattr(self, "nlong", 0) and d(st.booleans()):
                k = 1
            if k == 0:
                return "0"
            if k == 1:
                # (escapes followed by multi-byte characters: each character is encoded on its own, whatever preceded it)
                if d(st.integers(0, 2)) == 0 or (getattr(self, "nlong", 0) and d(st.integers(0, 2))):
                    self.nlong = getattr(self, "nlong", 0) + 1
                    if self.nlong > 1:
                        self.labels.add("long-literals-with-common-head")
                    # long literals that agree in a long head (62, 63, 64, 65 and more bytes) and differ behind it, or only in length
                    head = "usage: prog [-abcdefgh] [-o output] [-I directory] input-file .. "
                    return '"%s"' % d(st.sampled_from([head[:62], head[:63], head[:64], head, head + "(short form)", head + "(long form, with more text)", head[:64] + "x", head[:64] + "y"]))
                return '"%s"' % d(st.sampled_from(["", "abc", "hello", "x\\ty", "\\033[1m\u00e9\\033[0m", "ab\\0\u2717", "\\1\u00e9", "\u00e9\\x41\" \"\u00e9", "\\377\U0001f600z"]))
            if k == 2:
                if d(st.integers(0, 3)) == 0:
                    head = "usage: prog [-abcdefgh] [-o output] [-I directory] input-file .. "
                    return '"%s" + %d' % (d(st.sampled_from([head + "(short form)", head + "(long form, with more text)", head])), d(st.sampled_from([0, 1, 63, 64, 65])))
                return '"%s" + %d' % (d(st.sampled_from(["abcdef", "012345678"])), d(st.integers(0, 5)))
            if k == 3:
                return "&gchars[%d]" % d(st.integers(0, 15))
            return "gchars + %d" % d(st.integers(0, 16))
        if n == "int *":
            return d(st.sampled_from(["0", "&gint", "gints", "&gints[3]", "gints + 7", "&gstruct.b", "&gstruct.arr[2]", "(int *)0", "&gints[8] - 2",
                                      "(int[]){ 1, 2, 3 }", "&gsint", "&gints[8] - 2u", "gints + 9 - (unsigned short)3", "&gstruct.arr[3] - 1ul - 1u", "&gints[5] - U'\\2'"]))
        if n == "void *":
            return d(st.sampled_from(["0", "(void *)0", "&gint", "gchars", "&gstruct", "(void *)&gints[5]", "&gptr", "(char *)&gstruct + 4",
                                      "(void *)(&gints[5] - 3u)", "gchars + 16 - 2u", "(void *)(gints + 9 - (unsigned char)4)", "&gstruct.arr[3] - 1ul - 2u"]))
        if n == "int (*)(void)":
            return d(st.sampled_from(["0", "gfunc", "&gfunc", "gfunc2"]))
        return "0"

    # ---- initialisers
    def init(self, t, top=True):
        """Returns initializer text for type t (fully valid by construction)."""
        d = self.draw
        if t.kind == "scalar":
            v = self.value(t)
            if d(st.integers(0, 9 if top else 14)) == 0:
                self.labels.add("scalar-braces" if top else "member-scalar-braces")
                return "{ %s }" % v
            return v
        if d(st.integers(0, 14)) == 0 and not (t.kind == "array" and not t.n):
            self.labels.add("empty-or-zero")
            return d(st.sampled_from(["{ 0 }", "{ }"])) if t.kind != "union" or True else "{ 0 }"
        if t.kind == "array":
            return self.array_init(t)
        if t.kind == "union":
            named = [(mn, mt) for mn, mt in t.members if mn is not None]
            if d(st.booleans()):
                mn, mt = named[0]
                return "{ %s }" % self.init(mt, False)
            mn, mt = d(st.sampled_from(named))
            self.labels.add("designator")
            return "{ .%s = %s }" % (mn, self.init(mt, False))
        return self.struct_init(t)

    def array_init(self, t):
        d = self.draw
        e = t.elem
        if getattr(t, "text", False) and t.n and d(st.integers(0, 3)):
            pre = {"char": "", "unsigned char": "", "unsigned short": "u", "unsigned": "U"}[e.name]
            ln = d(st.integers(0, t.n))
            body = "".join(d(st.sampled_from(["a", "b", "Z", "0", "\\0", " ", "z"])) for _ in range(ln))
            self.labels.add("string-init" if not pre else "wide-string-init")
            return '%s"%s"' % (pre, body)
        if e.kind == "scalar" and e.name in ("char", "unsigned char", "signed char") and d(st.integers(0, 1)) == 0:
            self.labels.add("string-init")
            n = t.n
            ln = d(st.integers(0, n)) if n else d(st.integers(0, 6))
            s = "".join(d(st.sampled_from(["a", "b", "Z", "0", "\\n", "\\0", "\\377", "\\x7f", " "])) for _ in range(ln))
            txt = '"%s"' % s
            return "{ %s }" % txt if d(st.integers(0, 3)) == 0 else txt
        if e.kind == "scalar" and e.name in ("unsigned short", "unsigned") and d(st.integers(0, 3)) == 0:
            # L"..." is left to C14: wchar_t is int on two targets and unsigned on aarch64
            pre = {"unsigned short": "u", "unsigned": "U"}[e.name]
            n = t.n
            # up to exactly n characters: the terminating null is dropped when there is no room for it (6.7.9p14)
            ln = d(st.integers(0, n)) if n else d(st.integers(0, 5))
            s = "".join(d(st.sampled_from(["a", "b", "é", "€", "\\0", "z"] + (["\\x1", "\\7", "\U0001f600"] if not n else []))) for _ in range(ln))
            self.labels.add("wide-string-init")
            return '%s"%s"' % (pre, s)
        n = t.n or d(st.integers(1, 6))
        items = []
        pos = 0
        count = d(st.integers(0, n + 2))
        for _ in range(count):
            if d(st.integers(0, 3)) == 0 or pos >= n:
                pos = d(st.integers(0, n - 1))
                self.labels.add("designator")
                items.append("[%d] = %s" % (pos, self.elem_init(e)))
                if pos < len(items) - 1:
                    self.labels.add("override")
            else:
                items.append(self.elem_init(e))
            pos += 1
        if not items:
            items.append(self.elem_init(e))
        return "{ %s }" % ", ".join(items)

    def elem_init(self, e):
        d = self.draw
        if e.kind in ("struct", "array") and d(st.integers(0, 5)) == 0:
            flat = self.flat(e)
            if flat is not None:
                self.labels.add("brace-elision")
                return flat
        return self.init(e, False)

    def flat(self, t):
        """Complete flattened list of scalar initialisers of t (brace elision), or None if not expressible."""
        if t.kind == "scalar":
            return self.value(t)
        if t.kind == "array":
            if t.elem.kind == "scalar" and t.elem.name in ("char", "unsigned char", "signed char"):
                pass
            parts = []
            for _ in range(t.n):
                p = self.flat(t.elem)
                if p is None:
                    return None
                parts.append(p)
            return ", ".join(parts)
        if t.kind == "union":
            return None
        parts = []
        for mn, mt in t.members:
            if mn is None and not (mt is not None and mt.anon):
                continue
            p = self.flat(mt)
            if p is None:
                return None
            parts.append(p)
        return ", ".join(parts) if parts else None

    def struct_init(self, t):
        """Struct initialiser.  Positional members include anonymous struct/union members (braced or elided);
        a designator may name a member of an anonymous member, after which the list continues positionally
        inside the anonymous struct and then with the enclosing struct's next member."""
        d = self.draw
        slots = [(mn, mt) for mn, mt in t.members if mn is not None or (mt is not None and mt.anon)]
        items = []
        strslots = set()    # slots initialised by a string literal so far
        pos = 0
        hi = 0          # one past the highest slot initialised so far
        count = d(st.integers(0, len(slots) + 2))
        for _ in range(count):
            if d(st.integers(0, 2)) == 0 or pos >= len(slots):
                pos = d(st.integers(0, len(slots) - 1))
                mn, mt = slots[pos]
                if mn is None and mt.kind == "union" and pos < hi:
                    # avoid(assert:emitdata, recorded C19 finding / upstream todo 38): a second initialiser for another
                    # member of a union whose storage is already initialised trips an assertion for static objects
                    self.labels.add("avoided:union-member-override")
                    pos = len(slots)
                    continue
                self.labels.add("designator")
                override = pos < hi
                if mn is None:
                    inner = [(n2, t2) for n2, t2 in mt.members if n2 is not None]
                    k = d(st.integers(0, len(inner) - 1))
                    n2, t2 = inner[k]
                    items.append(".%s = %s" % (n2, self.elem_init(t2)))
                    self.labels.add("anonymous-designator")
                    if mt.kind == "struct":
                        # continue positionally with the following members of the anonymous struct
                        more = d(st.integers(0, len(inner) - 1 - k))
                        for n3, t3 in inner[k + 1:k + 1 + more]:
                            items.append(self.elem_init(t3))
                            self.labels.add("anonymous-continue")
                        if k + 1 + more < len(inner):
                            hi = max(hi, pos + 1)
                            pos = len(slots)    # stopped inside: the next item must carry a designator
                            continue
                    self.labels.add("anonymous-then-outer")
                # nested designator into the member (more often when the member was initialised before: sub-object override)
                elif mt.kind in ("struct",) and d(st.integers(0, 1 if override else 2)) == 0:
                    sub = [(n2, t2) for n2, t2 in mt.members if n2 is not None]
                    if sub:
                        n2, t2 = d(st.sampled_from(sub))
                        items.append(".%s.%s = %s" % (mn, n2, self.elem_init(t2)))
                        self.labels.add("nested-designator")
                        if override:
                            self.labels.add("subobject-override")
                        hi = max(hi, pos + 1)
                        pos = len(slots)   # the current object is now inside .mn: the next item must carry a designator
                        continue
                    items.append(".%s = %s" % (mn, self.elem_init(mt)))
                elif mt.kind == "array" and mt.n and self.auto and pos in strslots:
                    # avoid(auto-string-element-override): recorded finding (the pinned suite's golden output contains it)
                    self.labels.add("avoided:auto-string-element-override")
                    items.append(".%s = %s" % (mn, self.elem_init(mt)))
                elif mt.kind == "array" and mt.n and d(st.integers(0, 1 if override else 2)) == 0:
                    i = d(st.integers(0, mt.n - 1))
                    items.append(".%s[%d] = %s" % (mn, i, self.elem_init(mt.elem)))
                    self.labels.add("nested-designator")
                    if override:
                        self.labels.add("subobject-override")
                    hi = max(hi, pos + 1)
                    pos = len(slots)
                    continue
                else:
                    items.append(".%s = %s" % (mn, self.elem_init(mt)))
                if items[-1].split("= ", 1)[-1].lstrip("uUL{ ").startswith('"'):
                    strslots.add(pos)
            else:
                mn, mt = slots[pos]
                items.append(self.elem_init(mt))
                if items[-1].lstrip("uUL{ ").startswith('"'):
                    strslots.add(pos)
                if mn is not None and mt.kind == "array" and mt.n and mt.elem.kind == "scalar" and items[-1].lstrip("uUL").startswith('"') and d(st.booleans()) \
                        and not self.auto:
                    # a string literal for an array member, then single elements of the same array overridden, also beyond
                    # the end of the literal
                    for _ in range(d(st.integers(1, 3))):
                        # mostly in the upper half of the array, i.e. often beyond the end of the literal
                        ix = d(st.integers(mt.n // 2, mt.n - 1)) if d(st.integers(0, 2)) else d(st.integers(0, mt.n - 1))
                        items.append(".%s[%d] = %s" % (mn, ix, self.value(mt.elem)))
                    self.labels.add("string-then-element-override")
                    hi = max(hi, pos + 1)
                    pos = len(slots)
                    continue
            pos += 1
            hi = max(hi, pos)
        if not items:
            mn, mt = slots[0]
            items.append(self.elem_init(mt))
        return "{ %s }" % ", ".join(items)


PRELUDE = ("int gint = 7; static int gsint = 9; int gints[10] = { 1, 2, 3 }; char gchars[17] = \"0123456789abcdef\";\n"
           "struct gs { char a; int b; int arr[4]; } gstruct = { 1, 2, { 3, 4, 5, 6 } };\n"
           "int gfunc(void) { return 1; } static int gfunc2(void) { return 2; } void *gptr = &gint;\n")


@st.composite
def init_cases(draw, nobj=4):
    g = G(draw)
    objs = []
    for i in range(draw(st.integers(1, nobj))):
        t = g.type()
        ident = "x%d" % i
        incomplete = False
        if t.kind == "array" and draw(st.integers(0, 3)) == 0:
            t.n = 0     # T x[] = ...: sized by its initialiser
            incomplete = True
            g.labels.add("incomplete-array")
        init = g.init(t)
        decl = t.decl(ident)
        storage = draw(st.sampled_from(["", "", "static ", "_Thread_local ", "const "]))
        if "(*" in decl and storage == "const ":
            storage = "static "
        pre = None
        if t.kind == "array" and not incomplete and storage in ("", "static ") and draw(st.integers(0, 3)) == 0:
            # declared earlier with its length (extern, tentative or static), defined here without one: the object keeps the declared
            # length whatever the number of initialisers (composite type, 6.2.7)
            pre = "%s%s;" % (draw(st.sampled_from(["extern ", ""])) if storage == "" else "static ", decl)
            n0, t.n = t.n, 0
            decl = t.decl(ident)
            t.n = n0
            g.labels.add("array-redeclared-without-length")
        objs.append({"decl": decl, "init": init, "name": ident, "storage": storage, "incomplete": incomplete, "pre": pre})
    if draw(st.integers(0, 3)) == 0:
        # several objects declared through one typedef of an array of unknown size: each initialiser sizes its own object
        en = draw(st.sampled_from(["int", "char", "unsigned short", "long"]))
        tdn = g.uid("TA")
        g.defs.append("typedef %s %s[];" % (en, tdn))
        et = T("scalar", en)
        for j in range(draw(st.integers(2, 3))):
            n = draw(st.integers(1, 5))
            if en == "char" and draw(st.booleans()):
                init = '"%s"' % ("xyzw"[:n])
            else:
                init = "{ %s }" % ", ".join(g.value(et) for _ in range(n))
            objs.append({"decl": "%s xt%d_%d" % (tdn, len(objs), j), "init": init, "name": "xt%d_%d" % (len(objs), j),
                         "storage": draw(st.sampled_from(["", "static "])), "incomplete": True})
            if draw(st.integers(0, 1)) == 0:
                # a compound literal of the typedef'd type in between: it sizes itself, not the typedef
                m = draw(st.integers(1, 6))
                lit = "(%s){ %s }" % (tdn, ", ".join(g.value(et) for _ in range(m)))
                k = len(objs)
                if draw(st.booleans()):
                    objs.append({"decl": "unsigned long xl%d" % k, "init": draw(st.sampled_from(["sizeof(%s)", "sizeof %s"])) % lit, "name": "xl%d" % k, "storage": "", "incomplete": False})
                else:
                    objs.append({"decl": "%s *xl%d" % (en, k), "init": lit, "name": "xl%d" % k, "storage": "", "incomplete": False})
                g.labels.add("typedef-incomplete-array-compound-literal")
        g.labels.add("typedef-incomplete-array")
    return {"defs": g.defs, "objs": objs, "labels": sorted(g.labels)}
