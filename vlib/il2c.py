"""IL -> C translator: the executable semantics of QBE IL used by C01/C02/C04/C07/C08/C15 (DESIGN 2.3).

translate(module) -> C source text.  Every IL instruction becomes one C statement over unsigned carriers;
IL-undefined operations trap with a report (rt.h) instead of picking a behaviour.
"""
import fractions
import math
import re
import struct

from . import qbeil


class Unsupported(Exception):
    pass


def mangle(name):
    out = []
    for ch in name:
        if ch.isalnum():
            out.append(ch)
        elif ch == "_":
            out.append("__")
        else:
            out.append("_%02x" % ord(ch))
    return "".join(out)


def cstr(name):
    return '"' + name.replace("\\", "\\\\").replace('"', '\\"') + '"'


CTYPE = {"w": "uint32_t", "l": "uint64_t", "s": "float", "d": "double",
         "b": "uint8_t", "h": "uint16_t", "sb": "uint32_t", "ub": "uint32_t", "sh": "uint32_t", "uh": "uint32_t"}


def round_to_f32(text):
    """Value of decimal text rounded once to the nearest float (what QBE's scanf("%f") does)."""
    t = text.strip().lower()
    neg = t.startswith("-")
    if t.lstrip("+-") in ("inf", "infinity"):
        return -math.inf if neg else math.inf
    if "nan" in t:
        return math.nan
    if "x" in t:
        v = fractions.Fraction(float.fromhex(t))
    else:
        v = fractions.Fraction(t)
    if v == 0:
        return -0.0 if neg else 0.0
    a = abs(v)
    # find exponent e with 2^e <= a < 2^(e+1)
    e = a.numerator.bit_length() - a.denominator.bit_length()
    if fractions.Fraction(2) ** e > a:
        e -= 1
    e = max(e, -126)
    q = fractions.Fraction(2) ** (e - 23)
    n = a / q
    fl = n.numerator // n.denominator
    rem = n - fl
    if rem > fractions.Fraction(1, 2) or (rem == fractions.Fraction(1, 2) and fl % 2 == 1):
        fl += 1
    r = fl * q
    if r >= fractions.Fraction(2) ** 128:
        return -math.inf if neg else math.inf
    f = float(r)
    return -f if neg else f


def flit(kind, x):
    """C literal for a float/double value."""
    if math.isnan(x):
        return "__builtin_nanf(\"\")" if kind == "s" else "__builtin_nan(\"\")"
    if math.isinf(x):
        s = "__builtin_inff()" if kind == "s" else "__builtin_inf()"
        return "(-%s)" % s if x < 0 else s
    h = x.hex()
    return "(%s%s)" % (h, "f" if kind == "s" else "")


class Translator:
    def __init__(self, mod, target="x86_64-sysv", opts=None):
        self.m = mod
        self.target = target
        self.out = []
        self.defined = {}     # symbol -> 'data' | 'func'
        self.threads = set()
        for d in mod.data:
            self.defined[d.name] = "data"
            if d.thread:
                self.threads.add(d.name)
        for f in mod.funcs:
            self.defined[f.name] = "func"
        self.funcs = {f.name: f for f in mod.funcs}
        self.externs = {}     # name -> thread?
        self.opts = opts or {}

    # ---- types
    def ctype_of(self, ty):
        if ty.startswith(":"):
            return "struct T_" + mangle(ty[1:])
        if ty == "env":
            raise Unsupported("env parameter")
        return CTYPE[ty]

    def emit_types(self):
        o = self.out
        for name, td in self.m.types.items():
            cn = "T_" + mangle(name)
            if td.opaque_size is not None:
                o.append("struct %s { _Alignas(%d) unsigned char b[%d]; };" % (cn, td.align or 1, max(td.opaque_size, 1)))
                continue
            al = "_Alignas(%d) " % td.align if td.align else ""

            def fields(fl, prefix):
                parts = []
                for i, (ty, cnt) in enumerate(fl):
                    ct = self.ctype_of(ty) if ty.startswith(":") else CTYPE[ty]
                    a = al if (i == 0 and prefix == "f") else ""
                    if cnt == 1:
                        parts.append("%s%s %s%d;" % (a, ct, prefix, i))
                    else:
                        parts.append("%s%s %s%d[%d];" % (a, ct, prefix, i, cnt))
                return " ".join(parts) or "char empty_[0];"
            if td.is_union:
                alts = []
                for k, alt in enumerate(td.fields):
                    alts.append("struct { %s } u%d;" % (fields(alt, "a%d_" % k), k))
                o.append("struct %s { %sunion { %s } u; };" % (cn, al, " ".join(alts)))
            else:
                o.append("struct %s { %s };" % (cn, fields(td.fields, "f")))
            size, align, _ = qbeil.type_layout(self.m, name)
            o.append("_Static_assert(sizeof(struct %s) == %d && _Alignof(struct %s) == %d, \"layout of :%s\");"
                     % (cn, size, cn, align, name))

    # ---- symbols
    def note_sym(self, v):
        if v.v not in self.defined and v.v not in self.externs:
            self.externs[v.v] = v.thread
        elif v.thread and v.v in self.externs:
            self.externs[v.v] = True

    def addr(self, v):
        """C expression (uintptr_t) for the address of global v."""
        n = v.v
        if self.defined.get(n) == "func":
            return "(uintptr_t)&fn_%s" % mangle(n)
        if self.defined.get(n) == "data":
            return "(uintptr_t)&def_%s" % mangle(n)
        self.note_sym(v)
        return "(uintptr_t)ref_%s" % mangle(n)

    def emit_data_decls(self):
        o = self.out
        # struct types of data definitions + forward declarations
        for d in self.m.data:
            cn = mangle(d.name)
            fields = []
            for i, it in enumerate(d.items):
                if it.kind == "zero":
                    fields.append("uint8_t i%d[%d];" % (i, it.value))
                elif it.kind == "str":
                    fields.append("uint8_t i%d[%d];" % (i, len(it.value)))
                elif it.kind == "int":
                    fields.append("%s i%d;" % ({"b": "uint8_t", "h": "uint16_t", "w": "uint32_t", "l": "uint64_t",
                                               "s": "uint32_t", "d": "uint64_t"}[it.cls], i))
                elif it.kind == "flt":
                    fields.append("%s i%d;" % ("float" if it.cls == "s" else "double", i))
                else:
                    if it.cls != "l":
                        raise Unsupported("symbol in %s data item" % it.cls)
                    fields.append("void *i%d;" % i)
            if not fields:
                fields.append("uint8_t empty_[0];")
            o.append("struct __attribute__((packed)) D_%s { %s };" % (cn, " ".join(fields)))
            link = "" if d.export else "static "
            th = "__thread " if d.thread else ""
            o.append("%s%sstruct D_%s def_%s __asm__(%s) __attribute__((used, aligned(%d)));"
                     % (link, th, cn, cn, cstr(d.name), d.align or 1))

    def emit_data_defs(self):
        o = self.out
        for d in self.m.data:
            cn = mangle(d.name)
            inits = []
            for i, it in enumerate(d.items):
                if it.kind == "zero":
                    inits.append("{0}")
                elif it.kind == "str":
                    inits.append("{" + ",".join(str(b) for b in it.value) + "}")
                elif it.kind == "int":
                    n = qbeil.BASE_SIZE[it.cls]
                    inits.append("%dU%s" % (it.value % (1 << (8 * n)), "LL" if n == 8 else ""))
                elif it.kind == "flt":
                    if it.cls == "s":
                        inits.append(flit("s", round_to_f32(it.value[2])))
                    else:
                        inits.append(flit("d", it.value[1]))
                else:
                    v = qbeil.Val("glo", it.sym, it.thread)
                    if it.thread:
                        raise Unsupported("address of thread-local in data")
                    inits.append("(void *)(%s + %dULL)" % (self.addr(v), it.off % (1 << 64)))
            if not inits:
                inits.append("{0}")
            link = "" if d.export else "static "
            th = "__thread " if d.thread else ""
            o.append("%s%sstruct D_%s def_%s = { %s };" % (link, th, cn, cn, ", ".join(inits)))

    # ---- functions
    def proto(self, f, asm=True):
        ret = "void"
        if f.rettype:
            ret = self.ctype_of(f.rettype)
        elif f.retcls:
            ret = CTYPE[f.retcls]
        ps = []
        for i, (ty, t) in enumerate(f.params):
            ps.append("%s p%d" % (self.ctype_of(ty), i))
        if f.variadic:
            if not ps:
                raise Unsupported("variadic function without named parameter")
            ps.append("...")
        if not ps:
            ps = ["void"]
        return "%s%s fn_%s(%s)%s" % ("" if f.export else "static ", ret, mangle(f.name), ", ".join(ps),
                                     " __asm__(%s)" % cstr(f.name) if asm else "")

    def val(self, v, cls, tmpcls):
        """C expression of value v read as class cls."""
        if v.kind == "tmp":
            c = tmpcls[v.v]
            n = "t_" + mangle(v.v)
            if cls == "w":
                return "(uint32_t)%s" % n if c == "l" else n
            return n
        if v.kind == "int":
            if cls == "w":
                return "%dU" % (v.v % (1 << 32))
            if cls == "l":
                return "%dULL" % (v.v % (1 << 64))
            if cls == "s":
                return "bits_s(%dU)" % (v.v % (1 << 32))
            return "bits_d(%dULL)" % (v.v % (1 << 64))
        if v.kind == "flt":
            k, x, text = v.v
            if cls == "s":
                # QBE reads s_ constants with scanf("%f"): one rounding from the decimal text
                return flit("s", round_to_f32(text))
            if cls == "d":
                return flit("d", x)
            raise Unsupported("float constant in integer position")
        if v.kind == "glo":
            a = self.addr(v) if not v.thread else self.taddr(v)
            if cls == "w":
                return "(uint32_t)(%s)" % a
            return "(uint64_t)(%s)" % a
        raise Unsupported("value")

    def taddr(self, v):
        n = v.v
        if self.defined.get(n) == "data":
            return "(uintptr_t)&def_%s" % mangle(n)
        self.externs[n] = True
        return "(uintptr_t)ref_%s" % mangle(n)

    def emit_func(self, f):
        o = []
        tmpcls = {}
        for ty, t in f.params:
            tmpcls[t] = "l" if ty.startswith(":") else ("w" if ty in ("sb", "ub", "sh", "uh") else ty)
        for b in f.blocks:
            for p in b.phis:
                tmpcls[p.res] = p.cls
            for ins in b.insts:
                if ins.res is not None:
                    tmpcls[ins.res] = ins.cls
        o.append(self.proto(f, asm=False) + " {")
        for t, c in tmpcls.items():
            o.append("\t%s t_%s = 0;" % (CTYPE[c], mangle(t)))
        o.append("\tint pred_ = -1; (void)pred_;")
        for i, (ty, t) in enumerate(f.params):
            if ty.startswith(":"):
                o.append("\tt_%s = (uint64_t)(uintptr_t)&p%d;" % (mangle(t), i))
            else:
                o.append("\tt_%s = p%d;" % (mangle(t), i))
        if f.variadic:
            o.append("\tva_list va_; va_start(va_, p%d);" % (len(f.params) - 1))
        names = {b.name: i for i, b in enumerate(f.blocks)}
        body = []
        decls = []
        nalloc = [0]
        for bi, b in enumerate(f.blocks):
            body.append("L_%s:;" % mangle(b.name))
            if b.phis:
                for k, p in enumerate(b.phis):
                    decls.append("\t%s phi_%d_%d = 0;" % (CTYPE[p.cls], bi, k))
                    body.append("\tswitch (pred_) {")
                    for lab, v in p.args:
                        if lab in names:
                            body.append("\tcase %d: phi_%d_%d = %s; break;" % (names[lab], bi, k, self.val(v, p.cls, tmpcls)))
                    body.append("\tdefault: rt_trap(\"phi reached from an unlisted predecessor\");")
                    body.append("\t}")
                for k, p in enumerate(b.phis):
                    body.append("\tt_%s = phi_%d_%d;" % (mangle(p.res), bi, k))
            for ins in b.insts:
                self.emit_inst(f, bi, ins, tmpcls, body, decls, nalloc)
            j = b.jump
            body.append("\tpred_ = %d;" % bi)
            if j is None:
                if bi + 1 >= len(f.blocks):
                    body.append("\trt_trap(\"fell off the end of the function\");")
            elif j[0] == "jmp":
                body.append("\tgoto L_%s;" % mangle(j[1]))
            elif j[0] == "jnz":
                body.append("\tif (%s) goto L_%s; else goto L_%s;" % (self.val(j[1], "w", tmpcls), mangle(j[2]), mangle(j[3])))
            elif j[0] == "hlt":
                body.append("\trt_trap(\"hlt reached\");")
            elif j[0] == "ret":
                if f.variadic:
                    body.append("\tva_end(va_);")
                if f.rettype:
                    ct = self.ctype_of(f.rettype)
                    if j[1] is None:
                        body.append("\t{ %s z_; memset(&z_, 0, sizeof z_); return z_; }" % ct)
                    else:
                        body.append("\t{ %s r_; memcpy(&r_, (void *)(uintptr_t)%s, sizeof r_); return r_; }" % (ct, self.val(j[1], "l", tmpcls)))
                elif f.retcls:
                    if j[1] is None:
                        body.append("\treturn 0;")
                    else:
                        body.append("\treturn %s;" % self.val(j[1], "w" if f.retcls in ("sb", "ub", "sh", "uh") else f.retcls, tmpcls))
                else:
                    body.append("\treturn;")
        o.extend(decls)
        o.extend(body)
        o.append("}")
        return o

    def emit_inst(self, f, bi, ins, tmpcls, body, decls, nalloc):
        op = ins.op
        V = lambda i, c: self.val(ins.args[i], c, tmpcls)
        res = "t_" + mangle(ins.res) if ins.res is not None else None
        k = ins.cls
        ct = CTYPE.get(k)
        bits = 32 if k == "w" else 64
        sct = "int32_t" if k == "w" else "int64_t"
        e = body.append
        if op in ("add", "sub", "mul"):
            c = {"add": "+", "sub": "-", "mul": "*"}[op]
            if k in ("w", "l"):
                e("\t%s = (%s)(%s %s %s);" % (res, ct, V(0, k), c, V(1, k)))
            else:
                e("\t%s = %s %s %s;" % (res, V(0, k), c, V(1, k)))
        elif op == "neg":
            if k in ("w", "l"):
                e("\t%s = (%s)(0 - %s);" % (res, ct, V(0, k)))
            else:
                e("\t%s = -%s;" % (res, V(0, k)))
        elif op == "div" and k in ("s", "d"):
            e("\t%s = %s / %s;" % (res, V(0, k), V(1, k)))
        elif op in ("div", "rem"):
            e("\t%s = (%s)rt_s%s%d((%s)%s, (%s)%s);" % (res, ct, op, bits, sct, V(0, k), sct, V(1, k)))
        elif op in ("udiv", "urem"):
            e("\t%s = rt_%s%d(%s, %s);" % (res, op, bits, V(0, k), V(1, k)))
        elif op in ("and", "or", "xor"):
            c = {"and": "&", "or": "|", "xor": "^"}[op]
            e("\t%s = %s %s %s;" % (res, V(0, k), c, V(1, k)))
        elif op in ("shl", "shr", "sar"):
            e("\t%s = rt_%s%d(%s, %s);" % (res, op, bits, V(0, k), V(1, "w")))
        elif re.fullmatch(r"c(eq|ne|sle|slt|sge|sgt|ule|ult|uge|ugt)[wl]", op):
            cc, oc = op[1:-1], op[-1]
            cop = {"eq": "==", "ne": "!=", "le": "<=", "lt": "<", "ge": ">=", "gt": ">"}[cc.lstrip("su") if cc not in ("eq", "ne") else cc]
            a, b2 = V(0, oc), V(1, oc)
            if cc[0] == "s" and cc not in ("eq", "ne"):
                st = "int32_t" if oc == "w" else "int64_t"
                a, b2 = "(%s)%s" % (st, a), "(%s)%s" % (st, b2)
            e("\t%s = (%s)(%s %s %s);" % (res, ct, a, cop, b2))
        elif re.fullmatch(r"c(eq|ne|le|lt|ge|gt|o|uo)[sd]", op):
            cc, oc = op[1:-1], op[-1]
            a, b2 = V(0, oc), V(1, oc)
            if cc == "o":
                e("\t%s = (%s)!__builtin_isunordered(%s, %s);" % (res, ct, a, b2))
            elif cc == "uo":
                e("\t%s = (%s)__builtin_isunordered(%s, %s);" % (res, ct, a, b2))
            else:
                cop = {"eq": "==", "ne": "!=", "le": "<=", "lt": "<", "ge": ">=", "gt": ">"}[cc]
                e("\t%s = (%s)(%s %s %s);" % (res, ct, a, cop, b2))
        elif op in ("storeb", "storeh", "storew", "storel", "stores", "stored"):
            ty = {"storeb": ("uint8_t", "w"), "storeh": ("uint16_t", "w"), "storew": ("uint32_t", "w"),
                  "storel": ("uint64_t", "l"), "stores": ("float", "s"), "stored": ("double", "d")}[op]
            e("\t{ %s v_ = (%s)%s; memcpy((void *)(uintptr_t)%s, &v_, sizeof v_); }" % (ty[0], ty[0], V(0, ty[1]), V(1, "l")))
        elif op in ("loadsb", "loadub", "loadsh", "loaduh", "loadsw", "loaduw", "loadw", "loadl", "loads", "loadd", "load"):
            if op == "load":
                op = {"w": "loadsw", "l": "loadl", "s": "loads", "d": "loadd"}[k]
            mt = {"loadsb": "int8_t", "loadub": "uint8_t", "loadsh": "int16_t", "loaduh": "uint16_t", "loadsw": "int32_t",
                  "loaduw": "uint32_t", "loadw": "int32_t", "loadl": "uint64_t", "loads": "float", "loadd": "double"}[op]
            if mt in ("float", "double"):
                e("\t{ %s v_; memcpy(&v_, (void *)(uintptr_t)%s, sizeof v_); %s = v_; }" % (mt, V(0, "l"), res))
            else:
                e("\t{ %s v_; memcpy(&v_, (void *)(uintptr_t)%s, sizeof v_); %s = (%s)(%s)v_; }"
                  % (mt, V(0, "l"), res, ct, "int64_t" if mt.startswith("int") else "uint64_t"))
        elif op in ("extsb", "extub", "extsh", "extuh", "extsw", "extuw"):
            mt = {"extsb": "int8_t", "extub": "uint8_t", "extsh": "int16_t", "extuh": "uint16_t", "extsw": "int32_t", "extuw": "uint32_t"}[op]
            e("\t%s = (%s)(%s)(%s)%s;" % (res, ct, "int64_t" if mt.startswith("int") else "uint64_t", mt, V(0, "w")))
        elif op == "exts":
            e("\t%s = (double)%s;" % (res, V(0, "s")))
        elif op == "truncd":
            e("\t%s = (float)%s;" % (res, V(0, "d")))
        elif op in ("stosi", "stoui", "dtosi", "dtoui"):
            src = "s" if op[0] == "s" else "d"
            e("\t%s = rt_%s%d(%s);" % (res, "ftosi" if op.endswith("si") else "ftoui", bits, V(0, src)))
        elif op in ("swtof", "uwtof", "sltof", "ultof"):
            src = "w" if op[1] == "w" else "l"
            st = {"swtof": "int32_t", "uwtof": "uint32_t", "sltof": "int64_t", "ultof": "uint64_t"}[op]
            e("\t%s = (%s)(%s)%s;" % (res, ct, st, V(0, src)))
        elif op == "cast":
            src = {"w": "s", "l": "d", "s": "w", "d": "l"}[k]
            e("\t{ %s v_ = %s; memcpy(&%s, &v_, sizeof v_); }" % (CTYPE[src], V(0, src), res))
        elif op == "copy":
            e("\t%s = %s;" % (res, V(0, k)))
        elif op in ("alloc4", "alloc8", "alloc16"):
            al = int(op[5:])
            a = ins.args[0]
            # The object is given exactly the alignment the IL asks for and no more (address = N mod 2N), so
            # code that silently relies on a stricter alignment is exposed; it ends at the end of the C array, so
            # ASan's red zone follows it directly.
            if bi == 0 and a.kind == "int" and 0 < a.v <= (1 << 20):
                nalloc[0] += 1
                decls.append("\t_Alignas(%d) unsigned char al_%d[%d];" % (2 * al, nalloc[0], a.v + al))
                e("\t%s = (uint64_t)(uintptr_t)(al_%d + %d);" % (res, nalloc[0], al))
                # a stack slot has indeterminate contents: poison it so that code relying on zeroes is exposed
                e("\tmemset(al_%d + %d, 0xa5, %d);" % (nalloc[0], al, a.v))
            else:
                e("\t%s = (uint64_t)(uintptr_t)((unsigned char *)__builtin_alloca_with_align(rt_allocsize(%s) + %d, %d) + %d);"
                  % (res, V(0, "l"), al, 2 * al * 8, al))
                e("\tmemset((void *)(uintptr_t)%s, 0xa5, rt_allocsize(%s));" % (res, V(0, "l")))
        elif op == "vastart":
            if not f.variadic:
                raise Unsupported("vastart in non-variadic function")
            if self.target == "riscv64":
                raise Unsupported("riscv64 va_list cannot hold the host va_list")
            e("\t{ va_list c_; va_copy(c_, va_); memcpy((void *)(uintptr_t)%s, c_, sizeof(va_list)); }" % V(0, "l"))
        elif op == "vaarg":
            if self.target == "riscv64":
                raise Unsupported("riscv64 va_list cannot hold the host va_list")
            vt = {"w": "uint32_t", "l": "uint64_t", "d": "double", "s": None}[k]
            if vt is None:
                raise Unsupported("vaarg of class s")
            e("\t%s = va_arg(*(va_list *)(uintptr_t)%s, %s);" % (res, V(0, "l"), vt))
        elif op == "call":
            self.emit_call(f, ins, tmpcls, body, decls, nalloc)
        elif op == "dbgloc":
            pass
        else:
            raise Unsupported("instruction " + op)

    def emit_call(self, f, ins, tmpcls, body, decls, nalloc):
        rt = "void"
        if ins.rtype:
            rt = self.ctype_of(ins.rtype)
        elif ins.cls:
            rt = CTYPE[ins.cls]
        ptypes = []
        args = []
        for ai, (ty, v) in enumerate(ins.cargs):
            if ty == "s" and ins.variadic_at is not None and ai >= ins.variadic_at:
                # an `s` value in the variable part travels unpromoted in the low half of a vector register;
                # C would silently promote a float here, which would hide a missing promotion in the IL
                ptypes.append("double")
                args.append("bits_d((uint64_t)s_bits(%s))" % self.val(v, "s", tmpcls))
                continue
            if ty.startswith(":"):
                ct = self.ctype_of(ty)
                args.append("*(%s *)(uintptr_t)%s" % (ct, self.val(v, "l", tmpcls)))
            else:
                c = "w" if ty in ("sb", "ub", "sh", "uh") else ty
                ct = CTYPE[c]
                args.append(self.val(v, c, tmpcls))
            ptypes.append(ct)
        if ins.variadic_at is not None:
            named = ptypes[:ins.variadic_at]
            if not named:
                raise Unsupported("variadic call without named parameter")
            sig = ", ".join(named) + ", ..."
            # default argument promotions are the caller's job in the IL; pass values as their own class
        else:
            sig = ", ".join(ptypes) or "void"
        tgt = ins.args[0]
        if tgt.kind == "glo":
            t = self.addr(tgt)
        else:
            t = "(uintptr_t)%s" % self.val(tgt, "l", tmpcls)
        callee = "((%s (*)(%s))(%s))" % (rt, sig, t)
        call = "%s(%s)" % (callee, ", ".join(args))
        if ins.res is None:
            body.append("\t%s;" % call)
        elif ins.rtype:
            nalloc[0] += 1
            decls.append("\t%s ret_%d;" % (rt, nalloc[0]))
            body.append("\tret_%d = %s; t_%s = (uint64_t)(uintptr_t)&ret_%d;" % (nalloc[0], call, mangle(ins.res), nalloc[0]))
        else:
            body.append("\tt_%s = %s;" % (mangle(ins.res), call))

    def translate(self):
        self.out = ['#include "rt.h"']
        self.emit_types()
        self.emit_data_decls()
        fo = []
        protos = []
        for f in self.m.funcs:
            protos.append(self.proto(f) + ";")
        # function bodies first into a side buffer so that externs are known
        for f in self.m.funcs:
            fo.extend(self.emit_func(f))
        save = self.out
        self.out = []
        self.emit_data_defs()
        defs = self.out
        self.out = save
        for n, th in sorted(self.externs.items()):
            self.out.append("extern %sunsigned char ref_%s[] __asm__(%s);" % ("__thread " if th else "", mangle(n), cstr(n)))
        self.out.extend(protos)
        self.out.extend(defs)
        self.out.extend(fo)
        return "\n".join(self.out) + "\n"


def translate(mod, target="x86_64-sysv"):
    return Translator(mod, target).translate()
