"""Independent model of C arithmetic for the three LP64 targets (DESIGN 2.5), written from C11 6.2.5/6.3/6.5.

Integer values are Python ints in the type's range; floating values are Python floats (float32 values are kept
rounded).  Every operation reports undefined behaviour instead of picking a result.
"""
import math
import struct


class UB(Exception):
    """The operation has undefined (or for our purposes unusable implementation-defined) behaviour."""


class IntT:
    kind = "int"

    def __init__(self, name, bits, signed, rank, is_bool=False):
        self.name, self.bits, self.signed, self.rank, self.is_bool = name, bits, signed, rank, is_bool
        if is_bool:
            self.min, self.max = 0, 1
        elif signed:
            self.min, self.max = -(1 << (bits - 1)), (1 << (bits - 1)) - 1
        else:
            self.min, self.max = 0, (1 << bits) - 1

    def __repr__(self):
        return self.name

    def has(self, v):
        return self.min <= v <= self.max


class FloatT:
    kind = "float"

    def __init__(self, name, bits):
        self.name, self.bits = name, bits
        self.rank = 100 + bits

    def __repr__(self):
        return self.name


BOOL = IntT("_Bool", 8, False, 1, True)
SCHAR = IntT("signed char", 8, True, 2)
UCHAR = IntT("unsigned char", 8, False, 2)
SHORT = IntT("short", 16, True, 3)
USHORT = IntT("unsigned short", 16, False, 3)
INT = IntT("int", 32, True, 4)
UINT = IntT("unsigned int", 32, False, 4)
LONG = IntT("long", 64, True, 5)
ULONG = IntT("unsigned long", 64, False, 5)
LLONG = IntT("long long", 64, True, 6)
ULLONG = IntT("unsigned long long", 64, False, 6)
FLOAT = FloatT("float", 32)
DOUBLE = FloatT("double", 64)


def char_type(target_signed):
    return IntT("char", 8, bool(target_signed), 2)


def int_types(char_signed):
    return [BOOL, char_type(char_signed), SCHAR, UCHAR, SHORT, USHORT, INT, UINT, LONG, ULONG, LLONG, ULLONG]


def unsigned_of(t):
    return {4: UINT, 5: ULONG, 6: ULLONG}[t.rank]


def f32(x):
    """Round a Python float to the nearest float32 value."""
    if math.isnan(x) or math.isinf(x):
        return x
    try:
        return struct.unpack("<f", struct.pack("<f", x))[0]
    except OverflowError:
        return math.inf if x > 0 else -math.inf


def promote(t, bf_width=None):
    """Integer promotions (6.3.1.1); bf_width: width if the operand is a bit-field."""
    if t.kind != "int":
        return t
    if bf_width is not None:
        if bf_width < 32 or (bf_width == 32 and t.signed):
            return INT
        if bf_width == 32:
            return UINT
        return t
    if t.rank < INT.rank:
        return INT if (t.bits < 32 or t.signed) else UINT
    return t


def common(t1, t2):
    """Usual arithmetic conversions (6.3.1.8) of already promoted types."""
    if t1.kind == "float" or t2.kind == "float":
        if t1 is DOUBLE or t2 is DOUBLE:
            return DOUBLE
        return FLOAT
    if t1 is t2:
        return t1
    if t1.signed == t2.signed:
        return t1 if t1.rank > t2.rank else t2
    s, u = (t1, t2) if t1.signed else (t2, t1)
    if u.rank >= s.rank:
        return u
    if s.bits > u.bits:
        return s
    return unsigned_of(s)


def convert(v, src, dst):
    """Value of (dst)v.  Raises UB for out-of-range float->int; out-of-range int->signed is implementation-defined
    (all supported ABIs wrap), which we model as wrapping."""
    if dst.kind == "int":
        if dst.is_bool:
            if src.kind == "float":
                return 0 if v == 0 else 1   # NaN compares unequal to 0 -> 1
            return 0 if v == 0 else 1
        if src.kind == "float":
            if math.isnan(v) or math.isinf(v):
                raise UB("float->int of nan/inf")
            t = math.trunc(v)
            if not dst.has(t):
                raise UB("float->int out of range")
            return t
        return wrap(v, dst)
    # to floating
    if src.kind == "int":
        x = float(v)   # correctly rounded int->double
        if dst is FLOAT:
            x = int_to_f32(v)
        return x
    if dst is FLOAT:
        r = f32(v)
        if math.isinf(r) and not math.isinf(v):
            raise UB("double->float out of range")
        return r
    return v


def int_to_f32(v):
    """Correctly rounded (single rounding) conversion of an integer to float32."""
    if v == 0:
        return 0.0
    neg = v < 0
    a = -v if neg else v
    n = a.bit_length()
    if n > 24:
        sh = n - 24
        q, r = a >> sh, a & ((1 << sh) - 1)
        half = 1 << (sh - 1)
        if r > half or (r == half and q & 1):
            q += 1
        a = q << sh
    x = float(a)
    return -x if neg else x


def wrap(v, t):
    if t.is_bool:
        return 0 if v == 0 else 1
    m = 1 << t.bits
    v %= m
    if t.signed and v >= m >> 1:
        v -= m
    return v


def fnorm(x, t):
    return f32(x) if t is FLOAT else x


def binop(op, a, ta, b, tb, bfa=None, bfb=None):
    """Evaluate a OP b for arithmetic operands; returns (value, type).  Raises UB."""
    if op in ("&&", "||"):
        x, y = (a != 0), (b != 0)
        return (1 if ((x and y) if op == "&&" else (x or y)) else 0), INT
    if op in ("<<", ">>"):
        if ta.kind != "int" or tb.kind != "int":
            raise UB("shift of non-integer")
        pa, pb = promote(ta, bfa), promote(tb, bfb)
        x, n = convert(a, ta, pa), convert(b, tb, pb)
        if n < 0 or n >= pa.bits:
            raise UB("shift count")
        if op == "<<":
            if pa.signed:
                if x < 0:
                    raise UB("left shift of negative")
                r = x << n
                if not pa.has(r):
                    raise UB("left shift overflow")
                return r, pa
            return wrap(x << n, pa), pa
        return x >> n, pa   # arithmetic shift for negative values: all three ABIs
    pa, pb = promote(ta, bfa), promote(tb, bfb)
    t = common(pa, pb)
    x, y = convert(a, ta, t), convert(b, tb, t)
    if op in ("<", ">", "<=", ">=", "==", "!="):
        r = {"<": x < y, ">": x > y, "<=": x <= y, ">=": x >= y, "==": x == y, "!=": x != y}[op]
        return (1 if r else 0), INT
    if t.kind == "float":
        if op == "+":
            r = x + y
        elif op == "-":
            r = x - y
        elif op == "*":
            r = x * y
        elif op == "/":
            if y == 0:
                if x == 0 or math.isnan(x):
                    r = math.nan
                else:
                    r = math.copysign(math.inf, x) * math.copysign(1.0, y)
            else:
                r = x / y
        else:
            raise UB("bad float op " + op)
        return fnorm(r, t), t
    if op in ("/", "%"):
        if y == 0:
            raise UB("division by zero")
        q = abs(x) // abs(y)
        if (x < 0) != (y < 0):
            q = -q
        if not t.has(q):
            raise UB("division overflow")
        r = q if op == "/" else x - q * y
    elif op == "+":
        r = x + y
    elif op == "-":
        r = x - y
    elif op == "*":
        r = x * y
    elif op == "&":
        r = x & y
    elif op == "|":
        r = x | y
    elif op == "^":
        r = x ^ y
    else:
        raise UB("bad op " + op)
    if t.signed:
        if not t.has(r):
            raise UB("signed overflow")
        return r, t
    return wrap(r, t), t


def unop(op, a, ta, bfa=None):
    if op == "!":
        return (1 if a == 0 else 0), INT
    if ta.kind == "float":
        if op == "-":
            return fnorm(-a, ta), ta
        if op == "+":
            return a, ta
        raise UB("bad float unop")
    pa = promote(ta, bfa)
    x = convert(a, ta, pa)
    if op == "+":
        return x, pa
    if op == "-":
        r = -x
        if pa.signed and not pa.has(r):
            raise UB("negation overflow")
        return wrap(r, pa), pa
    if op == "~":
        return wrap(~x, pa), pa
    raise UB("bad unop")


def literal(v, t):
    """C spelling of value v with exactly type t (for integer types of rank >= int and floating types)."""
    if t.kind == "float":
        if math.isnan(v):
            return "(0.0f/0.0f)" if t is FLOAT else "(0.0/0.0)"
        if math.isinf(v):
            s = "(1.0f/0.0f)" if t is FLOAT else "(1.0/0.0)"
            return "(-%s)" % s if v < 0 else s
        h = float(v).hex()
        if t is FLOAT:
            h += "f"
        return "(%s)" % h if v < 0 or math.copysign(1, v) < 0 else h
    if t.rank < INT.rank:
        return "((%s)%s)" % (t.name, literal(v, INT))
    suf = {4: "", 5: "l", 6: "ll"}[t.rank]
    if not t.signed:
        return "%du%s" % (v, suf)
    if v == t.min:
        return "(-%d%s-1)" % (t.max, suf)
    if v < 0:
        return "(-%d%s)" % (-v, suf)
    return "%d%s" % (v, suf)


def boundary_values(t):
    if t.kind == "float":
        vs = [0.0, -0.0, 1.0, -1.0, 0.5, -2.5, 3.75, 1e10, -1e10, 16777216.0, 16777217.0, 2147483648.0, -2147483649.0,
              4294967296.0, 9007199254740993.0, 9.223372036854775807e18, 1.8446744073709552e19, 1e-30, 123456.789, 0.1, 1e300, -1e300]
        return [fnorm(x, t) for x in vs]
    if t.is_bool:
        return [0, 1]
    vs = {0, 1, 2, 3, 5, 7, 100, t.max, t.max - 1, t.max // 2, t.min, t.min + 1, (t.max >> 1) + 1}
    for k in (7, 8, 15, 16, 31, 32, 33, 63):
        for d in (-1, 0, 1):
            for s in (1, -1):
                x = s * ((1 << k) + d)
                if t.has(x):
                    vs.add(x)
    if t.signed:
        vs.update([-1, -2, -3, -100])
    return sorted(v for v in vs if t.has(v))
