"""Minimal ELF64 little-endian relocatable-object reader: sections, symbols, RELA relocations."""
import struct


class Section:
    __slots__ = ("idx", "name", "type", "flags", "off", "size", "link", "info", "align", "entsize", "data")


class Symbol:
    __slots__ = ("name", "bind", "type", "shndx", "value", "size", "vis", "section")

    def __repr__(self):
        return "<sym %s %s %s sec=%s size=%d>" % (self.name, self.bind, self.type, self.section, self.size)


BIND = {0: "LOCAL", 1: "GLOBAL", 2: "WEAK"}
TYPE = {0: "NOTYPE", 1: "OBJECT", 2: "FUNC", 3: "SECTION", 4: "FILE", 5: "COMMON", 6: "TLS"}
SHN_UNDEF, SHN_ABS, SHN_COMMON = 0, 0xfff1, 0xfff2


class Elf:
    def __init__(self, data):
        if data[:4] != b"\x7fELF" or data[4] != 2 or data[5] != 1:
            raise ValueError("not an ELF64 LE object")
        self.data = data
        self.machine = struct.unpack_from("<H", data, 18)[0]
        shoff = struct.unpack_from("<Q", data, 0x28)[0]
        shentsize, shnum, shstrndx = struct.unpack_from("<HHH", data, 0x3a)
        self.sections = []
        for i in range(shnum):
            f = struct.unpack_from("<IIQQQQIIQQ", data, shoff + i * shentsize)
            s = Section()
            s.idx = i
            (nameoff, s.type, s.flags, _addr, s.off, s.size, s.link, s.info, s.align, s.entsize) = f
            s.name = nameoff
            s.data = b"" if s.type == 8 else data[s.off:s.off + s.size]
            self.sections.append(s)
        strtab = self.sections[shstrndx].data
        for s in self.sections:
            s.name = _cstr(strtab, s.name)
        self.symbols = []
        self.symtab_idx = None
        for s in self.sections:
            if s.type == 2:  # SYMTAB
                self.symtab_idx = s.idx
                st = self.sections[s.link].data
                for j in range(s.size // 24):
                    nm, info, other, shndx, value, size = struct.unpack_from("<IBBHQQ", s.data, j * 24)
                    y = Symbol()
                    y.name = _cstr(st, nm)
                    y.bind = BIND.get(info >> 4, str(info >> 4))
                    y.type = TYPE.get(info & 15, str(info & 15))
                    y.shndx, y.value, y.size, y.vis = shndx, value, size, other & 3
                    y.section = self.sections[shndx].name if 0 < shndx < len(self.sections) else \
                        {SHN_UNDEF: "UND", SHN_ABS: "ABS", SHN_COMMON: "COMMON"}.get(shndx, "?")
                    if y.type == "SECTION" and not y.name and 0 < shndx < len(self.sections):
                        y.name = self.sections[shndx].name
                    self.symbols.append(y)
        self.relocs = {}   # section index -> list of (offset, type, symbol index, addend)
        for s in self.sections:
            if s.type == 4:  # RELA
                lst = self.relocs.setdefault(s.info, [])
                for j in range(s.size // 24):
                    off, info, add = struct.unpack_from("<QQq", s.data, j * 24)
                    lst.append((off, info & 0xffffffff, info >> 32, add))

    def symbol(self, name):
        for y in self.symbols:
            if y.name == name and y.type != "SECTION" and y.type != "FILE":
                return y
        return None

    def defined_symbols(self):
        return [y for y in self.symbols if y.shndx not in (SHN_UNDEF,) and y.type in ("OBJECT", "FUNC", "TLS", "NOTYPE", "COMMON")
                and y.name]

    def undefined_symbols(self):
        return [y for y in self.symbols if y.shndx == SHN_UNDEF and y.name]

    def sym_bytes(self, y):
        """Image of a defined data symbol (zeros for .bss)."""
        if y.shndx in (SHN_UNDEF, SHN_ABS, SHN_COMMON):
            return b"\0" * y.size if y.shndx == SHN_COMMON else None
        s = self.sections[y.shndx]
        if s.type == 8:
            return b"\0" * y.size
        return s.data[y.value:y.value + y.size]

    def sym_relocs(self, y):
        """Relocations inside a data symbol: list of (offset in symbol, target name, addend, target section symbol?)."""
        out = []
        for off, rtype, si, add in self.relocs.get(y.shndx, []):
            if y.value <= off < y.value + max(y.size, 1):
                t = self.symbols[si]
                out.append((off - y.value, rtype, t, add))
        return sorted(out, key=lambda r: r[0])

    def sym_align(self, y):
        if 0 < y.shndx < len(self.sections):
            return self.sections[y.shndx].align
        if y.shndx == SHN_COMMON:
            return y.value
        return None


def _cstr(tab, off):
    e = tab.find(b"\0", off)
    return tab[off:e].decode("utf-8", "replace")


def read(path):
    with open(path, "rb") as f:
        return Elf(f.read())
