"""QBE IL validator: the C03 oracle and the gate of every IL-consuming check (DESIGN 2.2).

validate(text_or_module) -> (module, [error strings]).  Rules re-implement QBE's parser/typecheck/ssacheck
restrictions plus what the property statement lists.  Where QBE's behaviour is uncertain the rule is permissive.
"""
from . import qbeil
from .qbeil import ILSyntaxError

W, L, S, D = "w", "l", "s", "d"

# op -> dict(result class -> (arg0 requirement, arg1 requirement)); requirement: 'w','l','s','d','m' or None (absent)
_AR = {"w": ("w", "w"), "l": ("l", "l"), "s": ("s", "s"), "d": ("d", "d")}
_INT2 = {"w": ("w", "w"), "l": ("l", "l")}
_SH = {"w": ("w", "w"), "l": ("l", "w")}


def _cmp(a):
    return {"w": (a, a), "l": (a, a)}


OPS = {
    "add": _AR, "sub": _AR, "mul": _AR, "div": _AR,
    "neg": {k: (k, None) for k in "wlsd"},
    "udiv": _INT2, "rem": _INT2, "urem": _INT2, "and": _INT2, "or": _INT2, "xor": _INT2,
    "sar": _SH, "shr": _SH, "shl": _SH,
    "loadsb": {"w": ("m", None), "l": ("m", None)}, "loadub": {"w": ("m", None), "l": ("m", None)},
    "loadsh": {"w": ("m", None), "l": ("m", None)}, "loaduh": {"w": ("m", None), "l": ("m", None)},
    "loadsw": {"w": ("m", None), "l": ("m", None)}, "loaduw": {"w": ("m", None), "l": ("m", None)},
    "loadw": {"w": ("m", None), "l": ("m", None)},
    "loadl": {"l": ("m", None)}, "loads": {"s": ("m", None)}, "loadd": {"d": ("m", None)},
    "load": {k: ("m", None) for k in "wlsd"},
    "extsb": {"w": ("w", None), "l": ("w", None)}, "extub": {"w": ("w", None), "l": ("w", None)},
    "extsh": {"w": ("w", None), "l": ("w", None)}, "extuh": {"w": ("w", None), "l": ("w", None)},
    "extsw": {"l": ("w", None)}, "extuw": {"l": ("w", None)},
    "exts": {"d": ("s", None)}, "truncd": {"s": ("d", None)},
    "stosi": {"w": ("s", None), "l": ("s", None)}, "stoui": {"w": ("s", None), "l": ("s", None)},
    "dtosi": {"w": ("d", None), "l": ("d", None)}, "dtoui": {"w": ("d", None), "l": ("d", None)},
    "swtof": {"s": ("w", None), "d": ("w", None)}, "uwtof": {"s": ("w", None), "d": ("w", None)},
    "sltof": {"s": ("l", None), "d": ("l", None)}, "ultof": {"s": ("l", None), "d": ("l", None)},
    "cast": {"w": ("s", None), "l": ("d", None), "s": ("w", None), "d": ("l", None)},
    "copy": {k: (k, None) for k in "wlsd"},
    "alloc4": {"l": ("l", None)}, "alloc8": {"l": ("l", None)}, "alloc16": {"l": ("l", None)},
    "vaarg": {k: ("m", None) for k in "wlsd"},
}
for _c in ("eq", "ne", "sle", "slt", "sge", "sgt", "ule", "ult", "uge", "ugt"):
    OPS["c" + _c + "w"] = _cmp("w")
    OPS["c" + _c + "l"] = _cmp("l")
for _c in ("eq", "ne", "le", "lt", "ge", "gt", "o", "uo"):
    OPS["c" + _c + "s"] = _cmp("s")
    OPS["c" + _c + "d"] = _cmp("d")

# no-result ops: (arg0 req, arg1 req)
VOIDOPS = {
    "storeb": ("w", "m"), "storeh": ("w", "m"), "storew": ("w", "m"), "storel": ("l", "m"),
    "stores": ("s", "m"), "stored": ("d", "m"), "vastart": ("m", None),
    "blit": ("m", "m"), "dbgloc": (None, None),
}


def _arg_ok(v, req, tmpcls):
    """Does value v satisfy operand requirement req?  Returns None if ok else a reason."""
    if req == "m":
        req = "l"
    if v.kind == "tmp":
        c = tmpcls.get(v.v)
        if c is None:
            return "use of undefined temporary %%%s" % v.v
        if c == req:
            return None
        if req == "w" and c == "l":
            return None
        return "temporary %%%s of class %s where %s is required" % (v.v, c, req)
    if v.kind == "int":
        return None
    if v.kind == "flt":
        if req in ("s", "d"):
            return None
        return "floating constant where %s is required" % req
    if v.kind == "glo":
        if req in ("l", "w"):
            return None
        return "global $%s where %s is required" % (v.v, req)
    return "bad value"


def _abi_base(ty):
    if ty in ("sb", "ub", "sh", "uh", "b", "h"):
        return "w"
    if ty.startswith(":") or ty == "env":
        return "l"
    return ty


def check_func(mod, f, errors, defined_types_before=None):
    E = lambda line, msg: errors.append("function $%s line %s: %s" % (f.name, line, msg))
    names = {}
    for i, b in enumerate(f.blocks):
        if b.name in names:
            E(b.line, "label @%s defined twice" % b.name)
        names[b.name] = i
    if not f.blocks:
        E(f.line, "function without blocks")
        return
    # 2. single definition + classes
    tmpcls = {}
    defblk = {}   # tmp -> (block index, position) ; position -1 = phi/param
    for ty, t in f.params:
        if t in tmpcls:
            E(f.line, "parameter %%%s defined twice" % t)
        tmpcls[t] = _abi_base(ty)
        defblk[t] = (0, -2)
        if ty.startswith(":") and ty[1:] not in mod.types:
            E(f.line, "parameter type %s is not defined" % ty)
    if f.rettype and f.rettype[1:] not in mod.types:
        E(f.line, "return type %s is not defined" % f.rettype)
    for bi, b in enumerate(f.blocks):
        for p in b.phis:
            if p.res in tmpcls:
                E(p.line, "temporary %%%s defined more than once" % p.res)
            tmpcls[p.res] = p.cls
            defblk[p.res] = (bi, -1)
        for k, ins in enumerate(b.insts):
            if ins.res is not None:
                if ins.res in tmpcls:
                    E(ins.line, "temporary %%%s defined more than once" % ins.res)
                tmpcls[ins.res] = ins.cls
                defblk[ins.res] = (bi, k)
    # 6. labels, CFG
    succ = []
    for bi, b in enumerate(f.blocks):
        j = b.jump
        s = []
        if j is None:
            if bi + 1 < len(f.blocks):
                s = [bi + 1]
            else:
                E(b.line, "last block @%s falls off the end of the function" % b.name)
        elif j[0] == "jmp":
            if j[1] not in names:
                E(b.line, "jmp to undefined label @%s" % j[1])
            else:
                s = [names[j[1]]]
        elif j[0] == "jnz":
            for l in (j[2], j[3]):
                if l not in names:
                    E(b.line, "jnz to undefined label @%s" % l)
                else:
                    s.append(names[l])
        succ.append(s)
    n = len(f.blocks)
    preds = [set() for _ in range(n)]
    for bi, s in enumerate(succ):
        for x in s:
            preds[x].add(bi)
    # reachability + dominators (iterative, on reachable blocks)
    reach = set()
    stack = [0]
    order = []
    while stack:
        x = stack.pop()
        if x in reach:
            continue
        reach.add(x)
        order.append(x)
        stack.extend(succ[x])
    # reverse postorder
    seen = set()
    post = []

    def dfs(root):
        st = [(root, iter(succ[root]))]
        seen.add(root)
        while st:
            node, it = st[-1]
            adv = False
            for y in it:
                if y not in seen:
                    seen.add(y)
                    st.append((y, iter(succ[y])))
                    adv = True
                    break
            if not adv:
                post.append(node)
                st.pop()
    dfs(0)
    rpo = post[::-1]
    rnum = {b: i for i, b in enumerate(rpo)}
    idom = {0: 0}
    changed = True
    while changed:
        changed = False
        for b in rpo[1:]:
            new = None
            for p in preds[b]:
                if p in idom:
                    if new is None:
                        new = p
                    else:
                        x, y = p, new
                        while x != y:
                            while rnum[x] > rnum[y]:
                                x = idom[x]
                            while rnum[y] > rnum[x]:
                                y = idom[y]
                        new = x
            if new is not None and idom.get(b) != new:
                idom[b] = new
                changed = True

    def dominates(a, b):
        # does block a dominate block b (both reachable)
        while True:
            if a == b:
                return True
            if b == 0 or b not in idom:
                return False
            b = idom[b]

    def use_ok(v, bi, pos, line, what):
        if v.kind != "tmp":
            return
        d = defblk.get(v.v)
        if d is None:
            E(line, "%s uses undefined temporary %%%s" % (what, v.v))
            return
        if bi not in reach:
            return
        db, dp = d
        if db == bi:
            if dp < pos:
                return
            E(line, "%s uses %%%s before its definition in the same block" % (what, v.v))
        elif db in reach and dominates(db, bi):
            return
        else:
            E(line, "%s uses %%%s whose definition does not dominate the use" % (what, v.v))

    retcls = _abi_base(f.retcls) if f.retcls else None
    for bi, b in enumerate(f.blocks):
        # 4. phis
        for p in b.phis:
            labs = [l for l, _ in p.args]
            if len(set(labs)) != len(labs):
                E(p.line, "multiple entries for one label in phi %%%s" % p.res)
            want = {f.blocks[x].name for x in preds[bi]}
            if set(labs) != want:
                E(p.line, "predecessors not matched in phi %%%s: phi names %s, predecessors are %s"
                  % (p.res, sorted(labs), sorted(want)))
            if p.cls not in "wlsd":
                E(p.line, "bad phi class")
            for l, v in p.args:
                r = _arg_ok(v, p.cls, tmpcls)
                if r:
                    E(p.line, "phi %%%s: %s" % (p.res, r))
                if l in names:
                    use_ok(v, names[l], 1 << 60, p.line, "phi %%%s (from @%s)" % (p.res, l))
        for k, ins in enumerate(b.insts):
            op = ins.op
            if op == "call":
                tgt = ins.args[0]
                r = _arg_ok(tgt, "l", tmpcls)
                if r:
                    E(ins.line, "call target: " + r)
                use_ok(tgt, bi, k, ins.line, "call")
                if ins.rtype and ins.rtype[1:] not in mod.types:
                    E(ins.line, "call returns undefined type %s" % ins.rtype)
                for ty, v in ins.cargs:
                    if ty.startswith(":"):
                        if ty[1:] not in mod.types:
                            E(ins.line, "argument of undefined type %s" % ty)
                    r = _arg_ok(v, _abi_base(ty), tmpcls)
                    if r:
                        E(ins.line, "call argument: " + r)
                    use_ok(v, bi, k, ins.line, "call argument")
                continue
            if op in VOIDOPS:
                if ins.res is not None:
                    E(ins.line, "%s must not have a result" % op)
                reqs = VOIDOPS[op]
            elif op in OPS:
                if ins.res is None:
                    E(ins.line, "%s needs a result" % op)
                    continue
                tab = OPS[op]
                if ins.cls not in tab:
                    E(ins.line, "result class %s is invalid for %s" % (ins.cls, op))
                    continue
                reqs = tab[ins.cls]
            else:
                E(ins.line, "unknown instruction %s" % op)
                continue
            nreq = sum(1 for r in reqs if r is not None)
            if op != "dbgloc" and len(ins.args) != nreq:
                E(ins.line, "%s takes %d operand(s), %d given" % (op, nreq, len(ins.args)))
                continue
            for v, req in zip(ins.args, reqs):
                if req is None:
                    continue
                r = _arg_ok(v, req, tmpcls)
                if r:
                    E(ins.line, "%s: %s" % (op, r))
                use_ok(v, bi, k, ins.line, op)
        j = b.jump
        if j is not None:
            if j[0] == "jnz":
                r = _arg_ok(j[1], "w", tmpcls)
                if r:
                    E(b.line, "jnz: " + r)
                use_ok(j[1], bi, 1 << 60, b.line, "jnz")
            elif j[0] == "ret":
                if j[1] is None:
                    # QBE accepts a bare `ret` in a value-returning function (C: falling off the end)
                    pass
                else:
                    if retcls is None:
                        E(b.line, "ret with a value in a function without return class")
                    else:
                        r = _arg_ok(j[1], retcls, tmpcls)
                        if r:
                            E(b.line, "ret: " + r)
                    use_ok(j[1], bi, 1 << 60, b.line, "ret")


def validate(text):
    """Returns (module or None, errors)."""
    errors = []
    try:
        mod = text if isinstance(text, qbeil.Module) else qbeil.parse(text)
    except ILSyntaxError as e:
        return None, ["syntax: %s" % e]
    # 7. types defined before use (textual order)
    seen_types = set()
    symbols = {}
    funcs = {}
    for kind, obj in mod.order:
        if kind == "type":
            for alt in (obj.fields if obj.is_union else [obj.fields]):
                for ty, cnt in alt:
                    if ty.startswith(":") and ty[1:] not in seen_types:
                        errors.append("type :%s line %d: member type %s is not defined before use" % (obj.name, obj.line, ty))
                    if cnt < 0:
                        errors.append("type :%s: negative count" % obj.name)
            if obj.align is not None and (obj.align <= 0 or obj.align & (obj.align - 1)):
                errors.append("type :%s: alignment %d is not a power of two" % (obj.name, obj.align))
            seen_types.add(obj.name)
        elif kind == "data":
            if obj.name in symbols:
                errors.append("symbol $%s defined twice (line %d)" % (obj.name, obj.line))
            symbols[obj.name] = "data"
            if obj.align is not None and (obj.align <= 0 or obj.align & (obj.align - 1)):
                errors.append("data $%s: alignment %s is not a power of two" % (obj.name, obj.align))
            for it in obj.items:
                if it.kind == "flt" and it.cls not in ("s", "d"):
                    errors.append("data $%s: floating constant in %s item" % (obj.name, it.cls))
                if it.kind == "flt" and it.cls != it.value[0]:
                    errors.append("data $%s: %s_ constant in %s item" % (obj.name, it.value[0], it.cls))
                if it.kind == "sym" and it.cls != "l":
                    errors.append("data $%s: symbol address in %s item" % (obj.name, it.cls))
                if it.kind == "zero" and it.value < 0:
                    errors.append("data $%s: negative z" % obj.name)
        else:
            f = obj
            if f.name in symbols:
                errors.append("symbol $%s defined twice (line %d)" % (f.name, f.line))
            symbols[f.name] = "func"
            funcs[f.name] = f
            used = set()
            if f.rettype:
                used.add(f.rettype[1:])
            for ty, _ in f.params:
                if ty.startswith(":"):
                    used.add(ty[1:])
            for b in f.blocks:
                for ins in b.insts:
                    if ins.rtype:
                        used.add(ins.rtype[1:])
                    for ty, _ in (ins.cargs or []):
                        if ty.startswith(":"):
                            used.add(ty[1:])
            for u in sorted(used):
                if u not in seen_types:
                    errors.append("function $%s: type :%s is used before it is defined" % (f.name, u))
            check_func(mod, f, errors)
    # 7b. a global is referenced with the `thread` marker exactly if it is thread-local data (consistently across the module,
    #     and in agreement with its definition when the module defines it)
    tls_def = {d.name: bool(d.thread) for d in mod.data}
    seen_ref = {}
    for f in mod.funcs:
        for b in f.blocks:
            vals = []
            for ins in b.insts:
                vals.extend(ins.args)
                vals.extend(v for _, v in (ins.cargs or []))
            for p_ in b.phis:
                vals.extend(v for _, v in p_.args)
            if b.jump and len(b.jump) > 1 and b.jump[1] is not None and hasattr(b.jump[1], "kind"):
                vals.append(b.jump[1])
            for v in vals:
                if getattr(v, "kind", None) != "glo":
                    continue
                th = bool(getattr(v, "thread", False))
                if v.v in tls_def and tls_def[v.v] != th:
                    errors.append("function $%s: $%s is %sthread-local data but is referenced %s the thread marker"
                                  % (f.name, v.v, "" if tls_def[v.v] else "not ", "without" if tls_def[v.v] else "with"))
                elif v.v in funcs and th:
                    errors.append("function $%s: function $%s referenced with the thread marker" % (f.name, v.v))
                elif seen_ref.setdefault(v.v, th) != th:
                    errors.append("function $%s: $%s is referenced both with and without the thread marker" % (f.name, v.v))
    for d in mod.data:
        for it in d.items:
            if it.kind == "sym" and it.sym in tls_def and tls_def[it.sym] != bool(it.thread):
                errors.append("data $%s: address of $%s with inconsistent thread marker" % (d.name, it.sym))
    # 7c. a compiler-generated local symbol ($.L...) cannot be defined by another unit: every reference needs a definition here
    for name in sorted(seen_ref) + sorted({it.sym for d in mod.data for it in d.items if it.kind == "sym"}):
        if name.startswith(".L") and name not in tls_def and name not in funcs:
            msg = "local symbol $%s is referenced but the module does not define it" % name
            if msg not in errors:
                errors.append(msg)
    # 8. calls to functions defined in this module agree with the definition
    for f in mod.funcs:
        for b in f.blocks:
            for ins in b.insts:
                if ins.op != "call" or ins.args[0].kind != "glo":
                    continue
                g = funcs.get(ins.args[0].v)
                if g is None:
                    continue
                where = "function $%s line %d: call of $%s" % (f.name, ins.line, g.name)
                want = [ty for ty, _ in g.params]
                got = [ty for ty, _ in ins.cargs]
                nfixed = len(want)
                if g.variadic:
                    if ins.variadic_at is None:
                        errors.append("%s: callee is variadic but the call has no '...' marker" % where)
                    elif ins.variadic_at != nfixed:
                        errors.append("%s: '...' marker after %d arguments, callee has %d named parameters"
                                      % (where, ins.variadic_at, nfixed))
                    if len(got) < nfixed:
                        errors.append("%s: too few arguments" % where)
                else:
                    if ins.variadic_at is not None and ins.variadic_at != len(got):
                        errors.append("%s: '...' marker in call of non-variadic function" % where)
                    if len(got) != nfixed:
                        errors.append("%s: %d arguments for %d parameters" % (where, len(got), nfixed))
                for a, b2 in zip(got, want):
                    if _abi_base(a) != _abi_base(b2) or (a.startswith(":") or b2.startswith(":")) and a != b2:
                        errors.append("%s: argument class %s does not match parameter %s" % (where, a, b2))
                gr = g.rettype or g.retcls
                cr = ins.rtype or ins.cls
                if cr is not None and gr is None:
                    errors.append("%s: result taken from a function without return value" % where)
                elif cr is not None and (_abi_base(cr) != _abi_base(gr) or (cr.startswith(":") or gr.startswith(":")) and cr != gr):
                    errors.append("%s: result class %s but the function returns %s" % (where, cr, gr))
    return mod, errors


def selftest():
    ok = """
type :s.1 = { w, l 2, }
export data $g = align 4 { w 5, z 4 }
export
function w $f(w %a, :s.1 %p) {
@start
	%b =w add %a, 1
	jnz %b, @t, @e
@t
	%c =w copy 1
	jmp @j
@e
	%d =w copy 2
@j
	%r =w phi @t %c, @e %d
	%q =w call $f(w %r, :s.1 %p)
	ret %q
}
"""
    m, e = validate(ok)
    assert not e, e
    bad = [
        ("%b =w add %a, 1", "%b =w add %a, 1\n\t%b =w add %a, 2", "more than once"),
        ("jmp @j", "jmp @nowhere", "undefined label"),
        ("@t %c, @e %d", "@t %c, @start %d", "predecessors not matched"),
        ("%r =w phi @t %c, @e %d", "%r =w phi @t %c, @e %c", "does not dominate"),
        ("%b =w add %a, 1", "%b =l extsw %a\n\t%z =s add %b, %b", "class"),
        ("call $f(w %r, :s.1 %p)", "call $f(w %r)", "arguments for"),
        ("call $f(w %r, :s.1 %p)", "call $f(l %p, :s.1 %p)", "does not match"),
        ("type :s.1 = { w, l 2, }\n", "", "not defined"),
        ("\tret %q\n", "", "falls off"),
        ("%c =w copy 1", "%c =w copy %d", "does not dominate"),
        ("export data $g = align 4 { w 5, z 4 }", "export data $g = align 4 { w 5, z 4 }\ndata $g = { w 1 }", "defined twice"),
        ("%b =w add %a, 1", "%b =w add %a, 1\n\tjmp @t\n\t%x =w copy 1", "syntax"),
        ("%b =w add %a, 1", "%b =w frob %a, 1", "unknown instruction"),
        ("%q =w call", "%q =d call", "returns"),
    ]
    for old, new, needle in bad:
        assert old in ok, old
        m, e = validate(ok.replace(old, new, 1))
        assert e and any(needle in x for x in e), (new, e)
