"""Reference compilers (DESIGN 2.4): clang --target objects for the three cproc targets, host gcc/clang executions,
reference preprocessors."""
import os

from . import elfread
from .cproc import CLANG_TRIPLE, SIGNED_CHAR, WCHAR_SIGNED
from .runner import run

ENV = {"PATH": "/usr/local/bin:/usr/bin:/bin", "LC_ALL": "C"}


def target_flags(target, cc="clang"):
    fl = ["-fsigned-char" if SIGNED_CHAR[target] else "-funsigned-char"]
    if cc == "clang":
        fl += ["-Xclang", "-fwchar-type=int", "-Xclang", "-fsigned-wchar" if WCHAR_SIGNED[target] else "-fno-signed-wchar"]
    return fl


def _strict(cmd):
    """-w silences the diagnostics that -pedantic-errors would turn into errors (gcc and clang alike): a command that asks for
    the strict reading must not carry it."""
    if "-pedantic-errors" in cmd:
        cmd = [a for a in cmd if a != "-w"]
    return cmd


def clang_obj(src_path, obj_path, target, std="c11", extra=(), timeout=60):
    """Compile freestanding C for a cproc target; returns (Elf or None, stderr)."""
    cmd = ["clang", "--target=" + CLANG_TRIPLE[target], "-std=" + std, "-c", "-O0", "-w", "-fno-common", "-fdata-sections",
           "-ffunction-sections", "-ffreestanding", "-fno-pic", "-fno-builtin"] + \
          (["-mcmodel=medany"] if target == "riscv64" else []) + list(extra) + ["-o", obj_path, src_path]
    cmd = _strict(cmd)
    p = run(cmd, env=ENV, timeout=timeout)
    if p.rc != 0 or p.timeout:
        return None, p.err.decode(errors="replace")
    return elfread.read(obj_path), ""


def gcc_obj(src_path, obj_path, std="c11", extra=(), timeout=60):
    cmd = ["gcc", "-std=" + std, "-c", "-O0", "-w", "-fno-common", "-fdata-sections", "-ffunction-sections",
           "-fno-pic", "-fno-pie", "-fno-builtin"] + list(extra) + ["-o", obj_path, src_path]
    cmd = _strict(cmd)
    p = run(cmd, env=ENV, timeout=timeout)
    if p.rc != 0 or p.timeout:
        return None, p.err.decode(errors="replace")
    return elfread.read(obj_path), ""


def syntax_ok(src_path, cc="gcc", std="c11", pedantic=True, extra=(), timeout=60):
    """Does the reference accept the unit (with -pedantic-errors)?"""
    cmd = _strict([cc, "-std=" + std, "-fsyntax-only", "-w"] + (["-pedantic-errors"] if pedantic else []) + list(extra) + [src_path])
    p = run(cmd, env=ENV, timeout=timeout)
    return p.rc == 0, p.err.decode(errors="replace")
