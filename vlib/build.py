"""Build variants of /repo's *current working tree* (DESIGN 2.1).

Every build goes through the repository's own Makefile with an out-of-tree
object directory, so files added to SRC are picked up.  A build is keyed by the
SHA-256 of all source bytes + flags; a cache hit is only possible for
byte-identical sources, so "rebuild from the current tree" holds.
"""
import fcntl
import hashlib
import os
import shutil
import subprocess
import sys
import time

REPO = os.environ.get("VERIF_REPO", "/repo")
VERIF = os.path.dirname(os.path.dirname(os.path.abspath(__file__)))
CACHE = os.path.join(VERIF, ".cache", "build")

GUARD = "CPROC_VERIF"

SAN = ("-fsanitize=address,undefined -fno-sanitize=pointer-overflow "
       "-fno-sanitize-recover=undefined -fno-omit-frame-pointer")

VARIANTS = {
    # name: (CC, CFLAGS, LDFLAGS)
    "plain": ("gcc", "-O1 -g -std=c99 -w", ""),
    "hook": ("gcc", "-O1 -g -std=c99 -w -D%s" % GUARD, ""),
    "asan": ("clang", "-O1 -g -std=c99 -w -D%s %s" % (GUARD, SAN), SAN),
    "msan": ("clang", "-O1 -g -std=c99 -w -fsanitize=memory -fno-omit-frame-pointer "
             "-fsanitize-memory-track-origins", "-fsanitize=memory"),
    "fuzzobj": ("clang", "-O1 -g -std=c99 -w -D%s -Dmain=cproc_main -Dexit=verif_exit "
                "-fsanitize=fuzzer-no-link,address,undefined -fno-sanitize=pointer-overflow "
                "-fno-sanitize-recover=undefined" % GUARD, ""),
}

if os.environ.get("VERIF_COV"):
    # development aid (DESIGN 11.8): gcov-instrumented plain/hook builds, to see which lines of cproc the generators reach
    for _v in ("plain", "hook"):
        _cc, _cf, _lf = VARIANTS[_v]
        VARIANTS[_v] = (_cc, _cf + " --coverage", (_lf + " --coverage").strip())


class TreeViolation(Exception):
    """Raised while a check prepares itself when what fails IS the property (C02: the compiler cannot compile its own sources, or emits
    malformed IL for them, so no stage 2 exists): reported as a violation with a replay, not as a machinery error."""

    def __init__(self, msg, case):
        Exception.__init__(self, msg)
        self.msg = msg
        self.case = case


class BuildError(Exception):
    pass


def source_files():
    out = []
    for n in sorted(os.listdir(REPO)):
        if n.endswith((".c", ".h")) or n in ("Makefile", "config.mk"):
            out.append(os.path.join(REPO, n))
    return out


def tree_hash(extra=""):
    h = hashlib.sha256()
    for p in source_files():
        h.update(os.path.basename(p).encode() + b"\0")
        with open(p, "rb") as f:
            h.update(f.read())
        h.update(b"\0")
    h.update(extra.encode())
    return h.hexdigest()[:24]


def _trim_cache(keep):
    try:
        ents = [(os.path.getmtime(os.path.join(CACHE, d)), d) for d in os.listdir(CACHE)
                if os.path.isdir(os.path.join(CACHE, d))]
    except OSError:
        return
    ents.sort(reverse=True)
    # a concurrently running check may still use an older build: only builds untouched for three hours are dropped
    now = time.time()
    for mt, d in ents[40:]:
        if d != keep and now - mt > 3 * 3600:
            shutil.rmtree(os.path.join(CACHE, d), ignore_errors=True)


def build(variant, target="cproc-qbe"):
    """Return path of the built binary (or object dir for fuzzobj)."""
    cc, cflags, ldflags = VARIANTS[variant]
    key = tree_hash(variant + cc + cflags + ldflags + target)
    d = os.path.join(CACHE, key)
    os.makedirs(CACHE, exist_ok=True)
    lock = open(os.path.join(CACHE, key + ".lock"), "w")
    fcntl.flock(lock, fcntl.LOCK_EX)
    try:
        ok = os.path.join(d, ".ok")
        if os.path.exists(ok):
            os.utime(d)
            return os.path.join(d, target) if target != "objs" else d
        shutil.rmtree(d, ignore_errors=True)
        os.makedirs(d)
        if target == "objs":
            # objects only (for the libFuzzer harness)
            objs = _make_objs(d, cc, cflags)
        else:
            cmd = ["make", "-s", "-C", REPO, "-j8", "objdir=" + d, "CC=" + cc,
                   "CFLAGS=" + cflags, "LDFLAGS=" + ldflags, os.path.join(d, target)]
            r = subprocess.run(cmd, stdin=subprocess.DEVNULL, stdout=subprocess.PIPE,
                               stderr=subprocess.STDOUT, timeout=600)
            if r.returncode != 0:
                shutil.rmtree(d, ignore_errors=True)
                raise BuildError("build of %s failed:\n%s" % (variant, r.stdout.decode(errors="replace")[-4000:]))
        open(ok, "w").close()
        _trim_cache(key)
        return os.path.join(d, target) if target != "objs" else d
    finally:
        fcntl.flock(lock, fcntl.LOCK_UN)
        lock.close()


def _make_objs(d, cc, cflags):
    # the object list of cproc-qbe comes from a dry run of the repository's Makefile
    exe = os.path.join(d, "cproc-qbe")
    r = subprocess.run(["make", "-n", "-C", REPO, "objdir=" + d, "CC=" + cc, "CFLAGS=" + cflags, exe],
                       stdin=subprocess.DEVNULL, stdout=subprocess.PIPE, stderr=subprocess.STDOUT, timeout=600)
    objs = []
    for ln in r.stdout.decode(errors="replace").splitlines():
        w = ln.split()
        if "-o" in w and w[w.index("-o") + 1] == exe:
            objs = [x for x in w if x.endswith(".o")]
    if not objs:
        raise BuildError("cannot find object list:\n" + r.stdout.decode(errors="replace")[-2000:])
    r = subprocess.run(["make", "-s", "-C", REPO, "-j8", "objdir=" + d, "CC=" + cc, "CFLAGS=" + cflags] + objs,
                       stdin=subprocess.DEVNULL, stdout=subprocess.PIPE, stderr=subprocess.STDOUT, timeout=600)
    if r.returncode != 0:
        raise BuildError("object build failed:\n" + r.stdout.decode(errors="replace")[-4000:])
    with open(os.path.join(d, "objs.txt"), "w") as f:
        f.write("\n".join(objs))
    return objs


def build_driver(triple, extra_cflags="", toolnames=None):
    """Build a copy of driver.c/util.c next to a generated config.h (DESIGN C17).

    Tool commands are bare stub names with a marker base argument."""
    tn = toolnames or {"cpp": "vstub-cpp", "qbe": "vstub-qbe", "as": "vstub-as", "ld": "vstub-ld"}
    cfg = (
        'static const char target[] = "%s";\n'
        'static const char *const startfiles[] = {"-l", ":crt1.o", "-l", ":crti.o"};\n'
        'static const char *const endfiles[] = {"-l", "c", "-l", ":crtn.o"};\n'
        'static const char *const preprocesscmd[] = {"%s", "-BASEPP"};\n'
        'static const char *const codegencmd[] = {"%s", "-BASEQBE"};\n'
        'static const char *const assemblecmd[] = {"%s", "-BASEAS"};\n'
        'static const char *const linkcmd[] = {"%s", "-BASELD"};\n'
    ) % (triple, tn["cpp"], tn["qbe"], tn["as"], tn["ld"])
    key = tree_hash("driver" + cfg + extra_cflags)
    d = os.path.join(CACHE, key)
    os.makedirs(CACHE, exist_ok=True)
    lock = open(os.path.join(CACHE, key + ".lock"), "w")
    fcntl.flock(lock, fcntl.LOCK_EX)
    try:
        exe = os.path.join(d, "cproc")
        if os.path.exists(os.path.join(d, ".ok")):
            os.utime(d)
            return exe
        shutil.rmtree(d, ignore_errors=True)
        os.makedirs(d)
        for n in ("driver.c", "util.c", "util.h"):
            shutil.copy(os.path.join(REPO, n), os.path.join(d, n))
        with open(os.path.join(d, "config.h"), "w") as f:
            f.write(cfg)
        cmd = ["gcc", "-O1", "-g", "-w", "-D" + GUARD] + extra_cflags.split() + \
              ["-o", exe, os.path.join(d, "driver.c"), os.path.join(d, "util.c")]
        r = subprocess.run(cmd, stdin=subprocess.DEVNULL, stdout=subprocess.PIPE, stderr=subprocess.STDOUT, timeout=300)
        if r.returncode != 0:
            shutil.rmtree(d, ignore_errors=True)
            raise BuildError("driver build failed:\n" + r.stdout.decode(errors="replace")[-4000:])
        open(os.path.join(d, ".ok"), "w").close()
        return exe
    finally:
        fcntl.flock(lock, fcntl.LOCK_UN)
        lock.close()


if __name__ == "__main__":
    t0 = time.time()
    for v in sys.argv[1:] or ["plain"]:
        print(v, build(v), "%.1fs" % (time.time() - t0))
