"""libFuzzer fork-harness campaign for C19 (DESIGN C19 source 1)."""
import glob
import os
import re
import shutil
import subprocess

from .. import build, cproc
from ..runner import Result, Source, run, sha

DICT = sorted(set(
    """_Alignas _Alignof _Atomic _Bool _Complex _Generic _Noreturn _Static_assert _Thread_local __alignof__ __asm__
__attribute__ __inline __signed__ __thread __typeof__ __volatile__ alignas alignof auto bool break case char const
constexpr continue default do double else enum extern false float for goto if inline int long nullptr register
restrict return short signed sizeof static static_assert struct switch thread_local true typedef typeof
typeof_unqual union unsigned void volatile while __builtin_alloca __builtin_constant_p __builtin_expect
__builtin_inff __builtin_nanf __builtin_offsetof __builtin_types_compatible_p __builtin_unreachable
__builtin_va_arg __builtin_va_copy __builtin_va_end __builtin_va_list __builtin_va_start __VA_ARGS__ __func__
#define #undef #line #pragma #include #if #error ## ... -> ++ -- << >> <= >= == != && || *= /= %= += -= <<= >>= &= ^= |= ::
[[ ]] (( )) {{ }} packed aligned gnu:: 0x 0b 1e 1.0f 0x1p 'a' '\\\\0' '\\\\x "a" L" u8" u" U" L' [*] [static (void) {0} .a= [0]=
main 0xffffffffffffffff 18446744073709551615 2147483648 -1""".split()))


def prepare(ctx):
    d = build.build("fuzzobj", target="objs")
    exe = os.path.join(d, "fuzzbin")
    if not os.path.exists(exe):
        objs = open(os.path.join(d, "objs.txt")).read().split()
        h = os.path.join(d, "fuzz_harness.o")
        r = subprocess.run(["clang", "-c", "-O1", "-g", "-fsanitize=address", "-o", h,
                            os.path.join(build.VERIF, "native", "fuzz_harness.c")],
                           stdin=subprocess.DEVNULL, stdout=subprocess.PIPE, stderr=subprocess.STDOUT)
        if r.returncode != 0:
            raise build.BuildError("fuzz harness compile failed:\n" + r.stdout.decode(errors="replace"))
        r = subprocess.run(["clang", "-fsanitize=fuzzer,address,undefined", "-o", exe + ".tmp", h] + objs,
                           stdin=subprocess.DEVNULL, stdout=subprocess.PIPE, stderr=subprocess.STDOUT)
        if r.returncode != 0:
            raise build.BuildError("fuzz harness link failed:\n" + r.stdout.decode(errors="replace")[-3000:])
        os.rename(exe + ".tmp", exe)
    ctx.builds["fuzzbin"] = exe


RUNS = {"quick": 12000, "thorough": 1500000}


def fuzz_enum(ctx):
    for i in range(16):
        yield {"job": i, "empty_corpus": i == 15}


def fuzz_check(case, ctx):
    """One libFuzzer job; every input whose child did not end with exit 0/1/2 is re-judged with the asan binary."""
    from . import c19
    res = Result()
    d = os.path.join(ctx.wdir(), "fuzz%d" % case["job"])
    shutil.rmtree(d, ignore_errors=True)
    corpus, seeds, art = os.path.join(d, "corpus"), os.path.join(d, "seeds"), os.path.join(d, "art")
    for x in (corpus, seeds, art):
        os.makedirs(x)
    if not case["empty_corpus"]:
        for i, f in enumerate(ctx.data["corpus"]):
            with open(f, "rb") as fh:
                data = fh.read()
            name = os.path.basename(f)
            t = {"x86_64-sysv": 0, "aarch64": 1, "riscv64": 2}[c19._args_for(f)]
            pp = 3 if os.path.exists(f[:-2] + ".pp") else 0
            with open(os.path.join(seeds, name), "wb") as o:
                o.write(bytes([t + pp]) + data)
    dic = os.path.join(d, "dict")
    with open(dic, "w") as f:
        for w in DICT:
            f.write('"%s"\n' % w.replace("\\", "\\\\").replace('"', '\\"'))
    env = dict(cproc.BASE_ENV)
    env["VERIF_FUZZ_ART"] = art
    runs = RUNS[ctx.tier]
    cmd = [ctx.builds["fuzzbin"], "-seed=%d" % (ctx.seed * 100 + case["job"] + 1), "-runs=%d" % runs,
           "-max_len=3000", "-len_control=50", "-dict=" + dic, "-print_final_stats=1", "-timeout=60", "-rss_limit_mb=3000",
           "-artifact_prefix=" + art + "/lf-", "-verbosity=0", corpus, seeds]
    p = run(cmd, env=env, timeout=36000 if ctx.tier == "thorough" else 1500, cwd=d)
    err = p.err.decode(errors="replace")
    m = re.search(r"stat::number_of_executed_units:\s*(\d+)", err)
    res.n = int(m.group(1)) if m else 0
    m = re.search(r"stat::new_units_added:\s*(\d+)", err)
    new_units = int(m.group(1)) if m else 0
    for f in sorted(os.listdir(corpus))[:1 << 20]:
        res.keys.append(f[:16])
    res.labels.append("fuzz-job")
    res.sample = {"source": "fuzz", "job": case["job"], "execs": res.n, "new_units": new_units,
                  "corpus_files": len(os.listdir(corpus))}
    if p.timeout or (p.rc != 0 and not os.listdir(art)):
        res.discard.append("fuzz-job-ended-rc-%s" % p.rc)
    # judge saved inputs
    seen = set()
    for f in sorted(os.listdir(art)):
        with open(os.path.join(art, f), "rb") as fh:
            data = fh.read()
        if not data:
            continue
        opt = data[0]
        target = cproc.TARGETS[opt % 3]
        extra = ["-E"] if opt // 3 % 2 else []
        r2 = Result()
        c19.judge(ctx, data[1:], target, extra, r2, "fuzz")
        res.discard.extend(r2.discard)
        if r2.fail is None:
            res.discard.append("fuzz-artifact-not-reproduced")
            continue
        if r2.fail["sig"] in seen:
            continue
        seen.add(r2.fail["sig"])
        # route through the input-replay source so the replay file is self-contained
        res.extra_fails.append(dict(source="input", fail=r2.fail,
                                    case={"input": data[1:].decode("latin-1"), "target": target, "extra": extra}))
    shutil.rmtree(d, ignore_errors=True)
    return res


def input_check(case, ctx):
    """Replay of one saved input: {"input": latin-1 text, "target": t, "extra": [...]}."""
    from . import c19
    res = Result()
    res.n = 1
    data = case["input"].encode("latin-1")
    c19.judge(ctx, data, case.get("target", "x86_64-sysv"), case.get("extra", []), res, "input")
    c19._nontrivial(ctx, data, res)
    res.sample = {"source": "input", "head": case["input"][:100]}
    return res


def sources(ctx):
    return [Source("input", input_check, enum=lambda ctx: iter(())),
            Source("fuzz", fuzz_check, enum=fuzz_enum)]
