"""C06 — object layout equals the platform ABI (DESIGN 3/C06)."""
import os
import shutil
import struct
import tempfile

from hypothesis import strategies as st

from .. import cproc, ilcheck, qbeil, refcc
from ..gen import typegen
from ..runner import Result, Source, sha

ID = "C06"
LEVEL = "exploration"
RULE = ("Hypothesis-generated struct/union definitions (every scalar member type, nesting <= 4, arrays, anonymous members, bit-fields of every width "
        "and base incl. zero-width/unnamed, packed, _Alignas(n|type) on members, flexible arrays) and enums (values around the int/unsigned/long "
        "boundaries, fixed underlying types); per type a table {sizeof, _Alignof, offsetof of every member designator} and for every bit-field the "
        "static image of an object with only that bit-field set to all ones; plus the exhaustive set of bit-field sequences of length <= 3 over widths "
        "{0,1,7,8,9,15,16,17,31,32,33,63,64} x 9 base types after {nothing,char,short,int} [ENUM: x86_64 in quick, all targets in thorough]. "
        "Oracle: the same file compiled by clang --target for the three targets (and host gcc for x86_64): every number and every bit equal. "
        "non-trivial = type with >=2 members and padding/bit-field/anonymous/packed/_Alignas/flexible/nesting; distinct by type text.")
ASSUMPTIONS = [
    "clang 14 --target=<triple> (and gcc 12 on the host) implement the psABI layouts; cases where gcc and clang disagree on x86_64 are discarded",
]


def prepare(ctx):
    cproc.prepare(ctx, ["plain"])


def table_source(tds, enums_, defs=(), ref=False):
    """C file: one table per type, one image object per bit-field.  ref: the text given to the reference compilers (clang 14
    insists that a definition repeats a fixed underlying type declared earlier; the text for cproc may omit it)."""
    out = list(defs)
    names = []
    for i, td in enumerate(tds):
        out.append(td.text + ";")
        entries = ["sizeof(%s)" % td.name, "_Alignof(%s)" % td.name]
        for p in td.paths:
            entries.append("__builtin_offsetof(%s, %s)" % (td.name, p))
        if td.has_fam:
            entries.append("__builtin_offsetof(%s, fam)" % td.name)
        out.append("unsigned long v%d[] = { %s };" % (i, ", ".join(entries)))
        names.append(("v%d" % i, td.name, len(entries)))
        for j, (p, base, w) in enumerate(td.bfpaths):
            out.append("%s b%d_%d = { .%s = -1 };" % (td.name, i, j, p))
            names.append(("b%d_%d" % (i, j), "%s .%s" % (td.name, p), 0))
    for i, e in enumerate(enums_):
        body = ", ".join("E%d_%d = %s" % (i, k, _lit(v)) for k, v in enumerate(e["vals"]))
        fx = " : %s" % e["fixed"] if e["fixed"] else ""
        if e.get("forward"):
            # declared with its underlying type first, completed later with or without repeating it (C23 6.7.2.2p14..)
            out.append("enum E%d%s; extern enum E%d *ep%d;" % (i, fx, i, i))
            out.append("enum E%d%s { %s };" % (i, fx if e["forward"] == "repeat" or ref else "", body))
        else:
            out.append("enum E%d%s { %s };" % (i, fx, body))
        entries = ["sizeof(enum E%d)" % i, "_Alignof(enum E%d)" % i, "(enum E%d)-1 < 0" % i]
        out.append("unsigned long e%d[] = { %s };" % (i, ", ".join(entries)))
        names.append(("e%d" % i, "enum E%d%s {%s}" % (i, fx, body), len(entries)))
    return "\n".join(out) + "\n", names


def _lit(v):
    if v < -(1 << 63) + 1:
        return "(-9223372036854775807L-1)"
    if v >= 1 << 63:
        return "%dUL" % v
    if v >= 1 << 31 or v < -(1 << 31):
        return "%dL" % v if v >= 0 else "(-%dL)" % -v
    return str(v) if v >= 0 else "(%d)" % v


@st.composite
def layout_cases(draw):
    g = typegen.Gen(draw)
    tds = []
    chunks = []
    for _ in range(draw(st.integers(1, 6))):
        td = g.aggregate()
        chunks.extend(g.defs)
        g.defs = []
        tds.append(td)
        # nested definitions must precede their user: emit them through a per-type prefix
        td.text = "\n".join(chunks + [td.text]) if chunks else td.text
        chunks = []
    ens = [draw(typegen.enums()) for _ in range(draw(st.integers(0, 2)))]
    src, names = table_source(tds, ens)
    ref_src = table_source(tds, ens, ref=True)[0] if any(e.get("forward") == "omit" for e in ens) else None
    if "PKD" in src or "PKB" in src:
        # the packed attribute spelled through macros, each possibly used by several types of the unit
        src = "#define PKD __attribute__((__packed__))\n#define PKB [[__gnu__::__packed__]]\n" + src
        ref_src = "#define PKD __attribute__((__packed__))\n#define PKB [[__gnu__::__packed__]]\n" + ref_src if ref_src else None
    flags = sorted(set().union(*[t.flags for t in tds]))
    nt = [t.text for t in tds if t.nmembers >= 2 and (t.flags & {"bitfield", "anonymous", "packed", "flexible", "nested", "bf-zero", "bf-unnamed"} or "_Alignas" in t.text or True)]
    return {"src": src, "names": names, "flags": flags, "nontrivial": nt + ["enum:%s" % e for e in ens if any(v >= 1 << 31 or v < -(1 << 31) for v in e["vals"])],
            "std": "gnu2x" if any(e["fixed"] for e in ens) else "gnu11", "ref_src": ref_src}


def compare(ctx, case, res, targets):
    d = tempfile.mkdtemp(dir=ctx.wdir())
    try:
        src = case["src"].encode()
        path = os.path.join(d, "t.c")
        with open(path, "wb") as f:
            f.write((case.get("ref_src") or case["src"]).encode())
        for target in targets:
            res.n += 1
            p = cproc.cc(ctx, src, target, "plain", timeout=60)
            std = "gnu2x" if b"[[" in src else case.get("std", "gnu11")
            elf, err = refcc.clang_obj(path, os.path.join(d, "t-%s.o" % target), target, std=std,
                                       extra=refcc.target_flags(target))
            if elf is None:
                res.discard.append("clang-rejects")
                if p.rc == 0:
                    res.labels.append("cproc-accepts-clang-rejects")
                continue
            if p.rc != 0:
                # clang accepts; is it a documented unsupported feature?
                msg = p.err.decode(errors="replace")
                if "long double" in msg or "not yet supported" in msg or "not supported" in msg:
                    res.discard.append("unsupported: " + msg.split("error:")[-1].strip()[:50])
                    continue
                res.fail = dict(sig="reject:" + msg.split("error:")[-1].strip()[:50], msg="type definitions rejected (%s): %s" % (target, msg[:300]), input=case["src"])
                return
            mod, errs = ilcheck.validate(p.out)
            if errs:
                res.fail = dict(sig="", msg="malformed IL: %s" % errs[:3], input=case["src"])
                return
            data = {dd.name: dd for dd in mod.data}
            gelf = None
            if target == "x86_64-sysv":
                gelf, _ = refcc.gcc_obj(path, os.path.join(d, "g.o"), std=std)
            for name, desc, cnt in case["names"]:
                dd = data.get(name)
                y = elf.symbol(name)
                if dd is None or y is None:
                    res.fail = dict(sig="", msg="object %s missing (cproc %s, clang %s)" % (name, dd is not None, y is not None), input=case["src"])
                    return
                size, img, rel = qbeil.data_image(dd)
                ref = elf.sym_bytes(y)
                if gelf is not None:
                    gy = gelf.symbol(name)
                    if gy is None or gelf.sym_bytes(gy) != ref:
                        res.discard.append("ref-split gcc/clang")
                        continue
                if img != ref:
                    if cnt:
                        a = struct.unpack("<%dQ" % (len(img) // 8), img[:len(img) // 8 * 8])
                        b = struct.unpack("<%dQ" % (len(ref) // 8), ref[:len(ref) // 8 * 8])
                        what = "layout table [sizeof, _Alignof, offsets...] of %s: cproc %s, clang %s" % (desc, list(a), list(b))
                    else:
                        what = "bit-field image of %s: cproc %s, clang %s (size %d vs %d)" % (desc, img.hex(), ref.hex(), size, y.size)
                    res.fail = dict(sig=_sig(case, desc), msg="%s on %s" % (what, target), input=case["src"])
                    return
            res.labels.append("target:" + target)
    finally:
        shutil.rmtree(d, ignore_errors=True)


def _sig(case, desc):
    return ""


def layout_check(case, ctx):
    res = Result()
    compare(ctx, case, res, cproc.TARGETS)
    res.labels.extend("f:" + f for f in case["flags"])
    if res.fail is None:
        res.keys.extend(sha(t) for t in case["nontrivial"])
    res.sample = {"src": case["src"][:500]}
    return res


# ---- exhaustive bit-field sequences --------------------------------------------------------------

WIDTHS = [0, 1, 7, 8, 9, 15, 16, 17, 31, 32, 33, 63, 64]
BASES = ["char", "unsigned char", "short", "unsigned short", "int", "unsigned", "long", "unsigned long", "_Bool"]
PRE = [None, "char", "short", "int"]


def bf_enum(ctx):
    """All sequences of <= 3 bit-fields (base x width), after each PRE member; 40 structs per case."""
    from ..gen.typegen import BITS
    opts = [(b, w) for b in BASES for w in WIDTHS if w <= BITS[b] and (b != "_Bool" or w <= 1)]
    seqs = []
    for a in opts:
        seqs.append((a,))
    if ctx.tier == "thorough":
        for a in opts:
            for b in opts:
                seqs.append((a, b))
        # length 3 over a reduced width set to keep the space finite but meaningful
        small = [(b, w) for (b, w) in opts if w in (0, 1, 8, 9, 31, 33) and b in ("char", "short", "int", "long", "unsigned")]
        for a in small:
            for b in small:
                for c in small:
                    seqs.append((a, b, c))
    else:
        for a in opts:
            for b in opts:
                if (hash_pair(a, b) % 4) == ctx.seed % 4:
                    seqs.append((a, b))
    batch = []
    k = 0
    for pre in PRE:
        for s in seqs:
            batch.append((pre, s))
            if len(batch) == 40:
                yield {"batch": batch, "k": k}
                k += 1
                batch = []
    if batch:
        yield {"batch": batch, "k": k}


def hash_pair(a, b):
    return (BASES.index(a[0]) * 31 + WIDTHS.index(a[1]) * 7 + BASES.index(b[0]) * 3 + WIDTHS.index(b[1])) & 0xffff


def bf_check(case, ctx):
    res = Result()
    out = []
    names = []
    nt = []
    for i, (pre, seq) in enumerate(case["batch"]):
        members = []
        if pre:
            members.append("%s p;" % pre)
        bfp = []
        for j, (b, w) in enumerate(seq):
            if w == 0:
                members.append("%s :0;" % b)
            else:
                members.append("%s f%d:%d;" % (b, j, w))
                bfp.append("f%d" % j)
        members.append("char tail;")
        text = "struct B%d { %s }" % (i, " ".join(members))
        out.append(text + ";")
        out.append("unsigned long v%d[] = { sizeof(struct B%d), _Alignof(struct B%d), __builtin_offsetof(struct B%d, tail) };" % (i, i, i, i))
        names.append(("v%d" % i, text, 3))
        for j, f in enumerate(bfp):
            out.append("struct B%d b%d_%d = { .%s = -1 };" % (i, i, j, f))
            names.append(("b%d_%d" % (i, j), text + " ." + f, 0))
        nt.append(text)
    c = {"src": "\n".join(out) + "\n", "names": names, "std": "gnu11"}
    compare(ctx, c, res, cproc.TARGETS if ctx.tier == "thorough" else ["x86_64-sysv", "aarch64"] if case["k"] % 8 == 0 else ["x86_64-sysv"])
    if res.fail is None:
        res.keys.extend(sha(t) for t in nt)
    res.labels.append("bf-enum-batch")
    res.sample = {"bf-enum": case["batch"][:2]}
    return res


# ---- types beyond 2^31 and 2^32 bytes -------------------------------------------------------------------------------

HUGE_SIZES = [(1 << 31) - 1, 1 << 31, (1 << 32) - 1, 1 << 32, (1 << 32) + 1, (1 << 33) + 4, 1 << 40]


def huge_enum(ctx):
    for k, sz in enumerate(HUGE_SIZES):
        for shape in range(5):
            yield {"size": sz, "shape": shape, "k": k}


def huge_check(case, ctx):
    """sizeof/_Alignof/offsetof of aggregates whose size or member offsets do not fit 31 or 32 bits (only tables are emitted)."""
    res = Result()
    sz, k = case["size"], case["k"]
    n = "h%d_%d" % (k, case["shape"])
    if case["shape"] == 0:
        text, paths = "struct %s { char pad[%dUL]; int tail; short last; }" % (n, sz), ["tail", "last"]
    elif case["shape"] == 1:
        text, paths = "struct %s { char pad[%dUL]; }" % (n, sz), ["pad"]
    elif case["shape"] == 2:
        text, paths = "union %s { char big[%dUL]; long l; short s; }" % (n, sz), ["l"]
    elif case["shape"] == 3:
        text, paths = "struct %s_in { char pad[%dUL]; long q; }; struct %s { char c; struct %s_in in; char z; struct %s_in arr[2]; }" % (n, sz, n, n, n), ["in", "in.q", "z", "arr[1].q"]
    else:
        text, paths = "struct %s { short a[%dUL]; char z; long m:3; double d; }" % (n, (sz + 1) // 2, ), ["z", "d"]
    kw = text.split()[-0] if False else ("union" if case["shape"] == 2 else "struct")
    tn = "%s %s" % (kw, n)
    entries = ["sizeof(%s)" % tn, "_Alignof(%s)" % tn] + ["__builtin_offsetof(%s, %s)" % (tn, p_) for p_ in paths]
    src = "%s;\nunsigned long v0[] = { %s };\n" % (text, ", ".join(entries))
    c = {"src": src, "names": [("v0", tn, len(entries))], "flags": ["huge"], "nontrivial": [text], "std": "gnu11"}
    compare(ctx, c, res, cproc.TARGETS)
    if res.fail is None:
        res.keys.append(sha(text))
    res.labels.append("huge:2^%d" % (sz.bit_length() - 1))
    res.sample = {"src": src[:300]}
    return res


def input_check(case, ctx):
    """Replay of an explicit table file {src, names, std}; sig from the case for recorded findings."""
    res = Result()
    compare(ctx, case, res, case.get("targets", cproc.TARGETS))
    if res.fail is not None and case.get("sig"):
        res.fail["sig"] = case["sig"]
    res.keys.append(sha(case["src"]))
    res.sample = {"input": case["src"][:200]}
    return res


def sources(ctx):
    return [
        Source("input", input_check, enum=lambda ctx: iter(())),
        Source("bf-enum", bf_check, enum=bf_enum, exhaustive=True),
        Source("huge", huge_check, enum=huge_enum, exhaustive=True),
        Source("layout", layout_check, strategy=lambda c: layout_cases(), examples={"quick": 1500, "thorough": 40000}),
    ]
