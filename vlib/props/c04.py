"""C04 — constant expressions fold to the value run-time evaluation would give (DESIGN 3/C04)."""
import math
import os
import shutil
import re
import struct
import tempfile

from hypothesis import strategies as st

from .. import cmodel as cm, cproc, ilcheck, qbeil, refcc
from ..gen import exprgen
from ..runner import Result, Source, sha

ID = "C04"
LEVEL = "exploration"
RULE = ("Hypothesis constant expressions over literals of every base (2/8/10/16), suffix and magnitude, floating literals (decimal round-trip and hex), "
        "character constants, enum constants, sizeof/_Alignof/offsetof, casts between all integer/floating types incl. _Bool, all unary/binary/logical/"
        "conditional operators, built UB-free with vlib/cmodel.py which also predicts value and type. Each E is placed in the folding contexts: static "
        "initialiser of its own type (bytes compared), _Static_assert(E == V) accepted and _Static_assert(E != V) rejected, array bound, enumerator, "
        "case label (duplicate with V rejected, with V+1 accepted), bit-field width, _Alignas, constant ?: condition; address constants &obj+-c, &arr[i], "
        "&s.m, string+-c compared as (symbol, offset). x 3 targets (char signedness). The run-time twin of the same generator is C01's source 'exprs'. "
        "non-trivial = E has an operator or cast and an operand at a type boundary or a value-changing conversion; distinct by (E, context, target).")
ASSUMPTIONS = ["vlib/cmodel.py (validated against gcc/clang by C01's generator A and by clang arbitration here) predicts value and type",
               "decimal floating literals are printed with round-trip digits so that single rounding is unambiguous"]


def prepare(ctx):
    cproc.prepare(ctx, ["plain"])


class ConstBuilder(exprgen.Builder):
    def __init__(self, draw, char_signed):
        super().__init__(draw, char_signed, "const")
        self.kinds = ["bin", "bin", "bin", "bin", "un", "cast", "cast", "cond"]
        self.boundary_hit = False

    def leaf(self):
        d = self.draw
        k = d(st.integers(0, 11))
        if k <= 6:
            t = d(st.sampled_from([cm.INT, cm.INT, cm.UINT, cm.LONG, cm.ULONG, cm.LLONG, cm.ULLONG]))
            v = d(exprgen.values(t))
            if v < 0:
                # literals are non-negative; a negative operand is spelled with unary minus (model it the same way)
                if v == t.min:
                    return exprgen.Node(cm.literal(v, t), v, t)
                txt = "(-%s)" % self.int_spelling(-v, t)
                return exprgen.Node(txt, v, t)
            if v in (t.max, t.max - 1, 0) or v.bit_length() in (31, 32, 63, 64):
                self.boundary_hit = True
            return exprgen.Node(self.int_spelling(v, t), v, t)
        if k <= 8:
            t = d(st.sampled_from([cm.DOUBLE, cm.FLOAT]))
            v = d(exprgen.values(t))
            return exprgen.Node(self.float_spelling(v, t), v, t)
        if k == 9:
            # character constants: type int (value of char), wide ones of their own types
            c = d(st.sampled_from(["a", "0", "~", " ", "\\n", "\\0", "\\377", "\\x80", "\\177", "\\\\", "\\'"]))
            raw = {"a": 97, "0": 48, "~": 126, " ": 32, "\\n": 10, "\\0": 0, "\\377": 255, "\\x80": 128, "\\177": 127, "\\\\": 92, "\\'": 39}[c]
            pre = d(st.sampled_from(["", "", "u", "U", "L", "L"]))   # u8'x' is left to C14 (clang 14 cannot arbitrate it)
            if pre == "L":
                # wchar_t is int on x86_64/riscv64 and unsigned int on aarch64; the escape's value is not sign-extended from 8 bits
                return exprgen.Node("L'%s'" % c, raw, cm.INT if getattr(self, "ws", True) else cm.UINT)
            if pre == "":
                v = raw - 256 if (self.cs and raw >= 128) else raw
                return exprgen.Node("'%s'" % c, v, cm.INT)
            if pre == "u8":
                return exprgen.Node("u8'%s'" % c, raw, cm.UCHAR)
            return exprgen.Node("%s'%s'" % (pre, c), raw, cm.USHORT if pre == "u" else cm.UINT)
        if k == 10:
            name, v = d(st.sampled_from([("EA", 0), ("EB", 5), ("EC", -3), ("ED", 2147483647)]))
            return exprgen.Node(name, v, cm.INT)
        what = d(st.sampled_from([("sizeof(long)", 8), ("sizeof(struct sz)", 24), ("_Alignof(double)", 8), ("sizeof(char[3][5])", 15),
                                  ("__builtin_offsetof(struct sz, c)", 16), ("sizeof(int *)", 8), ("_Alignof(struct sz)", 8), ("sizeof 1", 4), ("sizeof 1ll", 8),
                                  # member designators with several subscripts in a row (every one of them counts)
                                  ("__builtin_offsetof(struct sm, m[2][3])", 24), ("__builtin_offsetof(struct sm, m[1])", 10), ("__builtin_offsetof(struct sm, in[1].k[1][2])", 76),
                                  ("__builtin_offsetof(struct sm, t[1][0][1])", 128), ("__builtin_offsetof(struct sm, in[1].z)", 80), ("__builtin_offsetof(struct sm, m[2][0])", 18),
                                  ("sizeof(struct sm)", 152), ("__builtin_offsetof(struct sm, t[EA + 1][1][EB - 5])", 136)]))
        return exprgen.Node(what[0], what[1], cm.ULONG)

    def int_spelling(self, v, t):
        """A literal of value v >= 0 whose type is exactly t (C11 6.4.4.1p5), in a drawn base."""
        d = self.draw
        suf = {cm.INT: "", cm.UINT: "u", cm.LONG: "l", cm.ULONG: "ul", cm.LLONG: "ll", cm.ULLONG: "ull"}[t]
        suf = d(st.sampled_from([suf, suf.upper(), suf[::-1] if len(suf) > 1 and suf[0] == "u" else suf]))
        base = d(st.sampled_from(["dec", "hex", "oct", "bin"]))
        # a decimal unsuffixed literal that does not fit int becomes long; hex/octal may become unsigned: keep the suffix
        # explicit whenever the natural type would differ from t
        if base == "dec":
            body = str(v)
        elif base == "hex":
            body = d(st.sampled_from(["0x%x", "0X%X"])) % v
        elif base == "oct":
            body = "0%o" % v if v else "0"
        else:
            body = "0b" + bin(v)[2:]
        # any suffix (also a shorter one, or none) under which the value gets exactly type t: `0x100000000u` is unsigned long
        # by magnitude, `0x80000000` unsigned int, `2147483648` long
        cands = [x for x in ("", "u", "U", "l", "L", "ul", "UL", "lu", "Lu", "ll", "LL", "ull", "ULL", "llu", "LLU") if literal_type(body + x) is t]
        if cands and d(st.booleans()):
            return body + d(st.sampled_from(cands))
        return body + suf if literal_type(body + suf) is t else cm.literal(v, t)

    def float_spelling(self, v, t):
        if math.isnan(v) or math.isinf(v):
            return cm.literal(v, t)
        d = self.draw
        form = d(st.integers(0, 4))
        neg = v < 0 or math.copysign(1, v) < 0
        a = abs(v)
        if form == 4:
            # hexadecimal floating constant without digits before the point: 0x1.8p+3 == 0x.18p+7
            m = re.match(r"0x([01])\.([0-9a-f]+)p([+-]\d+)$", float(a).hex())
            body = "0x.%s%sp%+d" % (m.group(1), m.group(2).rstrip("0"), int(m.group(3)) + 4) if m else float(a).hex()
            if d(st.booleans()):
                body = body.upper().replace("0X", "0X")
        elif form == 0:
            body = float(a).hex()
        elif form == 1:
            body = repr(a) if t is cm.DOUBLE else "%.9g" % a
            if "." not in body and "e" not in body and "inf" not in body:
                body += ".0"
            if t is cm.FLOAT and cm.f32(float(body)) != a:
                body = float(a).hex()
        else:
            body = "%.17e" % a if t is cm.DOUBLE else float(a).hex()
        if form == 3 and "x" not in body.lower() and body[0].isdigit():
            # decimal floating constants may start with zeros, also followed by 8 or 9 (they are not octal)
            body = d(st.sampled_from(["0", "00", "000"])) + body
        if t is cm.FLOAT:
            # the decimal text is rounded to double first by some implementations: only use it when that is harmless
            if "x" not in body.lower() and cm.f32(float(body)) != a:
                body = float(a).hex()
            body += "f"
        return "(-%s)" % body if neg else body

    def expr(self, depth):
        d = self.draw
        if depth > 0 and d(st.integers(0, 12)) == 0:
            a = self.expr(depth - 1)
            sz = 1 if (a.type.kind == "int" and a.type.is_bool) else a.type.bits // 8
            return exprgen.Node("sizeof(%s)" % a.text, sz, cm.ULONG)
        return super().expr(depth)


def literal_type(text):
    """Type of an integer literal per C11 6.4.4.1 (LP64)."""
    t = text.lower()
    suf = ""
    while t and t[-1] in "ul":
        suf = t[-1] + suf
        t = t[:-1]
    if t.startswith("0x"):
        v, dec = int(t[2:], 16), False
    elif t.startswith("0b"):
        v, dec = int(t[2:], 2), False
    elif t.startswith("0") and len(t) > 1:
        v, dec = int(t, 8), False
    else:
        v, dec = int(t), True
    u = "u" in suf
    nl = suf.count("l")
    cands = [cm.INT, cm.UINT, cm.LONG, cm.ULONG, cm.LLONG, cm.ULLONG]
    cands = [c for c in cands if c.rank >= 4 + nl]
    if u:
        cands = [c for c in cands if not c.signed]
    elif dec:
        cands = [c for c in cands if c.signed]
    for c in cands:
        if c.has(v):
            return c
    return None


PRE = ("enum en0 { EA, EB = 5, EC = -3, ED = 2147483647 };\nstruct sz { char a; long b; char c; };\n"
       "struct sm { char a; short m[3][4]; struct { int k[2][3]; char z; } in[2]; long t[2][2][2]; };\n"
       "int gobj; int garr[10]; struct sz gs; static long gsl[4];\n")


@st.composite
def const_cases(draw):
    t = draw(st.integers(0, 2))
    cs = cproc.SIGNED_CHAR[cproc.TARGETS[t]]
    b = ConstBuilder(draw, cs)
    b.ws = cproc.WCHAR_SIGNED[cproc.TARGETS[t]]
    items = []
    for i in range(draw(st.integers(4, 16))):
        n = b.expr(draw(st.integers(1, 4)))
        pt = cm.promote(n.type, n.bf) if n.type.kind == "int" else n.type
        v = cm.convert(n.value, n.type, pt) if n.type.kind == "int" else n.value
        items.append({"e": n.text, "v": v, "t": pt.name, "kind": pt.kind, "bits": pt.bits, "signed": getattr(pt, "signed", True)})
    return {"items": items, "t": t, "labels": sorted(b.labels), "boundary": b.boundary_hit}


def value_bytes(it):
    if it["kind"] == "float":
        if it["bits"] == 32:
            return struct.pack("<f", it["v"])
        return struct.pack("<d", it["v"])
    n = it["bits"] // 8
    return (it["v"] % (1 << it["bits"])).to_bytes(n, "little")


def vlit(it):
    if it["kind"] == "float":
        t = cm.FLOAT if it["bits"] == 32 else cm.DOUBLE
        return cm.literal(it["v"], t)
    t = {("int", 32, True): cm.INT, ("int", 32, False): cm.UINT, ("int", 64, True): cm.LONG, ("int", 64, False): cm.ULONG}.get((it["kind"], it["bits"], it["signed"]))
    if it["t"] in ("long long",):
        t = cm.LLONG
    if it["t"] in ("unsigned long long",):
        t = cm.ULLONG
    return cm.literal(it["v"], t)


def build_source(case):
    out = [PRE]
    names = []
    for i, it in enumerate(case["items"]):
        e, v = it["e"], it["v"]
        out.append("%s v%d = %s;" % (it["t"], i, e))
        names.append(("v%d" % i, value_bytes(it), "static initialiser"))
        isnan = it["kind"] == "float" and math.isnan(v)
        if it["kind"] == "int":
            # only integer constant expressions may appear in a static assertion (6.6p6)
            out.append("_Static_assert((%s) == %s, \"\");" % (e, vlit(it)))
        if it["kind"] == "int":
            out.append("int c%d = (%s) ? 11 : 22;" % (i, e))
            names.append(("c%d" % i, (11 if v else 22).to_bytes(4, "little"), "condition of ?:"))
            if 1 <= v <= 4096:
                out.append("char ab%d[%s]; unsigned long as%d = sizeof ab%d;" % (i, e, i, i))
                names.append(("as%d" % i, v.to_bytes(8, "little"), "array bound"))
            if -(1 << 31) <= v < (1 << 31):
                out.append("enum { EN%d = %s }; long long ev%d = EN%d;" % (i, e, i, i))
                names.append(("ev%d" % i, (v % (1 << 64)).to_bytes(8, "little"), "enumerator"))
            if 1 <= v <= 32:
                out.append("struct { unsigned f:(%s); } bw%d = { -1 };" % (e, i))
                names.append(("bw%d" % i, ((1 << v) - 1).to_bytes(4, "little"), "bit-field width"))
            if v in (1, 2, 4, 8, 16, 32, 64):
                out.append("_Alignas(%s) char al%d = 1;" % (e, i))
                names.append(("al%d" % i, ("align", v), "_Alignas"))
            out.append("void sw%d(int x) { switch ((%s)x) { case (%s): case %s: ; } }" % (i, it["t"], e, vlit_plus1(it)))
        elif not isnan:
            out.append("int c%d = (%s) ? 11 : 22;" % (i, e))
            names.append(("c%d" % i, (11 if v != 0 else 22).to_bytes(4, "little"), "condition of ?:"))
    # address constants
    out.append("int *p0 = &garr[3] + 2 - 1; char *p1 = (char *)&gs.c + 3; long *p2 = &gsl[1 + 2]; const char *p3 = \"abcdef\" + 4; int *p4 = &gobj;"
               " char *p5 = (char *)garr + sizeof(int) * 2; long *p6 = gsl + (EB - 3); int *p7 = &*&garr[1]; char *p8 = &(\"xyz\"[1]);"
               " int *p9 = 2 + &garr[1]; int *p10 = 1 + (2 + garr); long p11 = 8 + (long)&garr[1]; long *p12 = 1 + (&gsl[3] - 2); char *p13 = 3 + ((char *)&gs + 2) - 1;"
               " int *p14 = (1 + garr) + 1; int *p15 = &garr[5] - 3u; long *p16 = &gsl[3] - (unsigned)2; int *p17 = garr + 5u - 1u; char *p18 = (char *)&gs + 20 - (unsigned char)4;"
               " int *p19 = &garr[9] - 1ul - 2ll - (short)3; long *p20 = gsl + 3 - (unsigned short)1; int *p21 = &garr[7] - U'\\2';")
    return "\n".join(out) + "\n", names


def vlit_plus1(it):
    j = dict(it)
    t = cm.UINT if not it["signed"] and it["bits"] == 32 else cm.INT if it["bits"] == 32 else cm.LONG if it["signed"] else cm.ULONG
    v = it["v"] + 1
    if not t.has(v):
        v = it["v"] - 1
    j["v"] = v
    return vlit(j)


ADDR = {"p0": ("garr", 16), "p1": ("gs", 19), "p2": ("gsl", 24), "p4": ("gobj", 0), "p5": ("garr", 8), "p6": ("gsl", 16), "p7": ("garr", 4),
        "p9": ("garr", 12), "p10": ("garr", 12), "p11": ("garr", 12), "p12": ("gsl", 16), "p13": ("gs", 4), "p14": ("garr", 8),
        "p15": ("garr", 8), "p16": ("gsl", 8), "p17": ("garr", 16), "p18": ("gs", 16), "p19": ("garr", 12), "p20": ("gsl", 16), "p21": ("garr", 20)}


def const_check(case, ctx):
    res = Result()
    target = cproc.TARGETS[case["t"]]
    src, names = build_source(case)
    res.n = len(names)
    p = cproc.cc(ctx, src.encode(), target, "plain", timeout=60)
    res.labels.extend("g:" + l for l in case["labels"])
    res.sample = {"target": target, "exprs": [it["e"] + " == " + str(it["v"]) for it in case["items"]][:3]}
    if p.rc != 0:
        err = p.err.decode(errors="replace")
        if arbitrate(ctx, src, target):
            res.fail = dict(sig="reject:" + err.split("error:")[-1].strip()[:50],
                            msg="valid constant expressions rejected (%s): %s" % (target, err[:300]), input=src)
            return res
        # clang does not take the whole unit (it is stricter about what an integer constant expression is):
        # judge the one line cproc complains about on its own
        m = re.match(r"[^:\n]*:(\d+):\d+: error:", err)
        lines = src.split("\n")
        if m and 1 <= int(m.group(1)) <= len(lines):
            one = PRE + lines[int(m.group(1)) - 1] + "\n"
            q = cproc.cc(ctx, one.encode(), target, "plain", timeout=60)
            if q.rc != 0 and arbitrate(ctx, one, target):
                res.fail = dict(sig="reject:" + err.split("error:")[-1].strip()[:50],
                                msg="valid constant expression rejected (%s): %s" % (target, err[:300]), input=one)
                return res
            res.discard.append("rejected-line-not-accepted-by-clang-either" if q.rc != 0 else "rejected-line-accepted-alone")
        else:
            res.discard.append("model-or-generator-disagrees-with-clang")
        return res
    mod, errs = ilcheck.validate(p.out)
    if errs:
        res.fail = dict(sig="", msg="malformed IL: %s" % errs[:3], input=src)
        return res
    data = {d.name: d for d in mod.data}
    for name, want, ctxname in names:
        d = data.get(name)
        if d is None:
            res.fail = dict(sig="", msg="object %s missing" % name, input=src)
            return res
        if isinstance(want, tuple):
            if (d.align or 1) != want[1]:
                bad = "alignment %s, expected %d" % (d.align, want[1])
            else:
                continue
        else:
            size, img, rel = qbeil.data_image(d)
            if img == want:
                continue
            if len(want) in (4, 8) and b"\xf8\x7f" in want[-2:] + img[-2:]:
                continue   # NaN payloads are not compared
            bad = "bytes %s, expected %s" % (img.hex(), want.hex())
        i = int("".join(ch for ch in name if ch.isdigit()))
        it = case["items"][i]
        # clang arbitrates on the one line that defines the object (it rejects many whole units: its notion of an
        # integer constant expression is stricter than C11 requires an implementation to be)
        line = [l for l in src.split("\n") if re.search(r"\b%s\b" % re.escape(name), l)]
        one = PRE + "\n".join(line[:1]) + "\n"
        if not arbitrate(ctx, one, target, name, want):
            res.discard.append("model-disagrees-with-clang")
            res.labels.append("MODEL-MISMATCH")
            return res
        res.fail = dict(sig="", msg="%s of  %s  (model: %s %s) on %s: %s" % (ctxname, it["e"], it["t"], it["v"], target, bad), input=src)
        return res
    for name, (sym, off) in ADDR.items():
        d = data.get(name)
        size, img, rel = qbeil.data_image(d)
        got = [(r[2], r[3]) for r in rel]
        if got != [(sym, off)]:
            res.fail = dict(sig="", msg="address constant %s: cproc %s, expected $%s+%d" % (name, got, sym, off), input=src)
            return res
    for name, text, off in (("p3", b"abcdef\0", 4), ("p8", b"xyz\0", 1)):
        d = data.get(name)
        size, img, rel = qbeil.data_image(d)
        ok = False
        if len(rel) == 1 and rel[0][2] in data:
            tsz, timg, _ = qbeil.data_image(data[rel[0][2]])
            ok = timg[rel[0][3]:] == text[off:]
        if not ok:
            res.fail = dict(sig="", msg="string address constant %s points to the wrong bytes" % name, input=src)
            return res
    for it in case["items"]:
        # non-trivial: an operator or cast is applied (boundary operands and value-changing conversions are drawn with
        # probability 3/4 per leaf by exprgen.values; their share is reported through the labels)
        if any(ch in it["e"] for ch in "+*/%<>=&|^~!?") or "(-" in it["e"] or ")(" in it["e"] or "((" in it["e"]:
            res.keys.append(sha([it["e"], target]))
    # reject direction: one flipped static assertion and one duplicate case label
    for it in case["items"][:2]:
        if it["kind"] == "float":
            continue
        bad1 = PRE + "_Static_assert((%s) != %s, \"\");\n" % (it["e"], vlit(it))
        q = cproc.cc(ctx, bad1.encode(), target, "plain")
        res.n += 1
        if q.rc == 0:
            res.fail = dict(sig="", msg="_Static_assert((%s) != %s) accepted although the model value is %s" % (it["e"], vlit(it), it["v"]), input=bad1)
            return res
        if it["kind"] == "int":
            bad2 = PRE + "void f(int x) { switch ((%s)x) { case (%s): case %s: ; } }\n" % (it["t"], it["e"], vlit(it))
            q = cproc.cc(ctx, bad2.encode(), target, "plain")
            res.n += 1
            if q.rc == 0:
                res.fail = dict(sig="", msg="case (%s) and case %s accepted as distinct labels" % (it["e"], vlit(it)), input=bad2)
                return res
    return res


def arbitrate(ctx, src, target, name=None, want=None):
    """True if clang agrees with the model (accepts the file and, if given, emits `want` for `name`)."""
    d = tempfile.mkdtemp(dir=ctx.wdir())
    try:
        path = os.path.join(d, "a.c")
        with open(path, "w") as f:
            f.write(src)
        elf, err = refcc.clang_obj(path, os.path.join(d, "a.o"), target, std="gnu2x", extra=refcc.target_flags(target))
        if elf is None:
            return False
        if name is None:
            return True
        y = elf.symbol(name)
        if y is None:
            return False
        if isinstance(want, tuple):
            return True
        return elf.sym_bytes(y) == want
    finally:
        shutil.rmtree(d, ignore_errors=True)


def input_check(case, ctx):
    res = const_check(case, ctx)
    if res.fail is not None and case.get("sig"):
        res.fail["sig"] = case["sig"]
    return res


# ---- systematic operator x type x boundary-value table ---------------------------------------------------------

FT_TYPES = [cm.INT, cm.UINT, cm.LONG, cm.ULONG]
FT_BIN = ["+", "-", "*", "/", "%", "<<", ">>", "&", "|", "^", "<", ">", "<=", ">=", "==", "!=", "&&", "||"]
FT_UN = ["-", "~", "!"]
FT_CAST = [cm.BOOL, cm.SCHAR, cm.UCHAR, cm.SHORT, cm.USHORT, cm.INT, cm.UINT, cm.LONG, cm.ULONG]
FT_UNIT = 48


def _ft_vals(t):
    vs = [v for v in (t.min, t.min + 1, -100, -8, -2, -1, 0, 1, 2, 3, 7, 31, 32, 33, 63, 64, 100, 65535, 65536, t.max // 2, t.max - 1, t.max,
                      (1 << 31) - 1, 1 << 31, (1 << 32) - 1, 1 << 32) if t.has(v)]
    return sorted(set(vs))


def _ft_item(text, v, t):
    pt = cm.promote(t) if t.kind == "int" else t
    v = cm.convert(v, t, pt) if t.kind == "int" else v
    return {"e": text, "v": v, "t": pt.name, "kind": pt.kind, "bits": pt.bits, "signed": getattr(pt, "signed", True)}


def fold_items():
    """Every defined (operator, operand types, boundary operands) combination over int/unsigned/long/unsigned long."""
    for op in FT_BIN:
        for ta in FT_TYPES:
            for tb in FT_TYPES:
                for a in _ft_vals(ta):
                    for b in _ft_vals(tb):
                        if op in ("<<", ">>") and not (0 <= b <= 64):
                            continue
                        try:
                            v, t = cm.binop(op, a, ta, b, tb)
                        except cm.UB:
                            continue
                        yield _ft_item("%s %s %s" % (cm.literal(a, ta), op, cm.literal(b, tb)), v, t)
    for op in FT_UN:
        for ta in FT_TYPES:
            for a in _ft_vals(ta):
                try:
                    v, t = cm.unop(op, a, ta)
                except cm.UB:
                    continue
                yield _ft_item("%s%s" % (op, cm.literal(a, ta)), v, t)
    # floating operands: relational and equality operators on equal and neighbouring values, arithmetic, logical operators,
    # and conversions between floating and integer types at the limits of the integer type
    fvals = [0.0, -0.0, 1.0, -1.0, 0.5, -0.5, 2.0, 2.5, 1e10, -1e10, 4294967295.0, 4294967296.0, 2147483647.0, 2147483648.0, -2147483648.0,
             9007199254740992.0, 9.223372036854775807e18, -9.223372036854775808e18, 1.8446744073709552e19, 1e-300, 16777217.0]
    for op in ["<", ">", "<=", ">=", "==", "!=", "+", "-", "*", "/", "&&", "||"]:
        for ta, tb in ((cm.DOUBLE, cm.DOUBLE), (cm.FLOAT, cm.FLOAT), (cm.DOUBLE, cm.INT), (cm.LONG, cm.DOUBLE), (cm.FLOAT, cm.DOUBLE), (cm.ULONG, cm.FLOAT)):
            va = [cm.fnorm(x, ta) for x in fvals] if ta.kind == "float" else _ft_vals(ta)[::3]
            vb = [cm.fnorm(x, tb) for x in fvals] if tb.kind == "float" else _ft_vals(tb)[::3]
            for a in va:
                for b in vb:
                    if op in ("+", "-", "*", "/") and (a, b) not in ((1.0, 2.0), (0.5, 0.5)) and not (a == b or a == -b or b in (1.0, 2.0, 0.5)):
                        continue
                    try:
                        v, t = cm.binop(op, a, ta, b, tb)
                    except (cm.UB, ZeroDivisionError, OverflowError):
                        continue
                    if isinstance(v, float) and (math.isnan(v) or math.isinf(v)):
                        continue
                    yield _ft_item("%s %s %s" % (cm.literal(a, ta), op, cm.literal(b, tb)), v, t)
    for ta in (cm.DOUBLE, cm.FLOAT):
        for a in fvals:
            a = cm.fnorm(a, ta)
            for op in ("-", "!"):
                try:
                    v, t = cm.unop(op, a, ta)
                except cm.UB:
                    continue
                yield _ft_item("%s%s" % (op, cm.literal(a, ta)), v, t)
            for tc in FT_CAST:
                try:
                    v = cm.convert(a, ta, tc)
                except (cm.UB, OverflowError, ValueError):
                    continue
                yield _ft_item("(%s)%s" % (tc.name, cm.literal(a, ta)), v, tc)
    for ta in FT_TYPES:
        for a in _ft_vals(ta):
            for tc in (cm.DOUBLE, cm.FLOAT):
                try:
                    v = cm.convert(a, ta, tc)
                except (cm.UB, OverflowError):
                    continue
                yield _ft_item("(%s)%s" % (tc.name, cm.literal(a, ta)), v, tc)
    for ta in FT_TYPES:
        for tc in FT_CAST:
            for a in _ft_vals(ta):
                try:
                    v = cm.convert(a, ta, tc)
                except cm.UB:
                    continue
                yield _ft_item("(%s)%s" % (tc.name, cm.literal(a, ta)), v, tc)


def fold_units(ctx):
    """Units of about FT_UNIT table rows, strided so that every unit mixes operators and types;
    quick: a seed-selected fifth of the units, thorough: all."""
    items = list(fold_items())
    nu = (len(items) + FT_UNIT - 1) // FT_UNIT
    for u in range(nu):
        if ctx.tier == "thorough" or (u + ctx.seed) % 5 == 0:
            yield {"items": items[u::nu], "t": u % 3, "labels": ["fold-table"], "boundary": True}


def sources(ctx):
    return [
        Source("input", input_check, enum=lambda ctx: iter(())),
        Source("fold-table", const_check, enum=fold_units, exhaustive=False),
        Source("const", const_check, strategy=lambda c: const_cases(), examples={"quick": 2500, "thorough": 100000}),
    ]
