"""C14 — character and string literals denote the standard-mandated values (DESIGN 3/C14)."""
import os
import shutil
import struct
import tempfile

from hypothesis import strategies as st

from .. import cproc, ilcheck, qbeil, refcc
from ..runner import Result, Source, sha

ID = "C14"
LEVEL = "exploration"
RULE = ("Hypothesis literals built from Unicode scalar values of every UTF-8 length and plane (boundaries U+7F/80, U+7FF/800, U+D7FF/E000, U+FFFF/10000, "
        "U+10FFFF), simple escapes, octal escapes of 1-3 digits and hex escapes of 1-33 digits (zero padded) followed by digit-like characters, every prefix (none, u8, u, U, L), "
        "concatenations of 2-4 literals with prefix mixtures, as array initialisers (with shorter/longer explicit bounds), pointers and character constants, x 3 "
        "targets; ENUM: '\\ooo' and '\\xhh' for all 256 values x every prefix. Oracle: an independent encoder (UTF-8/16/32, wchar_t per target, plain char "
        "constants valued as char), arbitrated by clang --target on mismatch. Invalid inputs (stray continuation bytes, overlong forms, encoded surrogates, "
        "> U+10FFFF, truncated sequences, empty character constant, unknown escape, mixed wide prefixes) must be rejected with a diagnostic or, for narrow "
        "literals, passed through unaltered. non-trivial = literal with a multi-byte character or an escape and (strings) >= 2 code units; distinct by (literal, target).")
ASSUMPTIONS = ["the encoder in this module follows C11 6.4.4.4/6.4.5 and Unicode; clang 14 arbitrates mismatches",
               "element signedness of u8 strings, out-of-range escapes (the test suite pins truncation), multi-character constants and u'x' needing a surrogate pair are not asserted"]


def prepare(ctx):
    cproc.prepare(ctx, ["plain"])


BOUNDARY_CP = [0x20, 0x41, 0x7e, 0x7f, 0x80, 0xa3, 0x7ff, 0x800, 0x20ac, 0xd7ff, 0xe000, 0xfffd, 0xffff, 0x10000, 0x1f600, 0x10ffff, 0xe9, 0x3b1]
SIMPLE = {"\\n": 10, "\\t": 9, "\\\\": 92, "\\'": 39, "\\\"": 34, "\\?": 63, "\\a": 7, "\\b": 8, "\\f": 12, "\\r": 13, "\\v": 11, "\\0": 0}


@st.composite
def piece_items(draw, width, in_char=False):
    """One literal body: list of (source text, kind, value) with kind 'cp' or 'esc'."""
    items = []
    n = draw(st.integers(1, 1 if in_char else 8))
    maxv = {1: 0xff, 2: 0xffff, 4: 0xffffffff}[width]
    for i in range(n):
        k = draw(st.integers(0, 9))
        if k <= 3:
            cp = draw(st.sampled_from(BOUNDARY_CP)) if draw(st.booleans()) else draw(st.integers(0x20, 0x10ffff))
            if 0xd800 <= cp <= 0xdfff or cp in (0x22, 0x27, 0x5c, 0x3f):
                cp = 0x41
            items.append((chr(cp), "cp", cp))
        elif k <= 5:
            s = draw(st.sampled_from(sorted(SIMPLE)))
            nxt = ""
            if s == "\\0" and draw(st.booleans()):
                pass
            items.append((s, "esc", SIMPLE[s]))
        elif k <= 7:
            nd = draw(st.integers(1, 3))
            v = draw(st.integers(0, min(maxv, 0o777 if nd == 3 else 0o77 if nd == 2 else 7)))
            txt = "\\" + oct(v)[2:].zfill(nd)[-nd:]
            v = int(txt[1:], 8)
            if v > maxv:
                v, txt = 0o177, "\\177"
            items.append((txt, "esc", v))
            # followed by a digit-like character that must NOT be absorbed
            if draw(st.booleans()):
                f = draw(st.sampled_from(["8", "9", "a", "7" if nd == 3 else "8"]))
                if not in_char:
                    items.append((f, "cp", ord(f)))
        else:
            # a hexadecimal escape is the longest run of hexadecimal digits (6.4.4.4p7): leading zeros may pad it to any width
            nd = draw(st.sampled_from([1, 2, 3, 4, 5, 6, 7, 8, 8, 9, 10, 16, 17, 33]))
            v = draw(st.integers(0, min(maxv, (1 << (4 * nd)) - 1)))
            txt = "\\x" + ("%x" % v).zfill(nd)
            if draw(st.booleans()):
                txt = txt.upper().replace("\\X", "\\x")
            items.append((txt, "esc", v))
            if draw(st.booleans()) and not in_char:
                f = draw(st.sampled_from(["g", "x", "G", " ", "-"]))
                items.append((f, "cp", ord(f)))
    return items


def encode(items, prefix, target):
    """Code units of a (concatenated) literal, without the terminator."""
    width = 1 if prefix in ("", "u8") else 2 if prefix == "u" else 4
    units = []
    for txt, kind, v in items:
        if kind == "esc":
            units.append(v)
        elif width == 1:
            units.extend(chr(v).encode("utf-8"))
        elif width == 2:
            if v >= 0x10000:
                v -= 0x10000
                units.append(0xd800 | (v >> 10))
                units.append(0xdc00 | (v & 0x3ff))
            else:
                units.append(v)
        else:
            units.append(v)
    return width, units


def body_text(items):
    """Spelling of one literal body; an escape that the next character would extend is closed by starting a new
    adjacent literal (`"\\x2d" "A"`), which does not change the value."""
    out = []
    prev = None
    for txt, kind, v in items:
        if prev is not None:
            ptxt = prev[0]
            if ptxt.startswith("\\x") and txt[0] in "0123456789abcdefABCDEF":
                out.append('" "')
            elif ptxt[1:2] in "01234567" and ptxt.startswith("\\") and len(ptxt) < 4 and txt[0] in "01234567":
                out.append('" "')
        out.append(txt)
        prev = (txt, kind, v) if kind == "esc" else None
    return "".join(out)


def elem_type(prefix):
    return {"": "char", "u8": "unsigned char", "u": "unsigned short", "U": "unsigned", "L": "__typeof__(L' ')"}[prefix]


@st.composite
def literal_cases(draw):
    t = draw(st.integers(0, 2))
    objs = []
    for i in range(draw(st.integers(2, 10))):
        if draw(st.integers(0, 3)) == 0:
            # character constant
            prefix = draw(st.sampled_from(["", "", "L", "u", "U", "u8"]))
            width = 1 if prefix in ("", "u8") else 2 if prefix == "u" else 4
            it = draw(piece_items(width, in_char=True))[0]
            if it[1] == "cp":
                cp = it[2]
                if prefix in ("", "u8") and cp > 0x7f:
                    it = ("a", "cp", 97)      # implementation-defined: not asserted
                if prefix == "u" and cp > 0xffff:
                    it = ("\u20ac", "cp", 0x20ac)
            objs.append({"kind": "char", "prefix": prefix, "items": [it], "splice": draw(splices())})
            continue
        nparts = draw(st.sampled_from([1, 1, 2, 3, 4]))
        prefix = draw(st.sampled_from(["", "", "u8", "u", "U", "L"]))
        width = 1 if prefix in ("", "u8") else 2 if prefix == "u" else 4
        parts = []
        for _ in range(nparts):
            pp = prefix if draw(st.integers(0, 2)) else ""
            parts.append((pp, draw(piece_items(width))))
        if prefix and all(p == "" for p, _ in parts):
            parts[draw(st.integers(0, nparts - 1))] = (prefix, parts[0][1])
        how = draw(st.sampled_from(["array", "array", "bounded-exact", "bounded-longer", "pointer", "sizeof"]))
        objs.append({"kind": "string", "prefix": prefix, "parts": parts, "how": how, "splice": draw(splices())})
    return {"t": t, "objs": objs}


@st.composite
def splices(draw):
    """Positions (as fractions of the spelling's length) at which 1-3 backslash-newline pairs in a row are put into the spelling of a
    literal: they vanish in translation phase 2, wherever they stand - inside the prefix, an escape sequence or between the quotes."""
    if draw(st.integers(0, 3)):
        return []
    return [[draw(st.integers(0, 1000)), draw(st.sampled_from([1, 1, 2, 3]))] for _ in range(draw(st.integers(1, 3)))]


def spliced(lit, sp):
    for pos, cnt in sorted(sp or [], reverse=True):
        k = 1 + pos * (len(lit) - 1) // 1001 if len(lit) > 1 else 1
        lit = lit[:k] + "\\\n" * cnt + lit[k:]
    return lit


def render(case):
    """-> (source, expectations [(name, bytes or None, description)])"""
    target = cproc.TARGETS[case["t"]]
    out = []
    exp = []
    for i, o in enumerate(case["objs"]):
        if o["kind"] == "char":
            txt, kind, v = o["items"][0]
            lit = "%s'%s'" % (o["prefix"], txt)
            if o["prefix"] == "":
                val = v
                if kind == "esc" and v >= 0x80 and cproc.SIGNED_CHAR[target]:
                    val = v - 256
            elif o["prefix"] == "L" and cproc.WCHAR_SIGNED[target] and v >= 1 << 31:
                val = v - (1 << 32)
            else:
                val = v
            out.append("long long c%d = %s;" % (i, spliced(lit, o.get("splice"))))
            exp.append(("c%d" % i, (val % (1 << 64)).to_bytes(8, "little"), lit))
            continue
        items = [it for _, its in o["parts"] for it in its]
        width, units = encode(items, o["prefix"], target)
        lit = " ".join('%s"%s"' % (p, body_text(its)) for p, its in o["parts"])
        # a `?` escape guard: "??" could form a trigraph in the reference preprocessor; avoided by construction (no raw '?')
        et = elem_type(o["prefix"])
        desc = lit
        lit = spliced(lit, o.get("splice"))
        fmt = {1: "B", 2: "H", 4: "I"}[width]
        full = struct.pack("<%d%s" % (len(units) + 1, fmt), *(units + [0]))
        how = o["how"]
        if how == "array":
            out.append("%s s%d[] = %s;" % (et, i, lit))
            exp.append(("s%d" % i, full, lit))
        elif how == "bounded-exact":
            out.append("%s s%d[%d] = %s;" % (et, i, max(len(units), 1), lit))
            body = struct.pack("<%d%s" % (max(len(units), 1), fmt), *((units + [0])[:max(len(units), 1)]))
            exp.append(("s%d" % i, body, lit + " in an array without room for the terminator"))
        elif how == "bounded-longer":
            n = len(units) + 4
            out.append("%s s%d[%d] = %s;" % (et, i, n, lit))
            exp.append(("s%d" % i, full + b"\0" * (width * 3), lit + " in a longer array"))
        elif how == "pointer":
            out.append("const %s *s%d = %s;" % (et, i, lit))
            exp.append(("s%d" % i, ("ptr", full), lit + " through a pointer"))
        else:
            out.append("unsigned long s%d = sizeof(%s);" % (i, lit))
            exp.append(("s%d" % i, (len(full)).to_bytes(8, "little"), "sizeof " + lit))
    return "\n".join(out) + "\n", exp


def nontrivial(o):
    if o["kind"] == "char":
        it = o["items"][0]
        return it[1] == "esc" or it[2] > 0x7f
    items = [it for _, its in o["parts"] for it in its]
    return len(items) >= 2 and any(k == "esc" or v > 0x7f for _, k, v in items)


def literal_check(case, ctx):
    res = Result()
    target = cproc.TARGETS[case["t"]]
    src, exp = render(case)
    res.n = len(exp)
    p = cproc.cc(ctx, src.encode("utf-8"), target, "plain", timeout=60)
    res.sample = {"target": target, "src": src[:300]}
    ref = None
    if p.rc != 0:
        ref = clang_images(ctx, src, target)
        if ref is None:
            res.discard.append("clang-rejects-too")
            return res
        res.fail = dict(sig="reject:" + p.err.decode(errors="replace").split("error:")[-1].strip()[:50],
                        msg="valid literals rejected (%s): %s" % (target, p.err.decode(errors="replace")[:300]), input=src)
        return res
    mod, errs = ilcheck.validate(p.out)
    if errs:
        res.fail = dict(sig="", msg="malformed IL: %s" % errs[:2], input=src)
        return res
    data = {d.name: d for d in mod.data}
    for (name, want, desc), o in zip(exp, case["objs"]):
        d = data[name]
        size, img, rel = qbeil.data_image(d)
        if isinstance(want, tuple):
            ok = False
            if len(rel) == 1 and rel[0][2] in data:
                tsz, timg, _ = qbeil.data_image(data[rel[0][2]])
                ok = timg[rel[0][3]:] == want[1]
                got = timg
            else:
                got = img
            want = want[1]
        else:
            ok = img == want
            got = img
        if ok:
            if nontrivial(o):
                res.keys.append(sha([desc, target]))
            res.labels.append("prefix:" + (o["prefix"] or "none") + ":" + o["kind"])
            continue
        if ref is None:
            ref = clang_images(ctx, src, target) or {}
        rimg = ref.get(name)
        if rimg is not None and rimg != want and o.get("how") != "pointer":
            res.discard.append("model-disagrees-with-clang")
            res.labels.append("MODEL-MISMATCH")
            continue
        res.fail = dict(sig="", msg="%s on %s: cproc %s, expected %s (clang %s)" % (desc, target, got.hex(), want.hex(), rimg.hex() if rimg else "?"), input=src)
        return res
    return res


def clang_images(ctx, src, target):
    d = tempfile.mkdtemp(dir=ctx.wdir())
    try:
        path = os.path.join(d, "l.c")
        with open(path, "wb") as f:
            f.write(src.encode("utf-8") if isinstance(src, str) else src)
        elf, err = refcc.clang_obj(path, os.path.join(d, "l.o"), target, std="gnu2x", extra=refcc.target_flags(target))
        if elf is None:
            return None
        return {y.name: elf.sym_bytes(y) for y in elf.symbols if y.type == "OBJECT" and y.name}
    finally:
        shutil.rmtree(d, ignore_errors=True)


# ---- exhaustive escapes in character constants ------------------------------------------------------

def esc_enum(ctx):
    for ti in range(3):
        for prefix in ("", "L", "u", "U", "u8"):
            yield {"t": ti, "prefix": prefix}


def esc_check(case, ctx):
    res = Result()
    target = cproc.TARGETS[case["t"]]
    pfx = case["prefix"]
    lines = []
    exp = []
    for v in range(256):
        for form in ("\\%o" % v, "\\x%x" % v, "\\%03o" % v, "\\x%02X" % v, "\\x000%x" % v, "\\x%09x" % v, "\\x%020X" % v):
            val = v
            if pfx == "" and v >= 0x80 and cproc.SIGNED_CHAR[target]:
                val = v - 256
            lines.append("long long c%d = %s'%s';" % (len(exp), pfx, form))
            exp.append((val % (1 << 64)).to_bytes(8, "little"))
    src = "\n".join(lines) + "\n"
    res.n = len(exp)
    p = cproc.cc(ctx, src.encode(), target, "plain", timeout=60)
    if p.rc != 0:
        res.fail = dict(sig="", msg="escape table rejected (%s, prefix %r): %s" % (target, pfx, p.err.decode(errors="replace")[:200]), input=src[:2000])
        return res
    mod, errs = ilcheck.validate(p.out)
    data = {d.name: d for d in mod.data}
    for i, want in enumerate(exp):
        img = qbeil.data_image(data["c%d" % i])[1]
        if img != want:
            res.fail = dict(sig="", msg="%s on %s: cproc %d, expected %d" % (lines[i], target, struct.unpack("<q", img)[0], struct.unpack("<q", want)[0]), input=lines[i])
            return res
        res.keys.append(sha([lines[i], target]))
    res.labels.append("esc-table:" + (pfx or "none"))
    res.sample = {"target": target, "prefix": pfx, "first": lines[:2]}
    return res


# ---- invalid literals must be rejected or passed through unaltered ------------------------------------

INVALID_UTF8 = [b"\x80", b"\xbf", b"\xc0\x80", b"\xc1\xbf", b"\xe0\x80\x80", b"\xe0\x9f\xbf", b"\xf0\x80\x80\x80", b"\xf0\x8f\xbf\xbf",
                b"\xed\xa0\x80", b"\xed\xaf\xbf", b"\xed\xb0\x80", b"\xed\xbf\xbf", b"\xf4\x90\x80\x80", b"\xf5\x80\x80\x80", b"\xf8\x88\x80\x80\x80",
                b"\xfc\x84\x80\x80\x80\x80", b"\xfe", b"\xff", b"\xc2", b"\xe2\x82", b"\xf0\x9f\x98", b"\xc2\x41", b"\xe2\x28\xa1", b"\xf0\x28\x8c\xbc"]


def invalid_enum(ctx):
    for ti in range(3):
        for prefix in ("", "u8", "u", "U", "L"):
            for bi in range(len(INVALID_UTF8)):
                for pos in ("alone", "mid"):
                    yield {"t": ti, "prefix": prefix, "b": bi, "pos": pos, "kind": "utf8"}
    for ti in range(3):
        for txt in ("int c = '';", "int c = L'';", "char s[] = \"\\q\";", "int c = '\\q';", "char s[] = \"\\x\";", "int c = '\\xg';", "char s[] = L\"a\" u\"b\";",
                    "char s[] = u\"a\" U\"b\";", "char s[] = u8\"a\" L\"b\";", "int c = 'a;", "char s[] = \"abc;", "char s[] = \"a\nb\";", "int c = '\\",
                    "int c = '\\8';", "int c = '\\9';", "char s[] = \"\\u12\";"):
            yield {"t": ti, "kind": "other", "src": txt}


def invalid_check(case, ctx):
    res = Result()
    res.n = 1
    target = cproc.TARGETS[case["t"]]
    if case["kind"] == "other":
        src = (case["src"] + "\n").encode()
        p = cproc.cc(ctx, src, target, "plain")
        res.keys.append(sha(case))
        res.sample = {"invalid": case["src"]}
        if p.rc == 0:
            res.fail = dict(sig="accepted:" + case["src"][:30], msg="malformed literal accepted: %s" % case["src"], input=case["src"])
        elif p.rc not in (1,) or not p.err:
            res.fail = dict(sig="", msg="malformed literal: status %s stderr %r" % (p.rc, p.err[:100]), input=case["src"])
        return res
    raw = INVALID_UTF8[case["b"]]
    body = raw if case["pos"] == "alone" else b"a" + raw + b"z"
    pfx = case["prefix"].encode()
    et = elem_type(case["prefix"]).encode()
    src = et + b" s[] = " + pfx + b"\"" + body + b"\";\n"
    p = cproc.cc(ctx, src, target, "plain")
    res.keys.append(sha(case))
    res.labels.append("invalid-utf8:" + (case["prefix"] or "none"))
    res.sample = {"invalid-utf8": raw.hex(), "prefix": case["prefix"]}
    if p.rc == 0:
        passthrough = False
        if case["prefix"] in ("", "u8"):
            mod, errs = ilcheck.validate(p.out)
            if mod is not None:
                img = qbeil.data_image(mod.data[-1])[1]
                passthrough = img == body + b"\0"
        if not passthrough:
            res.fail = dict(sig="", msg="invalid UTF-8 %s in a %s string literal accepted and altered (target %s)" % (raw.hex(), case["prefix"] or "plain", target),
                            input=src.decode("latin-1"))
    elif p.rc != 1 or b"error" not in p.err:
        res.fail = dict(sig="", msg="invalid UTF-8: status %s, stderr %r" % (p.rc, p.err[:100]), input=src.decode("latin-1"))
    return res


def sources(ctx):
    return [
        Source("esc-table", esc_check, enum=esc_enum, exhaustive=True),
        Source("invalid", invalid_check, enum=invalid_enum, exhaustive=True),
        Source("literals", literal_check, strategy=lambda c: literal_cases(), examples={"quick": 4000, "thorough": 120000}),
    ]
