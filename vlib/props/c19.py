"""C19 — the compiler proper is memory-safe, terminating and exits only 0, 1 or 2 (DESIGN 3/C19)."""
import glob
import os
import re
import tempfile

from hypothesis import strategies as st

from .. import build, clex, cproc
from ..runner import Result, Source, run, sha

ID = "C19"
LEVEL = "exploration"
RULE = ("inputs: (trunc) every corpus file cut at every token boundary [quick] / every byte [thorough]; "
        "(stress) one-parameter families of nested/long constructs swept over sizes 1,2,4,..; "
        "(mutate) Hypothesis token-level mutations of corpus files; (iofault) failing inputs/outputs; "
        "(fuzz) libFuzzer fork-harness campaign. Each is run on the ASan+UBSan build (asserts on); "
        "oracle: exit status in {0,1,2}, no signal/assert/sanitizer report, no hang (re-run 3x on the plain "
        "build with 60 s), I/O failure => non-zero status. non-trivial = input has >=1 token and is not "
        "byte-identical to a corpus file; distinct by content hash (fuzz: inputs that added coverage).")
ASSUMPTIONS = [
    "clang 14 ASan/UBSan detect the memory errors and undefined operations that occur",
    "NULL+0 (pointer-overflow check) is excluded by policy (DESIGN 2.1)",
    "stack exhaustion is judged on the plain gcc build with an 8 MiB stack only",
]

TARGETS = cproc.TARGETS
HANG_S = 15   # normal runs take milliseconds; inputs judged by this rule are <= 64 KiB


def prepare(ctx):
    cproc.prepare(ctx, ["plain", "asan"])
    files = sorted(glob.glob(os.path.join(build.REPO, "test", "*.c")))
    files += sorted(glob.glob(os.path.join(os.path.dirname(build.VERIF + "/"), "corpus", "c19", "*.c")))
    ctx.data["corpus"] = files
    hashes = set()
    for f in files:
        with open(f, "rb") as fh:
            hashes.add(sha(fh.read()))
    ctx.data["corpus_hashes"] = sorted(hashes)
    from . import c19_fuzz
    c19_fuzz.prepare(ctx)


def _args_for(path_or_case):
    name = os.path.basename(path_or_case)
    t = "x86_64-sysv"
    if "+" in name:
        t = name[:-2].split("+", 1)[1]
    return t


def judge(ctx, src, target, extra, res, what, size_limit_for_hang=1 << 16, stdin=True, timeout=12):
    """Run on the asan build; fill res.fail if the run ended badly."""
    p = cproc.cc(ctx, src, target, "asan", extra, timeout=timeout)
    c = cproc.classify(p)
    if c is None:
        return p
    kind, where, text = c
    if kind == "timeout":
        if len(src) > size_limit_for_hang:
            res.discard.append("inconclusive-timeout-large-input")
            return p
        # three confirmations on the plain build, run side by side
        from concurrent.futures import ThreadPoolExecutor
        with ThreadPoolExecutor(3) as ex:
            qs = list(ex.map(lambda _: cproc.cc(ctx, src, target, "plain", extra, timeout=HANG_S, preexec=cproc.limits(as_mb=4096)), range(3)))
        if not all(q.timeout for q in qs):
            res.discard.append("inconclusive-timeout-asan-only")
            return p
        res.fail = dict(sig="hang:" + cproc.hang_site(ctx, src, target, extra), msg="no termination within %d s (3x, plain build): %s" % (HANG_S, what))
        return p
    if kind == "asan-stack-overflow":
        q = cproc.cc(ctx, src, target, "plain", extra, timeout=60, preexec=cproc.limits(stack_mb=8))
        cq = cproc.classify(q)
        if cq is None:
            res.discard.append("asan-only-stack-overflow")
            return p
        kind, where, text = "stack-overflow", ":".join(what.split(":")[:2]) if what.startswith("stress:") else what.split(":")[0], "plain build, 8 MiB stack: %s" % (cq[0],)
    res.fail = dict(sig="%s:%s" % (kind, where), msg="%s %s (%s, target %s, args %s)\n%s"
                    % (kind, where, what, target, list(extra), text))
    return p


def _nontrivial(ctx, src, res):
    if isinstance(src, str):
        src = src.encode("utf-8", "surrogateescape")
    if not src.strip():
        return
    h = sha(src)
    if h not in ctx.data["corpus_hashes"]:
        res.keys.append(h)


# ----------------------------------------------------------------------------- truncation

def trunc_enum(ctx):
    for fi, path in enumerate(ctx.data["corpus"]):
        with open(path, "rb") as f:
            data = f.read()
        if ctx.tier == "thorough":
            cuts = range(len(data) + 1)
        else:
            text = data.decode("utf-8", "surrogateescape")
            cuts = set()
            try:
                toks = clex.lex(text)
            except clex.LexError:
                toks = []
            # byte offsets of token starts/ends found by re-scanning the text for each spelling in order
            pos = 0
            for tk in toks:
                if tk.kind == "newline":
                    continue
                j = text.find(tk.s, pos)
                if j < 0:
                    continue
                cuts.add(len(text[:j].encode("utf-8", "surrogateescape")))
                end = j + len(tk.s)
                cuts.add(len(text[:end].encode("utf-8", "surrogateescape")))
                if tk.kind in ("string", "char") or len(tk.s) > 1:
                    cuts.add(len(text[:j + 1].encode("utf-8", "surrogateescape")))
                    cuts.add(len(text[:end - 1].encode("utf-8", "surrogateescape")))
                pos = end
            # inside comments: every 7th byte as a cheap stand-in; thorough does every byte
            cuts.update(range(0, len(data), 7))
            cuts = sorted(c for c in cuts if c < len(data)) + [len(data)]
        for c in cuts:
            yield {"file": os.path.relpath(path, build.REPO) if path.startswith(build.REPO) else path,
                   "cut": c}


def _load(case):
    p = case["file"]
    if not os.path.isabs(p):
        p = os.path.join(build.REPO, p)
    with open(p, "rb") as f:
        return f.read()


def trunc_check(case, ctx):
    res = Result()
    res.n = 1
    data = _load(case)[:case["cut"]]
    target = _args_for(case["file"])
    extra = ["-E"] if os.path.exists(os.path.join(build.REPO, case["file"][:-2] + ".pp")) else []
    judge(ctx, data, target, extra, res, "trunc:%s@%d" % (case["file"], case["cut"]))
    _nontrivial(ctx, data, res)
    res.labels.append("trunc")
    res.sample = {"source": "trunc", "file": case["file"], "cut": case["cut"], "tail": data[-40:].decode("latin-1")}
    return res


# ----------------------------------------------------------------------------- stress families

def _nest(open_, close, mid):
    return lambda n: open_ * n + mid + close * n


FAMILIES = {
    # name: (kind, generator)   kind: "nest" (recursion depth ~ n) or "len" (length ~ n)
    "paren-expr": ("nest", lambda n: "int x = " + "(" * n + "1" + ")" * n + ";\n"),
    "paren-expr-fn": ("nest", lambda n: "int f(int a){return " + "(" * n + "a" + ")" * n + ";}\n"),
    "array-decl": ("len", lambda n: "int a" + "[1]" * n + ";\n"),
    "array-decl-nest": ("nest", lambda n: "int a[" + "sizeof(char[" * n + "1" + "])" * n + "];\n"),
    "braces": ("nest", lambda n: "void f(void)" + "{" * n + "}" * n + "\n"),
    "unary-minus": ("nest", lambda n: "int x = " + "-" * 0 + "- " * n + "1;\n"),
    "unary-not": ("nest", lambda n: "int x = " + "!" * n + "1;\n"),
    "unary-bnot": ("nest", lambda n: "int x = " + "~" * n + "1;\n"),
    "unary-deref": ("nest", lambda n: "int f(int *p){return " + "*&" * n + "*p;}\n"),
    "sizeof-chain": ("nest", lambda n: "unsigned long x = " + "sizeof " * n + "1;\n"),
    "casts": ("nest", lambda n: "int x = " + "(int)" * n + "1;\n"),
    "ptr-decl": ("len", lambda n: "int " + "*" * n + "p;\n"),
    "paren-decl": ("nest", lambda n: "int " + "(" * n + "p" + ")" * n + ";\n"),
    "func-decl": ("nest", lambda n: "int f" + "(int (*p)" * n + "(void)" + ")" * n + ";\n"),
    "func-ret": ("nest", lambda n: "int " + "(*" * n + "f" + ")(void)" * n + ";\n"),
    "struct-nest": ("nest", lambda n: "struct {" * n + "int x;" + "} a;" * n + "\n"),
    "union-nest": ("nest", lambda n: "union {" * n + "int x;" + "} a;" * n + "\n"),
    "init-braces": ("nest", lambda n: "int a" + "[1]" * n + " = " + "{" * n + "1" + "}" * n + ";\n"),
    "init-braces-scalar": ("nest", lambda n: "int a = " + "{" * n + "1" + "}" * n + ";\n"),
    "designators": ("len", lambda n: "int a" + "[1]" * n + " = {" + "[0]" * n + " = 1};\n"),
    "designators-struct": ("len", lambda n: "struct s0 {int x;};" + "".join(
        "struct s%d {struct s%d m;};" % (i + 1, i) for i in range(n)) + "struct s%d v = {" % n + ".m" * n + ".x = 1};\n"),
    # a designator that reaches its member through n anonymous struct/union levels, then continues positionally
    "designators-anon": ("len", lambda n: "struct s {" + "struct {" * n + "int x; int y;" + "};" * n + "int z;} v = {.x = 1, 2, 3};\n"),
    "designators-anon-union": ("len", lambda n: "struct s {int a;" + "union { struct {" * n + "int x; int y;" + "}; };" * n + "} v = {.y = 1};\n"),
    "designators-anon-local": ("len", lambda n: "void f(void){struct {" + "struct {" * n + "int x; char y[3];" + "};" * n + "} v = {.y[1] = 1, 2}; (void)v;}\n"),
    "offsetof-anon": ("len", lambda n: "struct s {char c;" + "struct {" * n + "int x;" + "};" * n + "}; unsigned long o = __builtin_offsetof(struct s, x);\n"),
    "designators-local": ("len", lambda n: "void f(void){int a" + "[1]" * n + " = {" + "[0]" * n + " = 1};}\n"),
    "init-elide": ("nest", lambda n: "struct s0 {int x;};" + "".join(
        "struct s%d {struct s%d m;};" % (i + 1, i) for i in range(n)) + "struct s%d v = {1};\n" % n),
    "cond-chain": ("nest", lambda n: "int x = " + "1?1:" * n + "1;\n"),
    "cond-chain-mid": ("nest", lambda n: "int x = " + "1?" * n + "1" + ":1" * n + ";\n"),
    "cond-chain-rt": ("nest", lambda n: "int f(int a){return " + "a?1:" * n + "1;}\n"),
    "else-if": ("nest", lambda n: "int f(int a){" + "if(a==1)return 1;else " * n + "return 0;}\n"),
    "if-nest": ("nest", lambda n: "int f(int a){" + "if(a)" * n + "return 1;return 0;}\n"),
    "while-nest": ("nest", lambda n: "void f(int a){" + "while(a)" * n + ";}\n"),
    "switch-nest": ("nest", lambda n: "void f(int a){" + "switch(a){case 1:" * n + ";" + "}" * n + "}\n"),
    "cases": ("len", lambda n: "void f(int a){switch(a){" + "".join("case %d:;" % i for i in range(n)) + "}}\n"),
    # adjacent string literals: n + 1 of them, the last with a prefix that contradicts the one an earlier literal fixed (a constraint
    # violation that has to be diagnosed whatever the number of literals seen so far), and valid runs of the same lengths
    "strcat-mismatch-last": ("len", lambda n: "void *p = u\"a\"" + " \"b\"" * max(n - 1, 0) + " U\"c\";\n"),
    "strcat-mismatch-mid": ("len", lambda n: "void *p = " + "\"a\" " * (n // 2) + "L\"b\"" + " \"c\"" * (n - n // 2) + " u8\"d\" \"e\";\n"),
    "strcat-prefix-last": ("len", lambda n: "void *p = " + "\"a\" " * n + "U\"c\";\n"),
    "strcat-prefix-first": ("len", lambda n: "void *p = u\"a\"" + " \"b\"" * n + ", *q = \"a\" \"b\" L\"c\" u\"d\";\n"),
    "cases-desc": ("len", lambda n: "void f(long a){switch(a){" + "".join("case %d:;" % (-i * 3) for i in range(n)) + "}}\n"),
    "call-args": ("len", lambda n: "int f(" + ",".join(["int"] * max(n, 1)) + ");int g(void){return f(" + ",".join(["1"] * max(n, 1)) + ");}\n"),
    "call-varargs": ("len", lambda n: "int f(int,...);int g(void){return f(0" + ",1" * n + ");}\n"),
    "call-nest": ("nest", lambda n: "int f(int);int g(void){return " + "f(" * n + "1" + ")" * n + ";}\n"),
    "params": ("len", lambda n: "int f(" + ",".join("int a%d" % i for i in range(max(n, 1))) + "){return a0;}\n"),
    "string-len": ("len", lambda n: 'char s[] = "' + "a" * n + '";\n'),
    "string-esc": ("len", lambda n: 'char s[] = "' + "\\377" * n + '";\n'),
    "wstring-len": ("len", lambda n: 'int s[] = L"' + "\u00e9" * n + '";\n'),
    "string-concat": ("len", lambda n: "char s[] = " + '"a" ' * max(n, 1) + ";\n"),
    "string-ptr": ("len", lambda n: 'char *s = "' + "b" * n + '";\n'),
    "ident-len": ("len", lambda n: "int " + "a" * max(n, 1) + ";\n"),
    "ident-undeclared": ("len", lambda n: "int x = " + "q" * max(n, 1) + ";\n"),
    "tag-len": ("len", lambda n: "struct " + "t" * max(n, 1) + " {int x;} v;\n"),
    "number-len": ("len", lambda n: "int x = " + "1" * max(n, 1) + ";\n"),
    "number-zeros": ("len", lambda n: "int x = 0" + "0" * n + ";\n"),
    "number-suffix": ("len", lambda n: "int x = 1" + "u" * max(n, 1) + ";\n"),
    "float-len": ("len", lambda n: "double x = 1." + "1" * n + ";\n"),
    "float-exp": ("len", lambda n: "double x = 1e" + "9" * max(n, 1) + ";\n"),
    "char-const-len": ("len", lambda n: "int x = '" + "a" * max(n, 1) + "';\n"),
    "bad-token-len": ("len", lambda n: "int x = " + "@" * max(n, 1) + ";\n"),
    "expected-token": ("len", lambda n: "int " + "a" * max(n, 1) + " " + "b" * max(n, 1) + ";\n"),
    "expected-string": ("len", lambda n: 'int "' + "a" * max(n, 1) + '";\n'),
    "expected-number": ("len", lambda n: "int 1" + "0" * max(n, 1) + ";\n"),
    "macro-args": ("len", lambda n: "#define G(...) 1\nint x = G(" + ",".join(["1"] * max(n, 1)) + ");\n"),
    "macro-params": ("len", lambda n: "#define G(" + ",".join("p%d" % i for i in range(max(n, 1))) + ") p0\nint x = G(" + ",".join(["1"] * max(n, 1)) + ");\n"),
    "macro-nest": ("nest", lambda n: "#define F(x) x\nint x = " + "F(" * n + "1" + ")" * n + ";\n"),
    "macro-chain": ("len", lambda n: "".join("#define M%d M%d\n" % (i, i + 1) for i in range(n)) + "#define M%d 1\nint x = M0;\n" % n),
    "macro-stringize": ("len", lambda n: "#define S(x) #x\nchar s[] = S(" + "a " * max(n, 1) + ");\n"),
    "macro-body-len": ("len", lambda n: "#define B " + "1+" * n + "1\nint x = B;\n"),
    "macro-many": ("len", lambda n: "".join("#define A%d %d\n" % (i, i) for i in range(n)) + "int x = A0;\n" if n else "int x;\n"),
    "macro-redef": ("len", lambda n: "#define A 1\n" * max(n, 1) + "int x = A;\n"),
    "macro-undef": ("len", lambda n: "#define A 1\n#undef A\n" * max(n, 1) + "int A;\n"),
    "macro-kw-reuse": ("len", lambda n: "#define K int\n" + "K a%d;\n" * 0 + "".join("K a%d;\n" % i for i in range(max(n, 1)))),
    "gnuattr-parens": ("nest", lambda n: "__attribute__((x" + "(" * n + ")" * n + ")) int a;\n"),
    "attr-parens": ("nest", lambda n: "[[x" + "(" * n + ")" * n + "]] int a;\n"),
    "attr-many": ("len", lambda n: "[[" + ",".join(["x"] * max(n, 1)) + "]] int a;\n"),
    "attr-specs": ("len", lambda n: "[[x]]" * max(n, 1) + " int a;\n"),
    "binchain": ("nest", lambda n: "int x = " + "1+" * n + "1;\n"),
    "binchain-rt": ("nest", lambda n: "int f(int a){return " + "a+" * n + "1;}\n"),
    "binchain-prec": ("nest", lambda n: "int x = " + "1|1^1&1==1<1<<1+1*" * n + "1;\n"),
    "logical-chain": ("nest", lambda n: "int f(int a){return " + "a&&" * n + "1;}\n"),
    "comma-chain": ("len", lambda n: "void f(int a){" + "a," * n + "a;}\n"),
    "assign-chain": ("nest", lambda n: "void f(int a){" + "a=" * n + "1;}\n"),
    "compound-assign-chain": ("nest", lambda n: "void f(int a){" + "a+=" * n + "1;}\n"),
    "decls": ("len", lambda n: "".join("int v%d;\n" % i for i in range(max(n, 1)))),
    "decl-list": ("len", lambda n: "int " + ",".join("v%d" % i for i in range(max(n, 1))) + ";\n"),
    "locals": ("len", lambda n: "void f(void){" + "".join("int v%d = %d;" % (i, i) for i in range(max(n, 1))) + "}\n"),
    "labels": ("len", lambda n: "void f(void){" + "".join("l%d:;" % i for i in range(max(n, 1))) + "goto l0;}\n"),
    "gotos": ("len", lambda n: "void f(void){l:;" + "goto l;" * max(n, 1) + "}\n"),
    "members": ("len", lambda n: "struct s {" + "".join("int m%d;" % i for i in range(max(n, 1))) + "} v;\n"),
    "bitfields": ("len", lambda n: "struct s {" + "".join("int m%d:3;" % i for i in range(max(n, 1))) + "} v = {1};\n"),
    "enumerators": ("len", lambda n: "enum e {" + ",".join("E%d" % i for i in range(max(n, 1))) + "};\n"),
    "member-chain": ("nest", lambda n: "struct s {struct s *n; int v;};int f(struct s *p){return p" + "->n" * n + "->v;}\n"),
    "index-chain": ("nest", lambda n: "int f(int *p){return p" + "[p" * n + "[0]" + "]" * n + ";}\n"),
    "typeof-nest": ("nest", lambda n: "typeof(" * n + "int" + ")" * n + " x;\n"),
    "generic-nest": ("nest", lambda n: "int x = " + "_Generic(0, int: " * n + "1" + ")" * n + ";\n"),
    "alignas-many": ("len", lambda n: "_Alignas(8) " * max(n, 1) + "long x;\n"),
    "quals-many": ("len", lambda n: "const " * max(n, 1) + "int x;\n"),
    "static-assert-many": ("len", lambda n: "_Static_assert(1, \"\");" * max(n, 1) + "\n"),
    "comment-len": ("len", lambda n: "/*" + "*" * n + "*/int x;\n"),
    "comment-lines": ("len", lambda n: "/*" + "\n" * n + "*/int x;\n"),
    "line-comment": ("len", lambda n: "//" + "x" * n + "\nint x;\n"),
    "newlines": ("len", lambda n: "\n" * n + "int x;\n"),
    "splices": ("len", lambda n: "int" + "\\\n" * n + " x;\n"),
    "spaces": ("len", lambda n: " " * n + "int x;\n"),
    "line-markers": ("len", lambda n: "".join("# %d \"f%d.c\"\n" % (i + 1, i) for i in range(max(n, 1))) + "int x;\n"),
    "pragma": ("len", lambda n: "#pragma " + "x " * n + "\nint x;\n"),
    "vla-dims": ("len", lambda n: "void f(int n){int a" + "[n]" * max(n, 1) + ";}\n"),
    "compound-lit-nest": ("nest", lambda n: "int f(void){return " + "(int){" * n + "1" + "}" * n + ";}\n"),
    "unterminated-paren": ("nest", lambda n: "int x = " + "(" * max(n, 1) + "\n"),
    "unterminated-brace": ("nest", lambda n: "void f(void)" + "{" * max(n, 1) + "\n"),
    "unterminated-attr": ("nest", lambda n: "[[x" + "(" * max(n, 1) + "\n"),
    "unterminated-gnuattr": ("nest", lambda n: "__attribute__((x" + "(" * max(n, 1) + "\n"),
    "unterminated-macro": ("nest", lambda n: "#define F(x) x\nint y = " + "F(" * max(n, 1) + "\n"),
    "unterminated-init": ("nest", lambda n: "int a[] = " + "{" * max(n, 1) + "\n"),
}

# fixed-size edge inputs (constant expressions at the limits, sizes near 2^64, ...)
EDGES = [
    # initialisers and compound literals of types that are not object types
    "int *x = &(int(int)){2};", "void f(void){(void){0};}", "void f(void){sizeof((int(void)){0});}", "typedef void F(void);F g={0};", "void f(void){(struct u){0};}",
    "typedef int A[];void f(void){(A){};}", "void f(int n){(int[n]){0};}", "void v={};",
    # struct/union bodies that declare no named member
    "struct pad{int:3;};struct pad p={0};", "struct chk{_Static_assert(1,\"\");};struct outer{struct chk c;int x;};", "union u{int:0;};void f(void){union u v={1};}",
    "struct e{int:0;int:5;}x;int y=sizeof x;", "struct s{_Static_assert(1,\"\");int:1;};void f(void){struct s a={},b;b=a;}", "struct t{struct{int:2;};};struct t v={{0}};",
    # void expressions in every position a value may be dropped
    "void f(void*b){*b;}", "void g(void);void f(void*b,int c){c?*b:g();}", "void f(void*b){(void)*b;}", "void f(const void*b){*b,*b;}", "void f(void){*(void*)0;}",
    "void f(volatile void*b){*b;}", "void f(void*b){for(*b;;*b)break;}", "void g(void);void f(void*b){g(),*b;}", "void f(void**b){**b;}", "void f(void*b){b[0];}",
    # objects and types of size zero (GNU zero-length arrays, structs made of them) in every storage class and use
    "void f(void){struct{char s[0];}x;}", "void f(void){int b[0];}", "int g(int*);int f(void){int b[0];return g(b);}", "struct{char s[0];}x;int y=sizeof x;",
    "int a[0];int*p=a;", "void f(void){static int b[0];}", "void f(void){int b[0][3];int c[3][0];}", "struct z{int a[0];};struct z f(struct z v){return v;}",
    "struct z{int a[0];};void f(void){struct z a,b;a=b;}", "struct z{int a[0];};void f(void){struct z a={};}", "union{int a[0];}u;", "void f(void){int a[0];a[0]=1;}",
    "typedef int Z[0];Z z;void f(Z*p){(*p)[0]=1;}", "void f(void){char c[0]=\"\";}", "void f(int n){int a[n][0];}", "void f(void){struct{}*p;}",
    # zero fill of automatic objects whose type is aligned to more than the widest store; initialisers for arrays without elements
    "void f(void){struct{_Alignas(16) char c[40];}s={1};}", "void f(void){struct{long double i[3];char c;}s={.c=1};}", "void f(void){struct{_Alignas(64) int a;int b[20];}s={.b[3]=1};}",
    "void f(void){struct{_Alignas(32) char c;}a[3]={{1},{2}};}", "void f(void){union{_Alignas(16) char c[20];int i;}u={.i=1};}", "int b[0]={1,2,3};", "struct{int a[0];int b;}s={1};",
    "void f(void){int b[0]={1};}", "struct{int b;int a[0];}s={1,2};", "int c[0][2]={{1,2}};", "void f(void){struct{int a[0];}s={{1}};}",
    "int x; char s[6] = { \"abc\", [2] = x };", "struct { unsigned short s[6]; } u = { .s = u\"abc\", .s[2] = u.s[3] = 1 };", "int f(void); struct { char s[4]; } v = { \"ab\", .s[1] = f() };",
    # assembler labels in every order of declarations with and without one
    "int f(void); int f(void) __asm__(\"g\");", "int x; int x __asm__(\"y\");", "int counter; int get(void){ extern int counter __asm__(\"ctr\"); return counter; }",
    "int f(void) __asm__(\"g\"); int f(void);", "int x __asm__(\"y\"); int x __asm__(\"z\");", "extern int x __asm__(\"y\"); int x = 1; int x __asm__(\"y\");", "void h(void){ extern int q; { extern int q __asm__(\"r\"); } }",
    "int f(void); void h(void){ int f(void) __asm__(\"g\"); }", "static int s; static int s __asm__(\"t\");", "int x __asm__(\"\"); int y __asm__(\"a b\"); int z __asm__(\"\\\"\");",
    "enum E; enum E x; int y;", "enum E *p; enum E v;", "void f(void){ enum F; enum F w; }", "struct S; struct S x;", "union U y; union U;",
    # labels: defined twice, used and never defined, spelled through macros (one spelling object shared by all uses)
    "void f(void){done: ; goto done; done: ;}", "#define FAIL out\nint f(int x){if (x) goto FAIL; if (x > 1) goto FAIL; return 0; FAIL: return 1;}", "#define L lab\nvoid f(void){L: ; L: ;}",
    "#define L lab\nvoid f(void){goto L; goto L;}", "void f(void){goto a; goto b; a: goto b;}", "#define M(x) x: goto x;\nvoid f(void){M(p) M(q) M(p)}",
    "static int x = 1/0;", "static int x = 1%0;", "static unsigned x = 1u/0u;", "static unsigned long x = 1ul%0ul;",
    "void f(int a){switch(a){case 1/0:;}}", "enum e {A = 1/0};", "int a[1/0];", "struct s {int x:1/0;};",
    "static int x = (-2147483647-1)/-1;", "static int x = (-2147483647-1)%-1;",
    "static long x = (-9223372036854775807L-1)/-1;", "static long x = (-9223372036854775807L-1)%-1;",
    "static long long x = (-9223372036854775807LL-1)/-1LL;",
    "_Static_assert((-9223372036854775807L-1)/-1, \"\");", "int a[(-9223372036854775807L-1)%-1 + 1];",
    "static int x = 1<<32;", "static int x = 1<<-1;", "static int x = 1>>64;", "static long x = 1L<<64;",
    "static long x = 1L<<65;", "static unsigned long x = 1UL>>64;", "static int x = -1>>1000;",
    "static int x = (int)1e100;", "static unsigned x = (unsigned)-1.0;", "static long x = (long)1e19;",
    "static unsigned long x = (unsigned long)1e20;", "static int x = (int)(1.0/0.0);", "static int x = (int)(0.0/0.0);",
    "static long x = (long)-1e19;", "static unsigned long x = (unsigned long)-0.5;", "static char x = (char)1e10;",
    "static _Bool x = (_Bool)1e300;", "static int x = 1.0/0;", "static double x = 1/0.0;", "static double x = 0.0/0.0;",
    "static float x = 1e39f;", "static float x = 1e-50f;", "static double x = 1e400;", "static double x = 0x1p99999;",
    "char a[0x7fffffffffffffff];", "char a[0xffffffffffffffff];", "int a[0x4000000000000000];",
    "int a[0x3fffffffffffffff];", "long a[0x2000000000000000];", "char a[0xffffffff][0xffffffff];",
    "char a[0x100000000][0x100000000];", "char a[0xffffffffffffffff][2];", "struct s {char a[0xffffffffffffffff]; char b;};",
    "struct s {char a[0xfffffffffffffff0]; long b; long c; long d;} v;", "char a[-1];", "char a[-9223372036854775807L-1];",
    "char a[18446744073709551615u];", "char a[18446744073709551616];", "int x = 99999999999999999999;",
    "int x = 0xffffffffffffffffff;", "int x = 01777777777777777777777;", "int x = 0b" + "1" * 65 + ";",
    "void f(void){char a[0x7fffffffffffffff];}", "void f(void){int a[0x4000000000000000]; a[0] = 1;}",
    "void f(void){char a[0xfffffffffffffff0]; a[0] = 1;}",
    "enum e {A = 0x7fffffffffffffff, B};", "enum e {A = 0xffffffffffffffff, B};",
    "enum e {A = -0x7fffffffffffffff-1, B = 0x8000000000000000};", "enum e {A = -0x7fffffffffffffff-1, B};",
    "enum e {A = 0x8000000000000000, B = -1};", "enum e : unsigned char {A = 255, B};", "enum e : long {A = 0x7fffffffffffffff, B};",
    "enum e : _Bool {A = 1, B};", "enum e : int {A = -2147483648, B = 2147483647, C};", "enum e : unsigned long {A = 0xffffffffffffffff, B};",
    "enum e {A = 2147483647, B};", "enum e {A = 4294967295, B};", "enum e {A = -1, B = 4294967295};",
    "struct s {int x:33;};", "struct s {int x:0xffffffffffffffff;};", "struct s {long x:65;};", "struct s {int x:-1;};",
    "struct s {_Bool x:2;};", "struct s {_Bool x:8;} v = {1};", "struct s {char c; long x:64; char d;} v = {1,-1,1};",
    "struct s {int :0; int :0;};", "struct s {int :0;};", "struct s {int :5;};", "union u {int :3;};",
    "_Alignas(0x80000000) int x;", "_Alignas(0x100000000) int x;", "_Alignas(3) int x;", "_Alignas(0x40000000) int x;",
    "void f(void){_Alignas(0x40000000) int x; x = 1;}", "void f(void){_Alignas(4096) char x; x = 1;}",
    "struct s {_Alignas(0x40000000) char c;} v;", "struct s {_Alignas(1024) char c; char d;} v = {1, 2};",
    "__attribute__((aligned(0))) int x;", "__attribute__((aligned(0x100000000))) int x;", "__attribute__((aligned)) int x;",
    "struct __attribute__((packed)) s {char c; long l;} v = {1, 2};", "struct __attribute__((aligned(8))) s {char c;};",
    "int x = sizeof(char[0x7fffffffffffffff]);", "int x = _Alignof(char[0x7fffffffffffffff]);",
    "long x = __builtin_offsetof(struct {char a[0xfffffffffffffff]; int b;}, b);",
    "int *p = &((int *)0)[0x7fffffffffffffff];", "int g; int *p = &g + 0x7fffffffffffffff;", "int g; int *p = &g - 0x7fffffffffffffff - 2;",
    "char *p = \"abc\" + 0x7fffffffffffffff;", "int g[2]; long d = &g[1] - &g[0];", "int g; int *p = &*&*&g;",
    "int x = '\\777';", "int x = '\\xffffffffffffffffff';", "int x = L'\\xffffffffff';", "int x = u'\\xfffff';",
    "int x = '';", "int x = 'ab';", "char s[] = \"\\x\";", "char s[] = \"\\q\";", "char s[] = \"\\400\";", "char s[] = \"\\xfff\";",
    "unsigned short s[] = u\"\\x10000\";", "char s[] = \"\xff\";", "char s[] = \"\xc0\x80\";", "char s[] = \"\xed\xa0\x80\";",
    "char s[] = \"\xf4\x90\x80\x80\";", "char s[] = \"\xe2\x82\";", "char s[] = \"\xf0\x9f\x98\";", "int c = '\xe9';", "int c = L'\xf0\x9f';",
    "unsigned short c = u'\xf0\x9f\x98\x80';", "char s[2] = \"abc\";", "char s[0] = \"\";", "int s[] = \"abc\";", "char s[] = L\"abc\";",
    "char s[] = u8\"a\" L\"b\";", "char s[] = \"a\" u8\"b\" \"c\";", "unsigned s[] = U\"a\" \"b\";",
    "#define", "#define 1", "#define A(", "#define A(x", "#define A(x,", "#define A(x,)", "#define A(...", "#define A(..., x) x",
    "#define A(x) #", "#define A(x) #y", "#define A(x) x ## x", "#define A ##", "#undef", "#undef 1", "#line", "#line x", "#line 1 2",
    "#line 99999999999999999999", "#line 1 \"", "#line 1 \"a", "# 1 \"a\" 1 2 3 4", "# 1 x", "#pragma", "#pragma once", "#error x", "#include <x>",
    "#if 1\n#endif", "#ifdef X\n#endif", "#else", "#foo", "# ", "#\n", "#define A(x) x\nint y = A;", "#define A(x) x\nint y = A(;",
    "#define A(x) x\nint y = A(1,2);", "#define A(x,y) x\nint y = A(1);", "#define A() 1\nint y = A(1);", "#define A(x) x\nint y = A(",
    "#define A A\nint A;", "#define A B\n#define B A\nint A;", "#define A(x) A(x)\nint y = A(1);", "#define __VA_ARGS__ 1", "#define A __VA_ARGS__",
    "#define f(x) #x\nchar *s = f(\"\\\"\\\\\");", "#define f(x) #x\nchar *s = f('\"');", "#define f(x) #x\nchar *s = f(\n\n);",
    "#define E\nE E E int E x E;", "#define int long\nint x;", "#define K int\nK a; K b; K c;", "#define K(t) t\nK(int) a; K(long) b; K(int) c;",
    "#define S struct\nS s {int x;}; S s v; S s w;", "#define R return\nint f(void){R 1;} int g(void){R 2;}",
    "#define W while\nvoid f(int a){W(a)W(a);}", "#define T(x) sizeof x\nint a = T(int), b = T(long);",
    "[[", "[[]]", "[[]] ;", "[[x::y]] int a;", "[[x::]] int a;", "[[::]] int a;", "[[gnu::aligned]] int a;", "[[gnu::aligned(]] int a;",
    "[[gnu::packed]] int a;", "[[gnu::aligned(8)]] int a;", "[[x(]", "[[x(", "[[x(()", "__attribute__", "__attribute__(", "__attribute__((",
    "__attribute__((x(", "__attribute__((x)) __attribute__((y", "__attribute__((aligned(", "__attribute__((aligned(1+)))) int x;",
    "int x __attribute__((x));", "int f(void) __attribute__((noreturn));", "struct [[x]] s {int a;};", "enum [[x]] e {A [[y]] = 1};",
    "void f(void){[[x]];}", "void f(void){[[x]] int a; [[y]] a = 1;}", "void f(int a){switch(a){[[x]] case 1:;}}",
    "int a[[x]];", "int a[1][[x]];", "int a[[[x]]1];",
    "void f(void){goto nowhere;}", "void f(void){l: l:;}", "void f(void){break;}", "void f(void){continue;}", "void f(void){case 1:;}",
    "void f(void){default:;}", "void f(int a){switch(a){case 1: case 1:;}}", "void f(int a){switch(a){default: default:;}}",
    "void f(int a){switch(a){case 1: switch(a){case 1:;} case 2:;}}", "void f(int a){switch(a) case 1: case 2:;}", "void f(int a){switch(a);}",
    "void f(int a){switch(a){}}", "void f(int a){switch(a){int x; case 1: x = 1;}}", "void f(long a){switch(a){case 0x100000000: case 0:;}}",
    "void f(unsigned char a){switch(a){case 256: case 0:;}}", "void f(int a){switch(a){case 4294967296:;case 0:;}}",
    "void f(int a){switch(a){case -1:;case 4294967295:;}}", "void f(void){switch(1.0){}}", "void f(int *p){switch(p){}}",
    "int f(void){return;}", "void f(void){return 1;}", "int f(void){}", "_Noreturn void f(void){}", "_Noreturn int f(void){return 1;}",
    "void f(void){f(}", "void f(void){f(1);}", "void f(int);void g(void){f();}", "void f(void){int x; x();}", "void f(void){1 = 2;}",
    "void f(void){int a[2]; a = 0;}", "void f(void){const int x = 1; x = 2;}", "void f(void){const int x = 1; x++;}",
    "void f(void){struct s {const int m;} v; v.m = 1;}", "void f(void){volatile int x; x = 1;}", "void f(void){volatile int x = 1;}",
    "volatile int x = 1;", "void f(void){long double x = 1; x = x + 1;}", "long double x = 1.0L;", "long double x = 1;", "long double f(long double a){return a;}",
    "_Atomic int x;", "_Atomic(int) x;", "_Complex double x;", "double _Complex x;", "void f(void){__asm__(\"nop\");}", "__asm__(\"nop\");",
    "_BitInt(3) x;", "_Decimal32 x;", "_Imaginary x;", "constexpr int x = 1;", "auto x = 1;", "register int x;", "typeof(1) x = 2;",
    "typeof_unqual(const int) x;", "typeof(int[2]) a;", "typeof(void(void)) f;", "typeof(f) g;", "nullptr_t x;", "int *p = nullptr;", "typeof(nullptr) q = nullptr;",
    "int x = nullptr;", "_Bool b = nullptr;", "void f(void){nullptr;}", "int x = true + false;", "bool b = 2;", "static_assert(1);", "static_assert(0);",
    "_Static_assert(0, \"m\");", "_Static_assert(1, 1);", "_Static_assert(1, L\"a\");", "_Static_assert(1, \"a\" \"b\");", "_Static_assert(1.5, \"\");", "_Static_assert(x, \"\");",
    "int x = _Generic(1);", "int x = _Generic(1, int: 1, int: 2);", "int x = _Generic(1, default: 1, default: 2);", "int x = _Generic(1, long: 1);",
    "int x = _Generic(1, void: 1, default: 2);", "int x = _Generic(1, int[]: 1, default: 2);", "int x = _Generic(\"a\", char *: 1);", "int x = _Generic((char)1, char: 1);",
    "int x = _Generic(1, struct s: 1, default: 2);", "int x = _Generic(1, int(void): 1, default: 2);",
    "int x = sizeof(void);", "int x = sizeof(int(void));", "int x = sizeof(struct s);", "int x = _Alignof(void);", "int x = _Alignof 1;", "int x = sizeof(int[]);",
    "struct s {int a:3;} v; int x = sizeof v.a;", "int x = sizeof(int){1};", "int x = sizeof(int){1}.a;", "int x = sizeof(struct {int a;}){1}.a;",
    "int x = __builtin_offsetof(int, a);", "int x = __builtin_offsetof(struct {int a;}, b);", "int x = __builtin_offsetof(struct {int a[2];}, a[5]);",
    "int x = __builtin_offsetof(struct {int a[2];}, a[-1]);", "int x = __builtin_offsetof(struct {struct {int b;} a;}, a.b.c);", "int x = __builtin_offsetof(struct s, a);",
    "int x = __builtin_types_compatible_p(int, );", "int x = __builtin_types_compatible_p(int);", "int x = __builtin_constant_p();", "int x = __builtin_constant_p(x);",
    "float x = __builtin_nanf(\"1\");", "float x = __builtin_nanf(1);", "float x = __builtin_inff(1);", "void f(void){__builtin_unreachable(1);}",
    "void *f(void){return __builtin_alloca();}", "void *f(void){return __builtin_alloca(-1);}", "void *p = __builtin_alloca(1);", "int x = __builtin_expect(1);",
    "void f(void){__builtin_va_list ap; __builtin_va_start(ap); }", "void f(int a, ...){__builtin_va_list ap; __builtin_va_start(ap, a); __builtin_va_arg(ap, struct {int x;}); }",
    "void f(int a, ...){__builtin_va_list ap; __builtin_va_arg(ap); }", "void f(int a, ...){__builtin_va_arg(a, int); }", "void f(int a, ...){__builtin_va_list ap; __builtin_va_copy(ap, a); }",
    "void f(int a, ...){__builtin_va_list ap; __builtin_va_end(a); }", "__builtin_va_list ap;", "int __builtin_alloca;", "int x = __builtin_alloca;", "void f(void){__builtin_va_start;}",
    "void f(void){__builtin_va_list;}", "int x = (__builtin_offsetof);", "typedef int T; T T;", "typedef int T; void f(void){T T; T = 1;}", "typedef int T; void f(void){T: ; }",
    "typedef int T; int f(T);", "typedef int T; int f(int T){return T;}", "typedef int T; int f(T T);", "typedef int T; int x = sizeof(T);", "typedef int T, T;", "typedef int T; typedef long T;",
    "typedef int A[]; A a = {1}, b = {1, 2}; int x = sizeof a, y = sizeof b;", "typedef struct s S; S v;", "typedef int F(void); F f {}", "typedef int F(void); F f; int f(void){return 1;}",
    "int f(void), g(void){return 1;}", "int x, f(void){return 1;}", "int f(void){return 1;} int f(void){return 2;}", "int x = 1; int x = 2;", "int x; long x;", "static int x; int x;", "int x; static int x;",
    "extern int x; static int x;", "static int x; extern int x; int y = sizeof x;", "int f(void); static int f(void);", "void g(void){extern int x; static int x;}", "void g(void){int x; int x;}", "void g(void){int x; extern int x;}",
    "void g(void){extern int x = 1;}", "void g(void){static int f(void);}", "void g(void){_Thread_local int x;}", "void g(void){auto int x; register int y;}", "auto int x;", "register int x;",
    "_Thread_local int x; int x;", "_Thread_local void f(void);", "static extern int x;", "typedef static int x;", "int int x;", "long long long x;", "short short x;", "signed unsigned x;", "float int x;", "unsigned double x;",
    "void x;", "void a[2];", "int f(void)[2];", "int f(void)(void);", "int a[2](void);", "struct s v;", "struct s {int x;}; struct s {int y;};", "struct s {int x;}; union s v;", "struct s {struct s m;};", "struct s {int x; int x;} v;",
    "struct s {}; ", "struct s {int a[]; int b;};", "struct s {int a[];} v;", "struct s {int b; int a[];} v = {1};", "struct s {int b; int a[];} v = {1, {2, 3}};", "struct t {int b; int a[];}; struct s {struct t m; int c;};",
    "struct t {int b; int a[];}; union u {struct t m; int c;}; struct s {union u m; int d;};", "struct s {void f(void);};", "struct s {int f(void);};", "struct s {void x;};", "struct s {int a[n];};", "struct s {int;};", "struct s {struct {int;};};",
    "struct s {struct {int a;}; int a;} v; int x = sizeof v.a;", "struct s {union {int a; float b;};} v = {.b = 1.0f};", "struct s {struct t;};", "struct s {struct t {int a;};} v; struct t w;", "union u {int a; char b[8];} v = {.b = \"abcdefgh\"};",
    "union u {int a; char b[8];} v = {.a = 1, .b[1] = 2};", "union u {char b[8]; int a;} v = {.b = \"abc\", .a = 1};", "union u {char b[8]; int a;} v = {.b[0] = 1, .b[5] = 2, .a = 7};",
    "struct s {char a[4]; int b;} v = {.a = \"abc\", .a[1] = 'x', .b = 2};", "struct s {char a[4];} v = {.a = \"abcd\", .a[3] = 0};", "char a[] = {\"abc\", 1};", "char a[3] = {\"abc\"}; char b[2][3] = {\"ab\", \"cd\"};",
    "char a[2][3] = {[1] = \"ab\", [0][1] = 'x'};", "int a[] = {[5] = 1, [2] = 2, 3, 4, 5, 6};", "int a[3] = {[3] = 1};", "int a[3] = {1, 2, 3, 4};", "int a[] = {[-1] = 1};", "int a[] = {[0x7fffffffffffffff] = 1};",
    "int a[] = {[0x3fffffffffffffff] = 1};", "int a[] = {[0x4000000000000000] = 1};", "char a[] = {[0xfffffffffffffffe] = 1};", "char a[] = {[0xffffffffffffffff] = 1};", "int a[] = {};", "int a[2] = {};", "int a = {};", "int a = {1, 2};", "int a = {{1}};",
    "struct s {int a;} v = {.b = 1};", "struct s {int a;} v = {[0] = 1};", "int a[2] = {.x = 1};", "struct s {int a;} v = {.a};", "struct s {int a;} v = {.a = };", "int a[2] = {[0] 1};", "int a[2] = {1 2};", "int a[2] = {1,,2};", "int a[2] = {,};",
    "struct s {int a; struct {int b, c;} m[2];} v = {1, 2, 3, 4, 5};", "struct s {int a; struct {int b, c;} m[2];} v = {1, 2, 3, 4, 5, 6};", "struct s {int a; struct {int b, c;} m[2];} v = {.m[1].c = 1, 2};", "struct s {int a[2]; int b;} v = {{1, 2, 3}};",
    "struct s {int a:3, b:5, c:8;} v = {.c = 1, .a = 2, .b = 3, .a = 4};", "struct s {int a:3; int :0; int b:5;} v = {1, 2};", "struct s {long a:33; int b:1;} v = {-1, -1};", "struct s {unsigned char a:8; unsigned char b:1;} v = {255, 1};",
    "void f(void){struct s {int a:3, b:5;} v = {1, 2}; v.a += 9; v.b++; --v.a;}", "void f(void){struct s {int a:3;} v; int *p = &v.a;}", "void f(void){struct s {int a:3;} v; int x = sizeof(v.a);}", "void f(void){struct s {int a:3;} v; typeof(v.a) x;}",
    "int f(void){int a[2] = {1}; return a[1];}", "void f(void){int a[] = {1, 2, 3}; char s[] = \"abc\"; char t[2] = \"ab\";}", "void f(int n){int a[n] = {};}", "void f(int n){int a[n] = {1};}", "void f(int n){int a[n][n]; a[1][1] = sizeof a + sizeof a[0];}",
    "void f(int n){int (*p)[n] = 0; p++; int x = sizeof *p;}", "void f(int n){typedef int A[n]; A a; n++; A b; int x = sizeof(A);}", "int f(int n){return sizeof(int[n++]);}", "int f(int n, int a[n][n]){return a[1][1];}", "int f(int n, int a[static n]){return a[0];}", "int f(int a[*]);",
    "int f(int n, int a[*]){return 0;}", "void f(void){int a[*];}", "int a[*];", "void f(int n){static int a[n];}", "void f(int n){extern int a[n];}", "int n; int a[n];", "void f(int n){struct s {int a[n];};}", "void f(int n){int a[n]; goto l; {int b[n]; l:;}}",
    "void f(int n){int x = sizeof(struct {int a;}[n]);}", "void f(int n){(int[n]){};}", "void f(int n){int (*p)[n] = &(int[n]){};}", "void f(int n){typeof(int[n]) a; typeof(a) b;}", "void f(int n){int x = _Alignof(int[n]);}", "void f(int n){int a[n]; int x = _Generic(a, int *: 1);}",
    "int f(int x){return x ? : 2;}", "int f(int x){return ({x;});}", "int f(int x){return x ? 1;}", "int f(int *p, long *q, int x){return *(x ? p : q);}", "void *f(int *p, void *q, int x){return x ? p : q;}", "int f(int x){struct s {int a;} u = {1}, v = {2}; return (x ? u : v).a;}",
    "void f(int x){x ? (void)0 : (void)1;}", "void f(int x){x ? (void)0 : 1;}", "int *f(int x, int *p){return x ? p : 0;}", "int *f(int x, int *p){return x ? 0 : p;}", "int *f(int x, int *p){return x ? p : (void *)0;}", "int *f(int x, int *p){return x ? p : 1;}",
    "int f(struct s {int a;} v){return v.a;}", "int f(struct {int a;} v){return v.a;}", "int f(void v);", "int f(void, int);", "int f(int, void);", "int f(void v){return 0;}", "int f(const void);", "int f(int a, int a);", "int f(int a){int a; return a;}", "int f(a, b);", "int f(a) int a; {return a;}",
    "int f(...);", "int f(...){return 0;}", "int f(int, ..., int);", "int f(int ...);", "int f(register int a);", "int f(static int a);", "int f(int a[static 2], int b[const], int c[restrict static 3]);", "int f(int a[static]);", "int (*f(int a))(int){return 0;}", "int (*(*f(void))[2])(void);",
    "inline int f(void){return 1;} extern int f(void);", "inline int f(void){return 1;}", "extern inline int f(void){return 1;}", "static inline int f(void){return 1;}", "inline int f(void); int f(void){return 1;}", "inline int x;", "_Noreturn int x;", "inline struct s {int a;};",
    "int main(void){}", "void main(void){}", "int main(int argc, char **argv){return argc;}", "static int main(void){}", "long main(void){}",
    "int f(void){int x = 1; {int x = x;} return x;}", "int x = x;", "int f(void){l: return 1; int y;}", "int f(void){return 1; return 2; {return 3;} for(;;); while(1); do; while(1);}",
    "void f(void){for(int i = 0;;){} for(;;){break;} for(static int i;;)break; for(struct s {int a;} v;;)break;}", "void f(void){for(int i = 0, j = 1; i < j; i++, j--);}", "void f(void){for(;;;);}", "void f(void){for(int f(void);;)break;}", "void f(void){do break; while(0); do continue; while(0);}",
    "void f(void){if(1)int x;}", "void f(void){if(1);else;}", "void f(void){if(1){}else{}else{}}", "void f(void){else;}", "void f(void){while();}", "void f(void){do;while();}", "void f(void){if();}", "void f(void){switch(){}}", "void f(void){for(;;)}", "void f(void){}}", "void f(void){{}", "}", "{", "(", ")", ";", ";;", "int;", "int x", "int x =", "int x = ;", "int x = 1", "int x = 1 +;",
    "int x = (1;", "int x = 1);", "int x = [1];", "int x = a[;", "int a[;", "int a[1;", "int (x;", "int (*;", "int *;", "int (*)(void);", "int (;", "int f(;", "int f(int;", "int f(int,;", "int f(int,);",
    "void f(struct s *p){p->;}", "void f(struct s {int a;} *p){p->b;}", "void f(struct s {int a;} v){v.;}", "void f(int x){x.a;}", "void f(int x){x->a;}", "void f(int *x){x->a;}", "void f(int x){*x;}", "void f(int x){x[0];}", "void f(int x){x[x];}", "void f(int *x){x[x];}", "void f(int *x){0[x]; 1[x] = 2;}",
    "void f(int *x, int *y){x + y;}", "void f(int *x, int *y){x * y;}", "void f(int *x, float y){x + y;}", "void f(int *x, long *y){x - y;}", "void f(void *x){x + 1;}", "void f(void *x){x++;}", "void f(void (*x)(void)){x + 1;}", "void f(struct s *x){x + 1;}", "void f(int *x, long *y){x == y;}", "void f(int *x, long *y){x < y;}", "void f(int *x, void *y){x < y; x == y;}",
    "void f(int *x){x < 0; x == 0; x == 1;}", "void f(struct s {int a;} v){v + 1;}", "void f(struct s {int a;} v){!v;}", "void f(struct s {int a;} v){v && 1;}", "void f(struct s {int a;} v){if(v);}", "void f(struct s {int a;} v){v ? 1 : 2;}", "void f(struct s {int a;} v){(int)v;}", "void f(int x){(struct s {int a;})x;}",
    "void f(float x){x % 2;}", "void f(float x){x << 1;}", "void f(float x){~x;}", "void f(float x){x & 1;}", "void f(float x){x ? 1 : 2; !x; x && x; -x; +x; x++; --x;}", "void f(double x){(int *)x;}", "void f(int *x){(double)x;}", "void f(int *x){(float)x;}", "void f(int *x){(char)x; (long)x; (_Bool)x;}", "void f(void){(void)1; (void)(void)1; (int)(void)1;}",
    "void f(void){-(void)1;}", "void f(void){&1;}", "void f(void){&(int){1}; &\"a\"; &*\"a\"; &f; *f; **f; &*f;}", "void f(register int x){&x;}", "void f(int x){&x++; }", "void f(int x){x++++;}", "void f(int x){++x++;}", "void f(int x){(x)++; ++(x);}", "void f(int x){-x++; - -x; -+-x; !~x;}",
    "void f(int x){x+++x; x---x; x+++++x;}", "void f(int x){x = x = x; x += x -= x; x <<= x >>= 1;}", "void f(int x){(x = 1) = 2;}", "void f(int x){(x, x) = 2;}", "void f(int x){(x ? x : x) = 2;}", "void f(int x){1 ? x : x = 2;}", "void f(int a, int b){a = b += 1, b;}", "void f(int *p){*p++ = 1; *++p = 2; (*p)++; ++*p;}", "void f(char *p, char *q){while(*p++ = *q++);}",
    # the built-in va_list type (an array of a structure, a structure, a pointer - per target) in every initialiser form
    "typedef __builtin_va_list va_list; va_list ap = {0};", "typedef __builtin_va_list va_list; void f(void) { va_list ap = {0}; (void)ap; }",
    "typedef __builtin_va_list va_list; va_list a = { {1} };", "typedef __builtin_va_list va_list; va_list b = { [0] = {0} };",
    "typedef __builtin_va_list va_list; struct w { va_list a; int k; } y = { 1, 4 };", "typedef __builtin_va_list va_list; struct w { int k; va_list a; } y = { 1, 4 }; va_list c = \"abc\";",
    "typedef __builtin_va_list va_list; struct w { va_list a; int k; } x = { .k = 3 }, y = { {}, 4 }, z = { .a = {}, .k = 1 }; void f(void) { va_list a = { .q = 1 }; }",
    "typedef __builtin_va_list va_list; void f(int n, ...) { va_list ap, bp = {}; __builtin_va_start(ap, n); __builtin_va_copy(bp, ap); (void)(va_list){}; (void)(va_list){0}; __builtin_va_end(ap); }",
    "typedef __builtin_va_list va_list; va_list g; int f(void) { return sizeof g + _Alignof(va_list) + sizeof *&g + (g == g); }", "typedef __builtin_va_list va_list; va_list g; void *f(void) { return &g.x; }",
    "typedef __builtin_va_list va_list; va_list g, h; void f(void) { g = h; g++; -g; *g; g[0]; g(); }", "typedef __builtin_va_list va_list; va_list f(va_list a) { return a; } void g(va_list a) { f(a); }",
    # an element designated after a string literal that initialises the same static array: at every index up to the array's end
    # (inside the literal, on its terminator, directly behind it, further on), for every element width
    *(["char s[8] = {\"abc\", [%d] = 'x'};" % k for k in range(8)] + ["unsigned w[16] = {U\"aaaaa\", [%d] = 0xffffffff};" % k for k in (4, 5, 6, 7, 15)] + ["unsigned short h[6] = {u\"ab\", [%d] = 7, 8};" % k for k in (1, 2, 3, 4)] + ["struct { char a[6]; int k; } v = {{\"ab\", [%d] = 'z'}, 1};" % k for k in (2, 3, 4, 5)] + ["void f(void) { static char s[5] = {\"\", [%d] = 1}; char t[5] = {\"\", [%d] = 1}; (void)s; (void)t; }" % (k, k) for k in (0, 1, 2, 4)]),
    # directives between the parentheses of an invocation (undefined, 6.10.3p11 - but any input is handled cleanly): #undef and
    # #define of the macro being invoked, of an enclosing one, of one used in the arguments
    "#define F(a, b) a b\nF(1,\n#undef F\n2)\n", "#define F(a) #a\nF(\n#undef F\nx)\nF(y)\n", "#define F(a) a\n#define G F(\nG\n#undef F\n#undef G\n1)\n",
    "#define F(a, ...) a __VA_ARGS__\nF(1,\n#define F(a) a\n2)\n", "#define F(a) a F\nF(F(\n#undef F\n1)\n2)\n", "#define F(a, b) a b\n#define H 3\nF(H,\n#undef H\nH)\n",
    "#define F(a, b) b a\nF(1\n#undef F\n#define F(x) x x\n, F(2))\n", "#define F(a) a\nint x = F(\n#line 7\n1\n#pragma p\n);\n", "#define S(x) #x\n#define F(a, b) S(a b)\nF(p\n#undef S\n, q)\n",
]


# ----------------------------------------------------------------------------- placement (context x fragment cross product)
# Every fragment that needs something from its surroundings to be translated (a function to emit code into, a
# constant value, a complete type, a va_list) is placed into every context that evaluates, sizes, types or merely
# parses an operand, at file scope and at block scope.  Most combinations are constraint violations: the compiler must
# say so (status 1) or accept, never crash.
PLACE_PRELUDE = ("int n = 3; int g(); struct S { int a; int bf : 3; int arr[2]; } gs, *gsp; int garr[4]; void *vp; struct I; extern struct I *ip; "
                 "typedef int VT[]; enum E { E0, E1 } ge; _Thread_local int tl; float fl; void vf(void);\n")
PLACE_FRAGS = [
    "(int (*)[n])0", "*(int (*)[n])0", "(int (*)[n++])vp", "(int[n]){0}"[:0] or "sizeof(int[n])", "_Alignof(int[n])", "*(int (*)[g()])vp", "(int (*)[n][n])vp", "(char (*)[sizeof(int[n])])0",
    "n", "n++", "n = 2", "g()", "g(n, n)", "({ n; })", "\"str\"", "L\"w\"", "__func__", "(struct T { int a; }){ 1 }", "(int){ n }", "&(int){ 1 }", "(int[]){ 1, 2 }", "(VT){ 1, 2, 3 }",
    "__builtin_alloca(n)", "__builtin_alloca(8ul)", "*(void *)0", "(void)0", "*vp", "vf()", "vf", "&vf", "gs", "gs.bf", "gs.arr", "gsp->arr", "garr", "&garr", "*ip", "ip", "ip + 1", "1/0", "1%0", "nullptr", "(char)1",
    "1 ? n : 2", "n && g()", "0 && g()", "1 || g()", "n ? gs : gs", "(n, gs)", "ge", "E1", "tl", "&tl", "fl", "1.5", "(long double)1", "&gs.a", "&garr[1]", "&garr[n]", "garr[n]", "gsp->bf", "(struct S){ 0 }.arr",
    "__builtin_va_arg(*(__builtin_va_list *)vp, int)", "__builtin_expect(n, 1)", "__builtin_constant_p(n)", "__builtin_unreachable()", "__builtin_offsetof(struct S, arr[n])", "_Generic(n, int: g(), default: 0)",
    "sizeof(struct { int a[n]; })", "(struct { int a; int f[]; } *)vp", "*(struct { int a; int f[]; } *)vp", "(int (*)(int (*)[n]))vp", "\"a\"[0]", "*\"a\"", "&*\"a\"", "-n", "!gs.bf", "~ge", "+fl",
]
PLACE_CTX = [
    "typeof(%s) p%d;", "typedef typeof(%s) T%d;", "typeof_unqual(%s) q%d;", "extern typeof(%s) e%d;", "static typeof(%s) s%d;", "typeof(%s) *pp%d;", "typeof(typeof(%s)) tt%d;", "typeof(%s) a%d[2];",
    "int a%d[sizeof(%s)];"[:0] or "int x%d = sizeof(%s);", "int y%d = sizeof(typeof(%s));", "int z%d = _Alignof(typeof(%s));", "enum { A%d = sizeof(%s) };", "enum { B%d = (%s) };", "struct s%d { int b : sizeof(%s); };",
    "struct m%d { typeof(%s) m; };", "union u%d { typeof(%s) m; int k; };", "_Static_assert(sizeof(%s) || 1, \"\");", "_Static_assert((%s) || 1, \"\");", "_Alignas(sizeof(%s)) int al%d;", "_Alignas(typeof(%s)) int am%d;",
    "int ge%d = _Generic(%s, default: 1);", "int gf%d = _Generic(1, typeof(%s): 1, default: 2);", "int in%d = (%s);", "static int si%d = (%s);", "int ar%d[] = { 1, (%s) };", "int *ad%d = &(%s);", "int ay%d[(%s)];",
    "int fp%d(int a[sizeof(%s)]);", "int fq%d(typeof(%s) a);", "int fr%d(int a[(%s)]);", "typeof(%s) fs%d(void);", "int cp%d = __builtin_constant_p(%s);", "int tc%d = __builtin_types_compatible_p(typeof(%s), int);",
    "long of%d = __builtin_offsetof(struct { int a; typeof(%s) b; }, b);", "long og%d = __builtin_offsetof(struct S, arr[sizeof(%s)]);", "int cl%d = sizeof((typeof(%s)[2]){ 0 });", "void *ca%d = (typeof(%s) *)0;",
    "int sw%d(int a) { switch (a) { case sizeof(%s): return 1; } return 0; }", "int sx%d(int a) { switch (a) { case (%s): return 1; } return 0; }",
]
PLACE_BLOCK_ONLY = ["(void)(%s);", "(void)sizeof(%s);", "return (void)(%s);", "if (sizeof(%s)) ;", "goto l%d; { typeof(%s) v; l%d: ; }"[:0] or "for (typeof(%s) i;;) break;", "while (0) (void)sizeof(typeof(%s));",
                    "{ typeof(%s) v, w; }", "{ typedef typeof(%s) L; L l1; { L l2; } }", "{ static int st = sizeof(%s); }", "(void)(typeof(%s) *)vp;", "(void)_Generic(%s, default: 0);"]


def _place(ctxt, frag, k):
    n = ctxt.count("%d")
    out = ctxt.replace("%s", frag)
    return out.replace("%d", str(k)) if n else out


def place_enum(ctx):
    k = 0
    for ci, c in enumerate(PLACE_CTX + PLACE_BLOCK_ONLY):
        for fi in range(len(PLACE_FRAGS)):
            k += 1
            if ci < len(PLACE_CTX) and not c.startswith(("int sw", "int sx")):
                yield {"ctx": ci, "frag": fi, "scope": "file"}
            if not c.startswith(("int fp", "int fq", "int fr", "typeof(%s) fs", "int sw", "int sx")):
                yield {"ctx": ci, "frag": fi, "scope": "block"}


def place_source(case):
    c = (PLACE_CTX + PLACE_BLOCK_ONLY)[case["ctx"]]
    t = _place(c, PLACE_FRAGS[case["frag"]], case["ctx"])
    if case["scope"] == "file":
        return PLACE_PRELUDE + t + "\nint after(void) { return n; }\n"
    return PLACE_PRELUDE + "void host(int n, ...) {\n__builtin_va_list ap; __builtin_va_start(ap, n);\n" + t + "\n__builtin_va_end(ap); }\nint after(void) { return n; }\n"


def place_check(case, ctx):
    res = Result()
    res.n = 1
    src = place_source(case)
    what = "place:%s:%d:%d" % (case["scope"], case["ctx"], case["frag"])
    for t in TARGETS if ctx.tier == "thorough" else TARGETS[:1]:
        judge(ctx, src.encode(), t, [], res, what)
        if res.fail:
            break
    _nontrivial(ctx, src, res)
    res.labels.append("place:" + case["scope"])
    res.sample = {"source": "placement", "text": src[len(PLACE_PRELUDE):][:160]}
    return res


# ----------------------------------------------------------------------------- C10's catalogue as crash inputs
# C10 sets a case aside when the compiler crashes on it ("C19's subject"); so that no such case is lost, every catalogue entry is
# judged here, each followed by uses of what it declares (member lookups, sizeof, an object of the type).
def catalogue_enum(ctx):
    from . import c10_catalogue as cat
    for i in range(len(cat.CATALOGUE)):
        yield {"entry": i}


def catalogue_check(case, ctx):
    from . import c10, c10_catalogue as cat
    res = Result()
    res.n = 1
    text, scope, tag = c10.instantiate(case["entry"], 8000 + case["entry"])
    srcs = [c10.build_unit(text, scope, "plain", [], [], with_vio=True)]
    m = re.search(r"\b(struct|union) (e\d+)\b", text)
    if m and scope == "file":
        # walk over the members of the type the entry declares
        tail = "\n%s %s cv; unsigned long cs = sizeof cv; %s %s cw = { 0 }; void cu(%s %s *p) { *p = cv; (void)p->zz_no_such_member; }\n" % ((m.group(1), m.group(2)) * 3)
        srcs.append(srcs[0] + tail)
        srcs.append(srcs[0] + "\nlong co = __builtin_offsetof(%s %s, zz_no_such_member);\n" % (m.group(1), m.group(2)))
    for k, src in enumerate(srcs):
        judge(ctx, src.encode("utf-8", "surrogateescape"), "x86_64-sysv", [], res, "catalogue:%d:%d" % (case["entry"], k))
        if res.fail:
            break
    _nontrivial(ctx, srcs[0], res)
    res.labels.append("catalogue")
    res.sample = {"source": "catalogue", "entry": text[:120]}
    return res


def stress_enum(ctx):
    top_nest = 1 << 10
    top_len = 1 << 12 if ctx.tier == "quick" else 1 << 20
    for name, (kind, gen) in sorted(FAMILIES.items()):
        n = 0
        sizes = [0]
        k = 1
        top = top_nest if kind == "nest" else top_len
        while k <= top:
            sizes.append(k)
            k *= 2
        if kind == "len":
            sizes += [31, 32, 33, 63, 64, 65, 255, 256, 257]
        for n in sizes:
            yield {"family": name, "n": n, "build": "asan"}
        if kind == "nest":
            # deep nesting is judged on the plain build with the default 8 MiB stack
            for n in ([2048, 4096] if ctx.tier == "quick" else [2048, 4096, 8192, 10000]):
                yield {"family": name, "n": n, "build": "plain"}
    for i, e in enumerate(EDGES):
        yield {"edge": i}


def stress_check(case, ctx):
    res = Result()
    res.n = 1
    if "edge" in case:
        src = EDGES[case["edge"]] + "\n"
        what = "edge:%d" % case["edge"]
        for t in TARGETS if ctx.tier == "thorough" or "va_list" in src else TARGETS[:1]:
            judge(ctx, src.encode("utf-8", "surrogateescape"), t, [], res, what)
            if res.fail:
                break
        if not res.fail:
            judge(ctx, src.encode("utf-8", "surrogateescape"), "x86_64-sysv", ["-E"], res, what)
        _nontrivial(ctx, src, res)
        res.labels.append("edge")
        res.sample = {"source": "stress", "edge": src[:200]}
        return res
    kind, gen = FAMILIES[case["family"]]
    n = case["n"]
    src = gen(n).encode("utf-8", "surrogateescape")
    what = "stress:%s:%d" % (case["family"], n)
    if case["build"] == "plain":
        p = cproc.cc(ctx, src, "x86_64-sysv", "plain", [], timeout=120, preexec=cproc.limits(stack_mb=8))
        c = cproc.classify(p)
        if c is not None:
            if c[0] == "timeout":
                res.discard.append("inconclusive-timeout-deep")
            else:
                res.fail = dict(sig="%s:deep:%s" % (c[0], case["family"]),
                                msg="%s on plain build (8 MiB stack), family %s n=%d (input %d bytes)" % (c[0], case["family"], n, len(src)))
    else:
        judge(ctx, src, "x86_64-sysv", [], res, what, timeout=60)
    _nontrivial(ctx, src, res)
    res.labels.append("stress:" + kind)
    res.sample = {"source": "stress", "family": case["family"], "n": n, "head": src[:80].decode("latin-1")}
    return res


# ----------------------------------------------------------------------------- mutation (Hypothesis)

_REPL = ["(", ")", "{", "}", "[", "]", ";", ",", "=", "*", "&", "-", "+", ".", "->", "...", ":", "?", "#", "##", "::",
         "int", "long", "char", "void", "struct", "union", "enum", "static", "extern", "typedef", "const", "volatile",
         "sizeof", "_Alignof", "_Alignas", "_Generic", "_Static_assert", "return", "goto", "switch", "case", "default",
         "if", "else", "while", "do", "for", "break", "continue", "inline", "_Noreturn", "_Thread_local", "typeof",
         "__attribute__", "__asm__", "__builtin_va_arg", "__builtin_offsetof", "__builtin_va_list", "__builtin_alloca",
         "0", "1", "-1", "0x7fffffffffffffff", "0xffffffffffffffff", "18446744073709551615u", "1e400", "1.5f", "0x1p-1074",
         "'a'", "'\\377'", "L'\\xffffffff'", "\"\"", "\"abc\"", "L\"x\"", "u8\"\\x80\"", "x", "y", "f", "main", "\n", "\n#", "\n#define x",
         "\n#undef x\n", "\n# 5 \"q.c\"\n", "(int)", "(long)", "(char*)", "[]", "[*]", "[0]", "{}", "{0}", "{{}}", ".x=", "[1]=", "[[x]]", "long long", "float", "double", "_Bool", "unsigned", "signed", "short"]


def mutate_strategy(ctx):
    nf = len(ctx.data["corpus"])
    mut = st.tuples(st.sampled_from(["del", "dup", "swap", "repl", "ins", "delrange", "trunc"]),
                    st.integers(0, 9999), st.integers(0, len(_REPL) - 1), st.integers(1, 8))
    return st.fixed_dictionaries({
        "fi": st.integers(0, nf - 1),
        "muts": st.lists(mut, min_size=1, max_size=4),
        "t": st.integers(0, 2),
        "E": st.booleans(),
    })


def apply_muts(text, muts):
    try:
        toks = [t for t in clex.lex(text)]
    except clex.LexError:
        return text
    strs = [t.s for t in toks]
    for op, pos, arg, cnt in muts:
        if not strs:
            break
        i = pos % len(strs)
        if op == "del":
            del strs[i]
        elif op == "dup":
            strs[i:i] = strs[i:i + cnt]
        elif op == "swap":
            j = (i + cnt) % len(strs)
            strs[i], strs[j] = strs[j], strs[i]
        elif op == "repl":
            strs[i] = _REPL[arg % len(_REPL)]
        elif op == "ins":
            strs.insert(i, _REPL[arg % len(_REPL)])
        elif op == "delrange":
            del strs[i:i + cnt]
        elif op == "trunc":
            del strs[i:]
    out = []
    for s in strs:
        if s == "\n" or s.startswith("\n"):
            out.append(s)
        else:
            out.append(s)
            out.append(" ")
    return "".join(out)


def mutate_check(case, ctx):
    res = Result()
    res.n = 1
    path = ctx.data["corpus"][case["fi"] % len(ctx.data["corpus"])]
    with open(path, "rb") as f:
        text = f.read().decode("utf-8", "surrogateescape")
    src = apply_muts(text, case["muts"]).encode("utf-8", "surrogateescape")
    t = TARGETS[case["t"]]
    judge(ctx, src, t, ["-E"] if case["E"] else [], res, "mutate:%s" % os.path.basename(path))
    if res.fail:
        res.fail["input"] = src.decode("latin-1")
    _nontrivial(ctx, src, res)
    res.labels.append("mutate:" + "+".join(sorted(set(m[0] for m in case["muts"]))))
    res.sample = {"source": "mutate", "file": os.path.basename(path), "muts": case["muts"], "head": src[:120].decode("latin-1")}
    return res


# ----------------------------------------------------------------------------- I/O faults

def io_enum(ctx):
    kinds = ["missing-input", "dir-input", "unreadable-input", "out-missing-dir", "out-dev-full", "stdout-closed",
             "stdout-dev-full", "two-inputs-second-missing", "bad-target", "bad-option", "missing-optarg", "out-is-dir"]
    for k in kinds:
        yield {"io": k}
    files = ctx.data["corpus"]
    step = 12 if ctx.tier == "quick" else 1
    for i in range(0, len(files), step):
        yield {"io": "fsize", "file": os.path.relpath(files[i], build.REPO), "frac": None}


def io_check(case, ctx):
    res = Result()
    d = tempfile.mkdtemp(dir=ctx.wdir())
    k = case["io"]
    exe = ctx.builds["asan"]
    env = dict(cproc.BASE_ENV)
    good = os.path.join(d, "good.c")
    with open(good, "w") as f:
        f.write("int x = 1;\nint f(void) { return x; }\n")

    def bad(p, what, want_nonzero=True):
        c = cproc.classify(p)
        if c is not None:
            res.fail = dict(sig="%s:%s:io" % (c[0], c[1]), msg="%s: %s %s\n%s" % (what, c[0], c[1], c[2]))
        elif want_nonzero and p.rc == 0:
            res.fail = dict(sig="io-status0:" + k, msg="%s: exit status 0 although the I/O failed" % what)

    res.n = 1
    res.labels.append("io:" + k)
    res.keys.append(sha(case))
    res.sample = {"source": "iofault", "case": case}
    if k == "missing-input":
        bad(run([exe, os.path.join(d, "nope.c")], env=env), k)
    elif k == "dir-input":
        bad(run([exe, d], env=env), k)
    elif k == "unreadable-input":
        # root ignores permissions; use a path through a non-directory instead
        bad(run([exe, os.path.join(good, "x.c")], env=env), k)
    elif k == "out-missing-dir":
        bad(run([exe, "-o", os.path.join(d, "nodir", "o.qbe"), good], env=env), k)
    elif k == "out-is-dir":
        bad(run([exe, "-o", d, good], env=env), k)
    elif k == "out-dev-full":
        bad(run([exe, "-o", "/dev/full", good], env=env), k)
    elif k == "stdout-dev-full":
        with open("/dev/full", "wb") as o:
            bad(run([exe, good], env=env, stdout=o), k)
    elif k == "stdout-closed":
        def closeout():
            os.close(1)
        bad(run([exe, good], env=env, stdout=None, preexec=closeout), k)
    elif k == "two-inputs-second-missing":
        bad(run([exe, os.path.join(d, "nope.c"), good], env=env), k)
    elif k == "bad-target":
        p = run([exe, "-t", "pdp11", good], env=env)
        bad(p, k)
    elif k == "bad-option":
        p = run([exe, "-Z", good], env=env)
        bad(p, k)
        if not res.fail and p.rc != 2:
            res.fail = dict(sig="usage-status", msg="unknown option: exit %s, expected 2" % p.rc)
    elif k == "missing-optarg":
        p = run([exe, "-o"], env=env)
        bad(p, k)
        if not res.fail and p.rc != 2:
            res.fail = dict(sig="usage-status", msg="missing option argument: exit %s, expected 2" % p.rc)
    elif k == "fsize":
        path = os.path.join(build.REPO, case["file"])
        target = _args_for(case["file"])
        extra = ["-E"] if os.path.exists(path[:-2] + ".pp") else []
        full = run([exe, "-t", target] + extra + [path], env=env)
        if full.rc != 0 or not full.out:
            res.discard.append("fsize-base-failed")
            return res
        n = len(full.out)
        ks = sorted(set([0, 1, n // 2, n - 1, n] + ([n // 3, 4096, 4095, 8192] if ctx.tier == "thorough" else [])))
        for lim in ks:
            if lim < 0 or lim > n:
                continue
            o = os.path.join(d, "out")
            if os.path.exists(o):
                os.unlink(o)
            p = run([exe, "-t", target] + extra + ["-o", o, path], env=env, preexec=cproc.limits(fsize=lim))
            res.n += 1
            c = cproc.classify(p)
            if c is not None:
                res.fail = dict(sig="%s:%s:io" % (c[0], c[1]), msg="RLIMIT_FSIZE=%d on %s: %s" % (lim, case["file"], c))
                break
            try:
                got = open(o, "rb").read()
            except OSError:
                got = None
            if p.rc == 0 and got != full.out:
                res.fail = dict(sig="io-status0:fsize", msg="RLIMIT_FSIZE=%d of %d on %s: exit 0 but output file holds %s bytes"
                                % (lim, n, case["file"], None if got is None else len(got)))
                break
            if lim < n and p.rc == 0:
                res.fail = dict(sig="io-status0:fsize", msg="RLIMIT_FSIZE=%d of %d: exit 0" % (lim, n))
                break
    import shutil
    shutil.rmtree(d, ignore_errors=True)
    return res


def sources(ctx):
    from . import c19_fuzz
    return [
        Source("stress", stress_check, enum=stress_enum),
        Source("placement", place_check, enum=place_enum),
        Source("catalogue", catalogue_check, enum=catalogue_enum),
        Source("iofault", io_check, enum=io_enum),
        Source("trunc", trunc_check, enum=trunc_enum),
        Source("mutate", mutate_check, strategy=mutate_strategy, examples={"quick": 40000, "thorough": 600000}),
    ] + c19_fuzz.sources(ctx)
