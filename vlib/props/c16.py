"""C16 — names always resolve to the declaration C scoping selects (DESIGN 3/C16)."""
import os
import re
import struct

from hypothesis import strategies as st

from .. import cproc, ilcheck, maptree, qbeil
from ..gen.exprgen import PROLOGUE
from ..runner import Result, Source, sha
from . import c01
from .c15 import _D, _int, _pick, _bool, wrap_rc

ID = "C16"
LEVEL = "exploration"
RULE = ("(a) rapidcheck model-based histories against /repo's map.c (insert / lookup present / lookup absent / overwrite / free+reinit, up to 10^4 operations "
        "in quick and 10^5 in thorough, keys of length 0..300 from a pool engineered to collide in the low k bits of the table's FNV-1a hash for every k <= 18, "
        "initial capacities 1..64), oracle std::unordered_map + structural invariants after every step; non-trivial = history with >=1 growth and a probe chain "
        ">= 3. (b) Hypothesis translation units: scope trees up to depth 200 with systematic shadowing between enumeration constants, typedefs, objects and "
        "tags of equal spelling, prototype-scope names, up to 5000 (thorough 50000) identifiers, 5000 labels with gotos, up to 50000 macros, identifiers of "
        "<= 10^4 characters differing in the last byte, and string literals of every width sharing long prefixes or differing only in late code units. "
        "Observation: the values emitted for `static int cK = <name>` / `sizeof(<name>)` / `sizeof(struct <name>)` at every use point, goto targets executed "
        "via il2c, and the contents behind every string-literal pointer. Oracle: the generator's own scope model (every declaration carries a unique value). "
        "non-trivial (b) = unit with >= 3 nesting levels where an inner declaration shadows an outer one of a different kind; distinct by source hash.")
ASSUMPTIONS = c01.ASSUMPTIONS + ["the rapidcheck harness links map.c/util.c compiled from the current /repo tree with ASan+UBSan"]


def prepare(ctx):
    c01.prepare(ctx)
    maptree.prepare(ctx)


KINDS = ["enumconst", "typedef", "object", "tag"]


def gen_unit(seed, nnames, maxdepth, pool_size):
    """Returns (source, expectations {k: value}, nontrivial?)."""
    d = _D(seed)
    pool = ["n%d" % i for i in range(pool_size)]
    # long identifiers differing only in the last byte
    long_base = "L" + "x" * d(_pick([50, 300, 2000, 10000]))
    pool += [long_base + c for c in "abcd"]
    val = [0]
    exp = {}
    lines = []
    uses = [0]
    shadow_cross = [False]
    fwd = [0]

    def declare(name, kind, indent):
        val[0] += 1
        v = val[0] % 1000 + 1
        if kind == "enumconst":
            lines.append("%senum { %s = %d };" % (indent, name, v))
        elif kind == "typedef":
            # a typedef may be repeated in its scope with the same type (6.7p3); the declarators may get the name from anywhere,
            # e.g. both from one macro's replacement list or from one macro argument
            r = d(_int(0, 7))
            if r == 0:
                lines.append("%stypedef char %s[%d]; typedef char %s[%d];" % (indent, name, v, name, v))
            elif r == 1:
                lines.append("#define TM%d %s" % (val[0], name))
                lines.append("%stypedef char TM%d[%d]; typedef char TM%d[%d];" % (indent, val[0], v, val[0], v))
            elif r == 2:
                lines.append("#define TW%d(n) typedef char n[%d]; typedef char n[%d]" % (val[0], v, v))
                lines.append("%sTW%d(%s); typedef char %s[%d];" % (indent, val[0], name, name, v))
            else:
                lines.append("%stypedef char %s[%d];" % (indent, name, v))
        elif kind == "object":
            lines.append("%sstatic char %s[%d];" % (indent, name, v))
        elif d(_int(0, 2)) == 0:
            # forward declaration first: `struct N;` declares a new type in this scope even when an outer N is visible
            # (C11 6.7.2.3p7); a pointer declared in between must point to the type completed below
            su = "struct"
            uses[0] += 1
            k = uses[0]
            lines.append("%s%s %s;" % (indent, su, name))
            lines.append("%s%s %s *fp%d;" % (indent, "static " if indent else "", "%s %s" % (su, name), k))
            lines.append("%s%s %s { char a[%d]; };" % (indent, su, name, v))
            lines.append("%s%sint c%d = sizeof(*fp%d);" % (indent, "static " if indent else "", k, k))
            exp[k] = v
            fwd[0] += 1
        else:
            lines.append("%sstruct %s { char a[%d]; };" % (indent, name, v))
        return v

    def use(scopes, indent, static):
        # pick a visible name (ordinary or tag) and emit an observation
        for _ in range(4):
            name = d(_pick(pool))
            want_tag = d(_int(0, 3)) == 0
            for sc in reversed(scopes):
                key = ("tag" if want_tag else "ord", name)
                if key in sc:
                    kind, v = sc[key]
                    uses[0] += 1
                    k = uses[0]
                    if want_tag:
                        e = "sizeof(struct %s)" % name
                    elif kind == "enumconst":
                        e = name
                    else:
                        e = "sizeof(%s)" % name
                    if not want_tag and d(_int(0, 4)) == 0:
                        # the operand of an alignment specifier is an ordinary constant expression of the current scope
                        lines.append("%s%sint c%d = sizeof(struct { char c; _Alignas(1 << ((%s) %% 5)) char d; });" % (indent, "static " if static else "", k, e))
                        exp[k] = 2 * (1 << (v % 5))
                        return
                    lines.append("%s%sint c%d = %s;" % (indent, "static " if static else "", k, e))
                    exp[k] = v
                    return
        return

    scopes = [{}]
    # file scope
    for _ in range(max(3, nnames // 4)):
        name = d(_pick(pool))
        kind = d(_pick(KINDS))
        key = ("tag" if kind == "tag" else "ord", name)
        if key in scopes[0]:
            continue
        scopes[0][key] = (kind, declare(name, kind, ""))
        if d(_int(0, 2)) == 0:
            use(scopes, "", False)
    # prototype scope: parameter names shadow file-scope names only inside the declarator
    pn = d(_pick(pool))
    lines.append("int proto_fn(int %s, char (*q)[sizeof(%s)]);" % (pn, pn))
    use(scopes, "", False)
    # definitions whose declarator nests function declarators (function returning pointer to function, to array of function
    # pointers, ...): the body is compiled in the scope of the parameter list that belongs to the function's own name
    for _ in range(d(_int(0, 2))):
        val[0] += 1
        v1 = val[0] % 1000 + 1
        uses[0] += 1
        k = uses[0]
        p1 = d(_pick(pool))
        p2 = d(_pick(pool + [p1, p1]))
        shape = d(_int(0, 2))
        decl_ = ["int (*pk%d(char (*%s)[%d]))(int %s)", "int (*(*pk%d(char (*%s)[%d]))[2])(long %s, int)", "void (*pk%d(char (*%s)[%d], int zz))(int (*%s)(void))"][shape] % (k, p1, v1, p2)
        lines.append("%s { static int c%d = sizeof(*%s); return 0; }" % (decl_, k, p1))
        exp[k] = v1
    # parameter lists nested in parameter lists: every function declarator opens a prototype scope of its own, so an inner
    # parameter may reuse the name of an outer one (before or after it), and the body sees the outermost list only
    for _ in range(d(_int(1, 3))):
        val[0] += 1
        v1 = val[0] % 1000 + 1
        uses[0] += 1
        k = uses[0]
        a = d(_pick(pool))
        b = d(_pick(pool + [a, a, a]))
        f = dict(k=k, a=a, b=b, v1=v1, v2=v1 + 1)
        decl_ = d(_pick([
            "int np%(k)d(char (*%(a)s)[%(v1)d], int (*fn)(char (*%(b)s)[%(v2)d]))",
            "int np%(k)d(int (*fn)(char (*%(b)s)[%(v2)d]), char (*%(a)s)[%(v1)d])",
            "int np%(k)d(char (*%(a)s)[%(v1)d], int (*fn)(int (*gn)(char (*%(b)s)[%(v2)d]), long %(b)s))",
            "int np%(k)d(char (*%(a)s)[%(v1)d], void (*fn)(char (*%(b)s)[%(v2)d], ...), int (*hn)(int %(b)s))",
            "int np%(k)d(char (*%(a)s)[%(v1)d], int arr[sizeof(*%(a)s)], int (*fn)(char (*%(b)s)[sizeof(*%(a)s) + 1]))",
            "int np%(k)d(char (*%(a)s)[%(v1)d], int fn(int %(b)s, int gn(int %(a)s, long zq), long zq))",
        ])) % f
        if d(_int(0, 1)):
            lines.append(decl_ + ";")
        lines.append("%s { static int c%d = sizeof(*%s); return 0; }" % (decl_, k, a))
        exp[k] = v1
    lines.append("void scoped(void) {")
    lines.append("\tint bproto(char (*%s)[2], int (*fn)(char (*%s)[3], int (*gn)(long %s)));" % ((d(_pick(pool)),) * 3))
    scopes.append({})      # the function body is a block scope of its own
    depth = 0
    remaining = nnames
    while remaining > 0:
        act = d(_int(0, 9))
        indent = "\t" * min(depth + 1, 6)
        if act <= 3 and depth < maxdepth:
            lines.append(indent + "{")
            scopes.append({})
            depth += 1
        elif act <= 4 and depth > 0:
            depth -= 1
            scopes.pop()
            lines.append("\t" * min(depth + 1, 6) + "}")
        elif act <= 7:
            name = d(_pick(pool))
            kind = d(_pick(KINDS))
            key = ("tag" if kind == "tag" else "ord", name)
            if key in scopes[-1]:
                continue
            for sc in scopes[:-1]:
                if key in sc and sc[key][0] != kind and depth >= 3:
                    shadow_cross[0] = True
            scopes[-1][key] = (kind, declare(name, kind, indent))
            remaining -= 1
        else:
            use(scopes, indent, True)
    while depth > 0:
        # uses after scopes close must see the outer declarations again
        depth -= 1
        scopes.pop()
        lines.append("\t" * min(depth + 1, 6) + "}")
        use(scopes, "\t" * min(depth + 1, 6), True)
    lines.append("}")
    scopes.pop()
    use(scopes, "", False)
    return "\n".join(lines) + "\n", exp, shadow_cross[0]


@st.composite
def scope_cases(draw, big=False):
    seed = draw(st.integers(0, 1 << 62))
    if big:
        nn = draw(st.sampled_from([5000]))
        depth = 200
        pool = draw(st.sampled_from([40, 4000]))
    else:
        nn = draw(st.integers(5, 400))
        depth = draw(st.sampled_from([3, 6, 20, 200]))
        pool = draw(st.sampled_from([3, 8, 40]))
    return {"seed": seed, "nn": nn, "depth": depth, "pool": pool}


def scope_check(case, ctx):
    res = Result()
    nn = case["nn"]
    if ctx.tier == "thorough" and nn >= 5000:
        nn = 50000
    src, exp, cross = gen_unit(case["seed"], nn, case["depth"], case["pool"])
    res.n = len(exp)
    p = cproc.cc(ctx, src.encode(), "x86_64-sysv", "plain", timeout=300, preexec=cproc.limits(stack_mb=64))
    res.sample = {"names": nn, "depth": case["depth"], "pool": case["pool"], "observations": len(exp), "head": src[:200]}
    if p.rc != 0:
        res.fail = dict(sig="reject:" + p.err.decode(errors="replace").split("error:")[-1].strip()[:40], msg="valid scoping unit rejected: %s" % p.err.decode(errors="replace")[:200], input=src[:20000])
        return res
    mod, errs = ilcheck.validate(p.out)
    if errs:
        res.fail = dict(sig="", msg="malformed IL: %s" % errs[:2], input=src[:20000])
        return res
    got = {}
    for dd in mod.data:
        m = re.fullmatch(r"(?:\.L)?c(\d+)(?:\.\d+)?", dd.name)
        if m:
            got[int(m.group(1))] = struct.unpack("<i", qbeil.data_image(dd)[1][:4])[0]
    for k, v in exp.items():
        if got.get(k) != v:
            line = [l for l in src.split("\n") if re.search(r"\bc%d = " % k, l)]
            res.fail = dict(sig="", msg="use c%d (%s) resolved to the declaration with value %s, C scoping selects the one with value %d" % (k, line[0].strip() if line else "?", got.get(k), v),
                            input=src[:20000])
            return res
    if cross:
        res.keys.append(sha(src))
    res.labels.append("scope-unit:%s" % ("big" if nn >= 5000 else "small"))
    return res


# ---- labels, macros, string literals ------------------------------------------------------------------------

@st.composite
def misc_cases(draw):
    return {"seed": draw(st.integers(0, 1 << 62)), "kind": draw(st.sampled_from(["labels", "macros", "strings", "strings"])), "size": draw(st.sampled_from([10, 200, 5000]))}


def misc_check(case, ctx):
    res = Result()
    d = _D(case["seed"])
    n = case["size"]
    kind = case["kind"]
    if kind == "labels":
        # a chain of gotos through n labels in random order; the trace of tags is the oracle
        order = list(range(n))
        d.r.shuffle(order)
        body = ["\tgoto l%d;" % order[0]]
        for i in range(n):
            nxt = order[order.index(i) + 1] if order.index(i) + 1 < n else None
            body.append("l%d: acc = acc * 31u + %du; %s" % (i, i, ("goto l%d;" % nxt) if nxt is not None else "goto done;"))
        acc = 0
        for i in order:
            acc = (acc * 31 + i) % (1 << 32)
        src = PROLOGUE + "int main(void) {\n\tunsigned acc = 0;\n" + "\n".join(body) + "\ndone:\n\tchk_u64(acc);\n\treturn 0;\n}\n"
        c = {"src": src, "expect": ["u %d" % acc], "t": 0, "profile": "labels", "std": "gnu11"}
        c01.judge(ctx, c, res)
        res.keys = [sha(src)] if res.fail is None and n >= 10 else []
        res.labels.append("labels:%d" % n)
        res.sample = {"labels": n}
        return res
    if kind == "macros":
        m = n * 10
        lines = ["#define M%d %d" % (i, (i * 7) % 1000003) for i in range(m)]
        picks = [d(_int(0, m - 1)) for _ in range(50)]
        # redefine a few after undef, names sharing long prefixes
        for j in picks[:5]:
            lines.append("#undef M%d" % j)
            lines.append("#define M%d %d" % (j, j + 5))
        exp = {}
        for k, j in enumerate(picks):
            lines.append("int c%d = M%d;" % (k, j))
            exp[k] = j + 5 if j in picks[:5] else (j * 7) % 1000003
        src = "\n".join(lines) + "\n"
    else:
        # string literals sharing long prefixes / differing only in late code units, of every width; equal ones may share storage
        pre = "p" * d(_pick([1, 30, 300]))
        lines = []
        exp = {}
        for k in range(min(n, 400)):
            w = d(_pick(["", "", "u", "U", "u8"]))
            body = pre + "%d" % d(_int(0, min(n, 400) // 2)) + d(_pick(["", "x", "\\0y", "é"]))
            ty = {"": "char", "u8": "unsigned char", "u": "unsigned short", "U": "unsigned"}[w]
            lines.append('const %s *s%d = %s"%s";' % (ty, k, w, body))
            exp[k] = (w, body)
        src = "\n".join(lines) + "\n"
    p = cproc.cc(ctx, src.encode("utf-8"), "x86_64-sysv", "plain", timeout=300)
    res.n = len(exp)
    res.sample = {"kind": kind, "size": n}
    if p.rc != 0:
        res.fail = dict(sig="", msg="valid unit rejected: %s" % p.err.decode(errors="replace")[:200], input=src[:5000])
        return res
    mod, errs = ilcheck.validate(p.out)
    if errs:
        res.fail = dict(sig="", msg="malformed IL: %s" % errs[:2], input=src[:5000])
        return res
    data = {dd.name: dd for dd in mod.data}
    if kind == "macros":
        for k, v in exp.items():
            got = struct.unpack("<i", qbeil.data_image(data["c%d" % k])[1][:4])[0]
            if got != v:
                res.fail = dict(sig="", msg="macro use c%d expands to %d, expected %d" % (k, got, v), input=src[-3000:])
                return res
    else:
        from .c14 import encode
        for k, (w, body) in exp.items():
            size, img, rel = qbeil.data_image(data["s%d" % k])
            items = []
            i = 0
            while i < len(body):
                if body[i] == "\\":
                    items.append(("\\0", "esc", 0))
                    i += 2
                else:
                    items.append((body[i], "cp", ord(body[i])))
                    i += 1
            width, units = encode(items, w, "x86_64-sysv")
            want = struct.pack("<%d%s" % (len(units) + 1, {1: "B", 2: "H", 4: "I"}[width]), *(units + [0]))
            ok = len(rel) == 1 and rel[0][2] in data and qbeil.data_image(data[rel[0][2]])[1][rel[0][3]:] == want
            if not ok:
                res.fail = dict(sig="", msg="pointer s%d does not lead to the contents of its own literal %s\"%s\"" % (k, w, body), input=src[:5000])
                return res
    res.keys.append(sha(src))
    res.labels.append("%s:%d" % (kind, n))
    return res


# ---- macro table histories: define / undef / redefine / use over names that collide in the table ------------------

_BUCKETS = None


def _fnv(name):
    h = 0x811c9dc5
    for c in name.encode():
        h = ((h ^ c) * 0x1000193) & 0xffffffffffffffff
    return h


def collision_buckets():
    """Groups of >= 6 identifiers whose map.c hash (FNV-1a as written there) agrees in the low 12 bits,
    i.e. that share a probe chain in every table of capacity 64..4096."""
    global _BUCKETS
    if _BUCKETS is None:
        by = {}
        for stem in ("q", "LOG_", "cfg", "Tr"):
            for i in range(60000):
                n = "%s%d" % (stem, i)
                by.setdefault(_fnv(n) & 0xfff, []).append(n)
        _BUCKETS = [v[:8] for k, v in sorted(by.items()) if len(v) >= 6][:400]
    return _BUCKETS


def mhist_cases(draw):
    nb = len(collision_buckets())
    ops = st.lists(st.tuples(st.sampled_from(["def", "def", "undef", "use", "use", "fdef", "undef-absent", "grow"]), st.one_of(st.integers(0, 7), st.integers(0, 7), st.integers(0, 23)), st.integers(0, 9999)),
                   min_size=6, max_size=70)
    return {"buckets": draw(st.lists(st.integers(0, nb - 1), min_size=3, max_size=3, unique=True)), "ops": draw(ops), "pre": draw(st.sampled_from([0, 0, 20, 90, 300]))}


def mhist_check(case, ctx):
    """A history of #define / #undef / uses; the -E output must show, for every use, the replacement the model holds
    at that point (or the name itself when it is not defined)."""
    res = Result()
    bk = collision_buckets()
    names = [n for b in case["buckets"] for n in bk[b][:8]]
    model = {}
    lines = ["#define PRE%d %d" % (i, i) for i in range(case["pre"])]
    expect = []
    grow = 0
    chain = 0
    for k, (op, ni, val) in enumerate(case["ops"]):
        name = names[ni % len(names)]
        if op == "def":
            if name in model and model[name] != ("obj", str(val)):
                lines.append("#undef %s" % name)
            lines.append("#define %s %d" % (name, val))
            model[name] = ("obj", str(val))
        elif op == "fdef":
            if name in model and model[name] != ("fn", str(val)):
                lines.append("#undef %s" % name)
            lines.append("#define %s(x) x %d" % (name, val))
            model[name] = ("fn", str(val))
        elif op == "undef":
            lines.append("#undef %s" % name)
            if name in model:
                chain += 1
            model.pop(name, None)
        elif op == "undef-absent":
            absent = [n for n in names if n not in model]
            if absent:
                lines.append("#undef %s" % absent[val % len(absent)])
        elif op == "grow":
            for j in range(val % 40):
                grow += 1
                lines.append("#define GROW%d_%d %d" % (k, j, j))
        else:
            m = model.get(name)
            if m is None:
                lines.append("U%d %s ;" % (k, name))
                expect.append(("U%d" % k, [name, ";"]))
            elif m[0] == "obj":
                lines.append("U%d %s ;" % (k, name))
                expect.append(("U%d" % k, [m[1], ";"]))
            else:
                lines.append("U%d %s(7) %s ;" % (k, name, name))
                expect.append(("U%d" % k, ["7", m[1], name, ";"]))
    # every name once more at the end
    for j, name in enumerate(names):
        m = model.get(name)
        lines.append("E%d %s ;" % (j, name))
        expect.append(("E%d" % j, [m[1] if m and m[0] == "obj" else name, ";"]))
    src = "\n".join(lines) + "\n"
    p = cproc.cc(ctx, src.encode(), "x86_64-sysv", "plain", args=["-E"], timeout=60)
    res.n = len(expect)
    res.sample = {"ops": len(case["ops"]), "uses": len(expect), "pre": case["pre"], "head": src[:150]}
    if p.rc != 0:
        res.fail = dict(sig="", msg="valid macro history rejected: %s" % p.err.decode(errors="replace")[:200], input=src)
        return res
    toks = p.out.decode(errors="replace").split()
    pos = {}
    for i, t in enumerate(toks):
        if re.fullmatch(r"[UE]\d+", t):
            pos[t] = i
    for tag, want in expect:
        i = pos.get(tag)
        got = toks[i + 1:i + 1 + len(want)] if i is not None else None
        if got != want:
            res.fail = dict(sig="", msg="use %s: -E output has %s, the macro table model says %s" % (tag, got, want), input=src)
            return res
    live = len(model)
    if chain >= 1 and live >= 2:
        res.keys.append(sha(src))
    res.labels.append("mhist:undefs=%d" % min(chain, 5))
    res.labels.append("mhist:table>=%d" % (64 if case["pre"] + grow < 20 else 128 if case["pre"] + grow < 60 else 256))
    return res


# ---- statement scopes (C11 6.8.4p3, 6.8.5p5): every selection/iteration statement and each of its substatements is a block ----

# an expression that declares an enumeration constant or a tag called like an outer one, usable as an unbraced body
STMT_DECLS = [
    "(void)sizeof(enum { %(n)s = %(v)d })", "(void)(enum { %(n)s = %(v)d })0", "(void)_Alignof(enum { %(n)s = %(v)d })",
    "(void)sizeof(struct %(t)s { char c[%(v)d]; })", "(void)(struct %(t)s { char c[%(v)d]; } *)0", "(void)&(struct %(t)s { char c[%(v)d]; }){ { 0 } }",
    "(void)sizeof(union %(t)s { char c[%(v)d]; })",
]
# statement shapes: {D} = the declaring expression, {U} = a use that must see the outer declaration; k counts iterations
STMT_SHAPES = [
    "do {D}; while (++k < {U});",
    "do k++, {D}; while (k < {U});",
    "while (k < {U}) k++, {D};",
    "for (; k < {U}; k++) {D};",
    "for ({D}; k < {U}; ) k++;",
    "if (k < {U}) {D}; else k += {U};",
    "if (k > {U}) k = 0; else {D}; k += {U};",
    "switch (k) default: {D}; k += {U};",
    "if (({D}), 1) k += 1; k += {U};",
    "while (({D}), k < 2) k++; k += {U};",
    "for (;; ({D})) { if (k++ >= {U}) break; }",
    "do if (k) {D}; while (++k < {U});",
    # the two sub-statements of an if are separate blocks: what the first declares is not visible in the else part (which runs here)
    "if (k > {U}) {D}; else k += {U};",
    "if (k) {D}; else if (k < {U}) k += {U}; else k = -1;",
    "if (k > {U}) {D}; else if (k) k = 0; else k += {U};",
    "if (k) k++, {D}; else {{ k += {U}; }} k += {U};",
    "if (k) {D}; else while (k < {U}) k++;",
    "if (k) {D}; else for (; k < {U}; k++) ;",
    "if (k) {D}; else switch (k) default: k += {U};",
    "if (k) if (k > 1) {D}; else k = 7; else k += {U};",
    "while (k < 1) if (k) {D}; else k += {U};",
    # the controlling expression of a do statement belongs to the statement's block as well
    "do k++; while (({D}), k < 2); k += {U};",
    "do do k++; while (({D}), k < 2); while (k < {U});",
    "{{ do k++; while (({D}), k < 2); }} k += {U};",
]


def stmt_enum(ctx):
    for si in range(len(STMT_SHAPES)):
        for di in range(len(STMT_DECLS)):
            yield {"shape": si, "decl": di, "t": (si + di) % 3}


def stmt_check(case, ctx):
    """The name declared inside a substatement must not be visible in the controlling expression or after the statement."""
    res = Result()
    decl = STMT_DECLS[case["decl"]] % {"n": "LIM", "t": "pt", "v": 100}
    use = "LIM" if "enum" in decl else "(int)sizeof(struct pt)" if "struct" in decl else "(int)sizeof(union pt)"
    shape = STMT_SHAPES[case["shape"]].replace("{D}", decl).replace("{U}", use).replace("{{", "{").replace("}}", "}")
    outer = "enum { LIM = 3 };" if "enum" in decl else "struct pt { char c[3]; };" if "struct" in decl else "union pt { char c[3]; };"
    src = PROLOGUE + "%s\nint main(void) {\n\tint k = 0;\n\t%s\n\tchk_i64(k);\n\tchk_i64(%s);\n\treturn 0;\n}\n" % (outer, shape, use)
    c = {"src": src, "expect": None, "t": case["t"], "profile": "stmt-scope", "std": "gnu11", "always_ref": True}
    c01.judge(ctx, c, res)
    if res.fail is None and not res.discard:
        res.keys = [sha(src)]
    res.labels.append("stmt-scope:%d" % case["shape"])
    res.sample = {"statement": shape}
    return res


def sources(ctx):
    return [maptree.replay_source()] + wrap_rc(maptree.map_sources(ctx)) + [
        Source("misc", misc_check, strategy=lambda c: misc_cases(), examples={"quick": 60, "thorough": 2000}),
        Source("macro-history", mhist_check, strategy=lambda c: st.composite(lambda draw: mhist_cases(draw))(), examples={"quick": 1500, "thorough": 60000}),
        Source("stmt-scopes", stmt_check, enum=stmt_enum, exhaustive=True),
        Source("scopes", scope_check, strategy=lambda c: scope_cases(), examples={"quick": 200, "thorough": 5000}),
        Source("scopes-big", scope_check, strategy=lambda c: scope_cases(big=True), examples={"quick": 3, "thorough": 30}),
    ]
