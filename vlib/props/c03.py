"""C03 — every successful compilation yields a well-formed backend IL module (DESIGN 3/C03)."""
import glob
import os
import shutil
import struct
import tempfile

from hypothesis import strategies as st

from .. import build, cproc, ilcheck, qbeil, refcc
from ..runner import Result, Source, run, sha

ID = "C03"
LEVEL = "exploration"
RULE = ("inputs on which cproc-qbe exits 0: corpus files, cproc's own preprocessed sources, Hypothesis token-mutated corpus files "
        "that still compile, generated programs (typed-grammar generator of C01), x 3 targets; plus RLIMIT_FSIZE=k output-failure "
        "injection. Oracle: vlib/ilcheck.py (syntax, single definition, dominance on reachable blocks, phi predecessor sets, operand "
        "classes, labels, type-before-use, call/definition agreement), empty stderr, data definition size == and alignment >= the C "
        "object's (clang --target object st_size and _Alignof), and status 0 only with the complete output. "
        "non-trivial = module with >=1 function of >=2 blocks or >=1 data definition with a z/relocation item; distinct by IL hash.")
ASSUMPTIONS = [
    "ilcheck.py implements QBE's acceptance rules (written from the IL reference; permissive where QBE's behaviour is uncertain)",
    "clang 14 --target=<triple> gives the C object's size and alignment for the three targets",
]


def prepare(ctx):
    cproc.prepare(ctx, ["plain"])
    ctx.data["corpus"] = sorted(glob.glob(os.path.join(build.REPO, "test", "*.c")))
    from . import c20
    c20.prepare(ctx)   # own sources


def nontrivial(mod):
    for f in mod.funcs:
        if len(f.blocks) >= 2:
            return True
    for d in mod.data:
        for it in d.items:
            if it.kind in ("zero", "sym"):
                return True
    return False


def rule_labels(mod):
    labs = []
    if any(b.phis for f in mod.funcs for b in f.blocks):
        labs.append("has-phi")
    if any(f.rettype or any(t.startswith(":") for t, _ in f.params) for f in mod.funcs):
        labs.append("has-aggregate-signature")
    if any(ins.op == "call" for f in mod.funcs for b in f.blocks for ins in b.insts):
        labs.append("has-call")
    if mod.types:
        labs.append("has-type")
    if any(b.name.startswith("dead") for f in mod.funcs for b in f.blocks):
        labs.append("has-dead-block")
    if any(it.kind == "sym" for d in mod.data for it in d.items):
        labs.append("has-data-reloc")
    return labs


def check_il(ctx, p, res, what, src=None, target=None, with_clang=False):
    """p: finished cproc run with rc 0.  Fills res.fail on a malformed module; returns module."""
    if p.err:
        res.fail = dict(sig="", msg="%s: exit status 0 with diagnostic output on stderr: %r" % (what, p.err[:300]))
        return None
    mod, errs = ilcheck.validate(p.out)
    if errs:
        sig = "il:" + errs[0].split(":")[-1].strip()[:40]
        if all("local symbol $.L__func__." in e for e in errs):
            sig = "func-name-in-static-initializer"      # recorded finding
        res.fail = dict(sig=sig, msg="%s: malformed IL module:\n  %s" % (what, "\n  ".join(errs[:8])),
                        il=p.out[:6000].decode("latin-1"))
        return None
    try:
        for d in mod.data:
            qbeil.data_image(d)
        for t in mod.types:
            qbeil.type_layout(mod, t)
    except qbeil.ILSyntaxError as e:
        res.fail = dict(sig="il:layout", msg="%s: %s" % (what, e), il=p.out[:6000].decode("latin-1"))
        return None
    res.keys.append(sha(p.out)) if nontrivial(mod) else None
    res.labels.extend(rule_labels(mod))
    if with_clang and src is not None:
        data_vs_clang(ctx, mod, src, target, res, what)
    return mod


def data_vs_clang(ctx, mod, src, target, res, what):
    d = tempfile.mkdtemp(dir=ctx.wdir())
    try:
        c = os.path.join(d, "u.c")
        with open(c, "wb") as f:
            f.write(src)
        elf, err = refcc.clang_obj(c, os.path.join(d, "u.o"), target, std="c2x", extra=refcc.target_flags(target))
        if elf is None:
            res.discard.append("clang-rejects-input")
            if os.environ.get("VERIF_DUMP_DISCARDS"):
                os.makedirs(os.environ["VERIF_DUMP_DISCARDS"], exist_ok=True)
                with open(os.path.join(os.environ["VERIF_DUMP_DISCARDS"], "input-%s.txt" % sha(src)), "w") as f:
                    f.write(err[:1500])
            return
        names = []
        for dd in mod.data:
            if dd.name.startswith(".L"):
                continue
            y = elf.symbol(dd.name)
            if y is None or y.type not in ("OBJECT", "TLS"):
                continue
            size = qbeil.data_image(dd)[0]
            res.labels.append("data-size-checked")
            if size != y.size:
                res.fail = dict(sig="", msg="%s: data $%s has %d bytes, the C object has %d (clang %s)" % (what, dd.name, size, y.size, target))
                return
            names.append(dd)
        if names:
            with open(c, "ab") as f:
                f.write(b"\nunsigned long __verif_al[] = {" + b", ".join(b"_Alignof(%s)" % n.name.encode() for n in names) + b"};\n")
            elf, err = refcc.clang_obj(c, os.path.join(d, "u2.o"), target, std="c2x", extra=refcc.target_flags(target))
            if elf is None:
                res.discard.append("clang-rejects-alignof-table")
                if os.environ.get("VERIF_DUMP_DISCARDS"):
                    os.makedirs(os.environ["VERIF_DUMP_DISCARDS"], exist_ok=True)
                    with open(os.path.join(os.environ["VERIF_DUMP_DISCARDS"], "alignof-%s.txt" % sha(src)), "w") as f:
                        f.write(err[:1500])
                return
            y = elf.symbol("__verif_al")
            img = elf.sym_bytes(y)
            for i, dd in enumerate(names):
                al = struct.unpack_from("<Q", img, 8 * i)[0]
                res.labels.append("data-align-checked")
                if (dd.align or 1) < al:
                    res.fail = dict(sig="", msg="%s: data $%s is aligned to %s, the C object requires %d" % (what, dd.name, dd.align, al))
                    return
    finally:
        shutil.rmtree(d, ignore_errors=True)


# ---- corpus and own sources --------------------------------------------------------------------

def files_enum(ctx):
    for f in ctx.data["corpus"]:
        if os.path.exists(f[:-2] + ".pp"):
            continue
        for t in cproc.TARGETS:
            yield {"file": os.path.relpath(f, build.REPO), "t": t}
    for f in ctx.data["own"]:
        for t in cproc.TARGETS:
            yield {"own": os.path.basename(f), "t": t}


def files_check(case, ctx):
    res = Result()
    res.n = 1
    if "own" in case:
        path = os.path.join(ctx.tmp, "own", case["own"])
        what = "own:%s/%s" % (case["own"], case["t"])
    else:
        path = os.path.join(build.REPO, case["file"])
        what = "%s/%s" % (case["file"], case["t"])
    src = open(path, "rb").read()
    p = cproc.cc(ctx, src, case["t"], "plain", timeout=120)
    res.sample = {"source": "files", "case": case}
    if p.rc != 0:
        res.discard.append("not-compiled rc=%s" % p.rc)
        return res
    check_il(ctx, p, res, what, src, case["t"], with_clang="own" not in case)
    return res


# ---- mutants -----------------------------------------------------------------------------------

def mutant_strategy(ctx):
    from .c20 import mutate_strategy_lite
    return st.fixed_dictionaries({"m": mutate_strategy_lite(len(ctx.data["corpus"])), "t": st.integers(0, 2)})


def mutant_check(case, ctx):
    from .c19 import apply_muts
    res = Result()
    res.n = 1
    p0 = ctx.data["corpus"][case["m"]["fi"] % len(ctx.data["corpus"])]
    src = apply_muts(open(p0, "rb").read().decode("utf-8", "surrogateescape"), case["m"]["muts"]).encode("utf-8", "surrogateescape")
    t = cproc.TARGETS[case["t"]]
    p = cproc.cc(ctx, src, t, "plain", timeout=30)
    if p.rc != 0 or p.timeout:
        res.labels.append("mutant-rejected")
        return res
    res.labels.append("mutant-compiles")
    res.sample = {"source": "mutant", "file": os.path.basename(p0), "muts": case["m"]["muts"]}
    check_il(ctx, p, res, "mutant of %s/%s" % (os.path.basename(p0), t))
    if res.fail:
        res.fail["input"] = src.decode("latin-1")
    return res


# ---- output failure injection ------------------------------------------------------------------

def fsize_enum(ctx):
    files = [f for f in ctx.data["corpus"] if not os.path.exists(f[:-2] + ".pp")]
    step = 6 if ctx.tier == "quick" else 1
    for i in range(0, len(files), step):
        yield {"file": os.path.relpath(files[i], build.REPO)}
    yield {"file": "test/hello.c", "devfull": True}


def fsize_check(case, ctx):
    from .c19 import _args_for
    res = Result()
    d = tempfile.mkdtemp(dir=ctx.wdir())
    try:
        path = os.path.join(build.REPO, case["file"])
        t = _args_for(case["file"])
        exe = ctx.builds["plain"]
        full = run([exe, "-t", t, path], env=cproc.BASE_ENV)
        res.n = 1
        if full.rc != 0 or not full.out:
            res.discard.append("base-failed")
            return res
        n = len(full.out)
        res.sample = {"source": "fsize", "file": case["file"], "full_output_bytes": n}
        if case.get("devfull"):
            p = run([exe, "-t", t, "-o", "/dev/full", path], env=cproc.BASE_ENV)
            if p.rc == 0:
                res.fail = dict(sig="", msg="-o /dev/full: exit status 0 although nothing could be written")
            res.keys.append(sha(case))
            return res
        if ctx.tier == "thorough":
            ks = sorted(set(range(0, n + 1, max(1, n // 50))) | {n - 1, n, 4095, 4096, 4097, 8192})
        else:
            ks = sorted({0, 1, n // 3, n // 2, n - 1, n, 4095, 4096, 4097})
        for lim in ks:
            if lim < 0 or lim > n:
                continue
            o = os.path.join(d, "out")
            if os.path.exists(o):
                os.unlink(o)
            p = run([exe, "-t", t, "-o", o, path], env=cproc.BASE_ENV, preexec=cproc.limits(fsize=lim))
            res.n += 1
            try:
                got = open(o, "rb").read()
            except OSError:
                got = None
            res.keys.append(sha([case["file"], lim]))
            if p.rc == 0 and got != full.out:
                res.fail = dict(sig="", msg="output limited to %d of %d bytes (%s): exit status 0 with %s"
                                % (lim, n, case["file"], "no output file" if got is None else "a truncated file of %d bytes" % len(got)))
                return res
            if p.rc != 0 and not p.err:
                res.fail = dict(sig="", msg="output limited to %d of %d bytes: status %s but no message" % (lim, n, p.rc))
                return res
        return res
    finally:
        shutil.rmtree(d, ignore_errors=True)


def input_check(case, ctx):
    """Replay of one explicit input: it must be rejected or yield a valid module."""
    res = Result()
    res.n = 1
    src = case["input"].encode("latin-1")
    t = case.get("target", "x86_64-sysv")
    p = cproc.cc(ctx, src, t, "plain", timeout=30)
    res.sample = {"source": "input", "head": case["input"][:100]}
    if p.rc == 0 and not p.timeout:
        check_il(ctx, p, res, "input/%s" % t, src, t, with_clang=True)
    res.keys.append(sha(case))
    return res


def inits_check(case, ctx):
    """Static objects with generated initialisers (C07's generator): valid module, data size and alignment as clang's."""
    from . import c07
    res = Result()
    src = c07.static_source(case).encode()
    for t in cproc.TARGETS:
        p = cproc.cc(ctx, src, t, "plain", timeout=60)
        res.n += 1
        if p.timeout or p.rc != 0:
            res.discard.append("rejected-or-timeout")
            continue
        check_il(ctx, p, res, "inits/%s" % t, src, t, with_clang=True)
        if res.fail is not None:
            res.fail["input"] = src.decode("latin-1")
            break
    res.labels.extend("g:" + l for l in case["labels"])
    res.sample = {"source": "inits", "objs": ["%s%s = %s;" % (o["storage"], o["decl"], o["init"]) for o in case["objs"]][:2]}
    return res


def byvalue_check(case, ctx):
    """Aggregates passed and returned by value, reaching the backend first as named or unnamed parameter or as call
    argument (C08's structural generator): definitions and calls must agree in class."""
    from . import c08
    res = Result()
    src = c08.struct_unit(case).encode()
    t = cproc.TARGETS[case["t"] % 3]
    p = cproc.cc(ctx, src, t, "plain", timeout=60)
    res.n = 1
    if p.timeout or p.rc != 0:
        res.discard.append("rejected-or-timeout")
        return res
    check_il(ctx, p, res, "byvalue/%s" % t, src, t, with_clang=False)
    if res.fail is not None:
        res.fail["input"] = src.decode("latin-1")
    res.labels.extend("first-use:%d" % f for f in (case.get("first") or []))
    res.sample = {"source": "byvalue", "head": src.decode("latin-1")[:200]}
    return res


# ---- string literals as objects: every literal used as a value names a definition of its own element type -----------------

STR_KINDS = {"": ("char", 1), "u8": ("char", 1), "u": ("unsigned short", 2), "U": ("unsigned int", 4), "L": ("WCH", 4)}


@st.composite
def string_units(draw):
    """Literals over a tiny alphabet with embedded \\0 padding, so that arrays of different element types often have the same
    byte image (\"a\\0\\0\" and u\"a\" are both 61 00 00 00): the objects may share storage only if the shared definition is aligned
    for every element type that is read through it."""
    items = []
    for _ in range(draw(st.integers(2, 10))):
        pre = draw(st.sampled_from(["", "", "u8", "u", "U", "L"]))
        chars = draw(st.sampled_from(["a", "b", "ab", "", "a", "a", "b", "q" * 15, "q" * 16, "q" * 31, "q" * 32, "q" * 63, "q" * 64, "q" * 64 + "a", "q" * 64 + "b", "q" * 70]))
        pad = draw(st.sampled_from([0, 0, 1, 2, 3, 5, 6, 7]))
        form = draw(st.sampled_from(["ret", "ret", "ptr", "idx"]))
        items.append([pre, chars, pad, form])
    return items


def strings_check(case, ctx):
    res = Result()
    for t in cproc.TARGETS:
        wch = "unsigned int" if t == "aarch64" else "int"
        lines = []
        want = []
        for k, (pre, chars, pad, form) in enumerate(case):
            ety, w = STR_KINDS[pre]
            ety = wch if ety == "WCH" else ety
            lit = '%s"%s%s"' % (pre, chars, "\\0" * pad)
            img = b"".join(ord(c).to_bytes(w, "little") for c in chars) + b"\0" * (w * (pad + 1))
            if form == "ret":
                lines.append("const void *f%d(void) { return %s; }" % (k, lit))
            elif form == "ptr":
                lines.append("const void *p%d = %s;" % (k, lit))
            else:
                lines.append("const void *f%d(int i) { return &%s[i]; }" % (k, lit))
            want.append((k, form, w, img, lit))
        src = "\n".join(lines) + "\n"
        p = cproc.cc(ctx, src.encode(), t, "plain", timeout=60)
        res.n += 1
        if p.timeout or p.rc != 0:
            res.fail = dict(sig="", msg="strings/%s: valid unit rejected: %s" % (t, p.err.decode(errors="replace")[:200]), input=src)
            return res
        mod = check_il(ctx, p, res, "strings/%s" % t, src.encode(), t, with_clang=False)
        if mod is None:
            if res.fail is not None:
                res.fail["input"] = src
            return res
        data = {d.name: d for d in mod.data}
        funcs = {f.name: f for f in mod.funcs}
        for k, form, w, img, lit in want:
            sym, off = None, 0
            if form == "ptr":
                rel = qbeil.data_image(data["p%d" % k])[2]
                if len(rel) == 1:
                    sym, off = rel[0][2], rel[0][3]
            else:
                # the only global a function of these shapes mentions is the literal's object
                gl = {a.v for b in funcs["f%d" % k].blocks for i in b.insts for a in i.args if a.kind == "glo"}
                gl |= {b.jump[1].v for b in funcs["f%d" % k].blocks if b.jump and b.jump[0] == "ret" and b.jump[1] is not None and b.jump[1].kind == "glo"}
                if len(gl) == 1:
                    sym = gl.pop()
            d = data.get(sym)
            if d is None:
                res.fail = dict(sig="", msg="strings/%s: cannot find the object of literal %s (item %d)" % (t, lit, k), input=src, il=p.out[:4000].decode("latin-1"))
                return res
            size, image, _ = qbeil.data_image(d)
            if (d.align or 1) < w or image[off:off + len(img)] != img:
                res.fail = dict(sig="", msg="strings/%s: literal %s (element size %d, image %s) is read through $%s, defined with align %s and image %s"
                                % (t, lit, w, img.hex(), sym, d.align, image.hex()), input=src, il=p.out[:4000].decode("latin-1"))
                return res
        imgs = {}
        for k, form, w, img, lit in want:
            imgs.setdefault(img, set()).add(w)
        if any(len(v) > 1 for v in imgs.values()):
            res.labels.append("same-image-different-element-types")
            res.keys.append(sha([src, t]))
    res.sample = {"source": "strings", "literals": [w[4] for w in want][:6]}
    return res


def units_check(case, ctx):
    """Declaration histories of several identifiers (C09's unit generator): tentative definitions, late type completion,
    asm labels, thread-locals: valid module, data size and alignment as clang's."""
    res = Result()
    src = case.encode()
    for t in cproc.TARGETS:
        p = cproc.cc(ctx, src, t, "plain", timeout=60)
        res.n += 1
        if p.timeout or p.rc != 0:
            res.discard.append("rejected-or-timeout")
            continue
        check_il(ctx, p, res, "units/%s" % t, src, t, with_clang=True)
        if res.fail is not None:
            res.fail["input"] = case
            break
    res.sample = {"source": "units", "head": case[:200]}
    return res


# ---- unreachable code ---------------------------------------------------------------------------------------------

DEAD_TERMS = ["return 0;", "break;", "continue;", "goto out;", "die();", "for (;;) ;", "return n;", ";"]
DEAD_FOLLOW = [
    "int a[n]; a[0] = 1; r += a[0] + sizeof a;",
    "int (*p)[n] = 0; r += sizeof *p;",
    "int k = n * 2; r += k;",
    "struct pt { int x, y; } q = { n, 2 }; r += q.x;",
    "r += (int[]){ 1, n }[1];",
    "char *m = __builtin_alloca(n); m[0] = 1; r += m[0];",
    "switch (n) { case 1: r++; break; default: r--; }",
    "lab: r++; if (r < 3) goto lab;",
    "r += n ? f2(n) : f2(1);",
    "r += n && f2(n);",
    "{ int b[n][2]; b[0][1] = 2; r += b[0][1]; }",
    "while (n--) r++;",
    "do r++; while (0);",
    "long double ldx; (void)&ldx;",
    "static int sv = 3; r += sv;",
    "_Static_assert(1, \"\"); r++;",
    "for (int i = 0; i < n; i++) { int c[i + 1]; c[0] = i; r += c[0]; }",
    # calls that do not return inside expressions: the blocks they end must not be named as phi sources or left open
    "r += n ? (die(), 0) : 5;", "r += n ? 5 : (die(), 0);", "r += (n && (die(), 1)) + (n || (die(), 0));", "r += f2((die(), n));", "n ? die() : (void)0;",
    "r += n ? (die(), 1) : (die(), 2);", "r += (n ? (die(), 1) : 2) ? 3 : (die(), 4);", "if (n ? (die(), 0) : 1) r++;", "while (n ? 0 : (die(), 1)) r++;",
    "switch (n ? (die(), 1) : 2) { case 2: r++; }", "r += (die(), 1) && n;", "r += (die(), 0) || n;", "r += n && ((die(), 1) || n);", "r += ((die(), 1) ? n : 2);",
    "if ((die(), n)) r++;", "for (; (die(), n); ) r++;", "r += f2(n) + ((die(), 1) && f2(n));", "r += (int[]){ n ? (die(), 1) : 2, 3 }[0];", "struct pn { int a, b; } w = { n ? (die(), 1) : 2, 3 }; r += w.a;",
]


def dead_enum(ctx):
    for ti, term in enumerate(DEAD_TERMS):
        for fi in range(len(DEAD_FOLLOW)):
            yield {"term": ti, "follow": fi}
    # two dead regions in a row, and dead code at the very start of a loop body
    for fi in range(len(DEAD_FOLLOW)):
        yield {"term": 0, "follow": fi, "twice": True}


def dead_check(case, ctx):
    """Valid but unreachable code after every kind of terminator: the module must still be well formed (every block
    terminated, every temporary defined before use) on all targets."""
    res = Result()
    term = DEAD_TERMS[case["term"]]
    follow = DEAD_FOLLOW[case["follow"]]
    body = "%s %s" % (term, follow)
    if case.get("twice"):
        body += " return r; " + follow.replace("lab:", "lab2:").replace("goto lab;", "goto lab2;").replace("struct pt", "struct pt2").replace("struct pn", "struct pn2").replace(" sv", " sv2")
    src = ("_Noreturn void die(void); int f2(int);\nint f(int n) {\n\tint r = 0;\n\twhile (n > 100) {\n\t\t%s\n\t}\n"
           "\tfor (;;) { %s }\nout:\n\treturn r;\n}\n" % (body, body.replace("lab:", "lab3:").replace("goto lab;", "goto lab3;").replace("lab2", "lab4").replace("struct pt2", "struct pt4").replace("struct pt ", "struct pt3 ").replace("struct pn2", "struct pn4").replace("struct pn ", "struct pn3 ").replace(" sv2", " sv4").replace(" sv", " sv3")))
    for t in cproc.TARGETS:
        p = cproc.cc(ctx, src.encode(), t, "plain", timeout=60)
        res.n += 1
        if p.timeout or p.rc != 0:
            res.discard.append("rejected: " + p.err.decode(errors="replace").split("error:")[-1].strip()[:40])
            continue
        check_il(ctx, p, res, "dead/%s" % t, src.encode(), t, with_clang=False)
        if res.fail is not None:
            res.fail["input"] = src
            break
    res.labels.append("dead:%s" % term.split()[0].rstrip(";("))
    res.sample = {"source": "deadcode", "body": body[:120]}
    return res


# ---- hand-written units for shapes no generator reaches ----------------------------------------------------------------

SPECIAL_UNITS = [
    # C23 functions without named parameters: definition, direct and indirect calls (the call must carry the marker)
    "int vz(...) { return 0; }\nint u1(void) { return vz(1, 2.0) + vz(); }\nint (*vzp)(...) = vz;\nint u2(double d) { return vzp(d, 3l, (char)1); }\n",
    "void vq(...);\ntypedef void VQ(...);\nVQ *vqp = vq;\nvoid u3(void) { vq(); vq(1); vqp(2.5f); (*vqp)(); }\nvoid vq(...) { }\n",
    "int vm(int n, ...) { return n; }\nint u4(void) { return vm(0) + vm(1, 2) + vm(2, 1.5, \"s\"); }\n",
    # calls through expressions, aggregates by value through pointers, unnamed parameters of every class
    "struct P { long a, b, c; };\nstruct P id(struct P);\nstruct P (*idp)(struct P) = id;\nlong u5(struct P *p) { return idp(*p).b + (*idp)(id(*p)).c; }\n",
    "double un(int, double, struct { int k; } *, float) { return 1; }\ndouble u6(void) { return un(1, 2, 0, 3); }\n",
    # empty function bodies, functions that only loop or only trap, empty switch, switch with only default
    "void e1(void) { }\nvoid e2(void) { for (;;) ; }\n_Noreturn void die(void);\nint e3(void) { die(); }\nint e4(int x) { switch (x) { } return x; }\nint e5(int x) { switch (x) { default: return 1; } }\n",
    "int g1(int x) { goto l; { int y = x; l: return y + 1; } }\nint g2(int x) { if (x) goto end; x++; end: ; return x; }\nvoid g3(void) { l1: goto l1; }\n",
    # nested short-circuit and conditional operators in every position
    "int s1(int a, int b, int c) { return (a && b) || (c ? a || b : b && (c || a)); }\nint s2(int a, int b) { return !(a && b) ? (a ? b : !b) : a || b ? 1 : 2; }\nint s3(int a) { return a ? 1 : a ? 2 : a ? 3 : 4; }\n",
    # functions called main with other return types (only `int main` gets an implicit return value), falling off the end
    "void main(void) { }\n", "void main(int c, char **v) { if (c) return; }\n", "double main(void) { }\n", "struct M { long a, b, c; };\nstruct M main(void) { }\n", "char *main(void) { }\n",
    "int main(void) { }\n", "long main(void) { for (;;) ; }\n", "static void helper(void) { }\nvoid main(void) { helper(); }\n",
    # the target's va_list as a member of aggregates passed and returned by value
    "struct VS { int k; __builtin_va_list ap; };\nstruct VS vid(struct VS a) { return a; }\nunion VU { __builtin_va_list ap; long l; };\nunion VU vud(union VU u) { return u; }\nstruct VA { __builtin_va_list aps[2]; char c; } vav;\nlong vsz = sizeof(struct VS) + sizeof(union VU) + sizeof vav;\n",
    # recursive and mutually referring aggregate types in parameters and returns
    "struct L { struct L *next; int v; };\nstruct T { struct L head; struct T *kids[2]; };\nstruct T mk(struct L l) { struct T t = { l, { 0, 0 } }; return t; }\nstruct L hd(struct T t) { return t.head; }\n",
]


def special_enum(ctx):
    for i in range(len(SPECIAL_UNITS)):
        yield {"unit": i}


def special_check(case, ctx):
    res = Result()
    src = SPECIAL_UNITS[case["unit"]].encode()
    for t in cproc.TARGETS:
        p = cproc.cc(ctx, src, t, "plain", timeout=60)
        res.n += 1
        if p.timeout or p.rc != 0:
            res.fail = dict(sig="", msg="hand-written valid unit %d rejected (%s): %s" % (case["unit"], t, p.err.decode(errors="replace")[:200]), input=src.decode())
            break
        check_il(ctx, p, res, "special/%s" % t, src, t, with_clang=False)
        if res.fail is not None:
            res.fail["input"] = src.decode()
            break
    res.sample = {"source": "special", "head": src.decode()[:120]}
    return res


def gen_sources(ctx):
    try:
        from . import c01
    except ImportError:
        return []
    return c01.c03_sources(ctx) if hasattr(c01, "c03_sources") else []


def sources(ctx):
    return [
        Source("input", input_check, enum=lambda ctx: iter(())),
        Source("files", files_check, enum=files_enum),
        Source("fsize", fsize_check, enum=fsize_enum),
        Source("mutant", mutant_check, strategy=mutant_strategy, examples={"quick": 12000, "thorough": 300000}),
        Source("inits", inits_check, strategy=lambda c: __import__("vlib.gen.initgen", fromlist=["x"]).init_cases(), examples={"quick": 500, "thorough": 20000}),
        Source("byvalue", byvalue_check, strategy=lambda c: __import__("vlib.props.c08", fromlist=["x"]).struct_cases(), examples={"quick": 600, "thorough": 20000}),
        Source("units", units_check, strategy=lambda c: __import__("vlib.props.c09", fromlist=["x"]).units(), examples={"quick": 300, "thorough": 10000}),
        Source("strings", strings_check, strategy=lambda c: string_units(), examples={"quick": 300, "thorough": 10000}),
        Source("deadcode", dead_check, enum=dead_enum, exhaustive=True),
        Source("special", special_check, enum=special_enum, exhaustive=True),
    ] + gen_sources(ctx)
