"""C17 — the driver runs exactly the documented stages with the documented arguments (DESIGN 3/C17).

The driver (/repo/driver.c) is built three times (one per target triple) against a generated
config.h whose tool commands are stand-ins (native/stub.c).  Every stand-in invocation leaves a
record (argv, identity of stdin/stdout, inherited descriptors); the records of one driver run are
compared with a model of cproc(1).

The model below is written from cproc.1 (options, defaults, output naming), README.md (roles of
preprocesscmd/codegencmd/assemblecmd/linkcmd, startfiles "at the beginning" and endfiles "at the
end" of the link command) and the property statement -- NOT from driver.c.  Where the manual is
silent and driver.c makes a choice, the model accepts every choice; each such place is marked
"PERMISSIVE".  Where the manual is silent and DESIGN C17 names the rule, the place is marked
"DESIGN".
"""
import collections
import itertools
import json
import os
import re
import shutil
import subprocess
import tempfile

from hypothesis import strategies as st

from .. import build
from ..runner import Result, Source, run, sha

ID = "C17"
LEVEL = "exploration"
RULE = ("Hypothesis draws command lines from the option grammar of cproc(1): 0-6 inputs of the seven types (by suffix "
        ".c .h .i .qbe .s .S / other, or forced by -x <format>/-x<format>/-x none between inputs), '-' as input, one-character "
        "and suffix-less names, names with several dots and directories; mode flags -E -emit-qbe -S -c (also repeated, last "
        "wins); -o name/-oname/-o -; forwarding options attached and detached (-D -U -I -include -L -l -s -static -pthread "
        "-nostdlib -nostdinc -Wp, -Wa, -Wl,), ignored options (-g -O* -pipe -pedantic -Wall), -v, unknown options, unknown "
        "languages, missing option arguments; a second source adds the undocumented-but-accepted options (-M* -idirafter "
        "-isystem -iquote -std= -P) with a weaker oracle; each command line is run on one of three driver builds (x86_64, "
        "aarch64, riscv64 triples) with stand-in tools that record argv and stdin/stdout identity. Oracle: model of cproc.1 "
        "(stages per type and mode, pipes in order, base command + target flag + exactly the documented user options in "
        "order, link line order, output names, usage errors => status 2 and nothing run). "
        "non-trivial = >=2 inputs of different types, or >=2 forwarding options for different tools; distinct by (triple, argv).")
ASSUMPTIONS = [
    "the stand-in tools (native/stub.c) report their argv and /proc/self/fd/{0,1} links faithfully",
    "file type by suffix, stage lists per type, '-o -' = standard output, '-S' -> .s and last-mode-flag-wins are taken from DESIGN C17 / the usage line, cproc.1 does not state them",
    "default object name is the source's base name in the working directory (POSIX c99 convention); cproc.1 only says 'replacing the source file extension'",
    "where cproc.1 is silent (position of -o/-t/input among a tool's options, -o with one output but several inputs, a command line with only -l, clustered flags) every behaviour is accepted",
]

TRIPLES = ["x86_64-linux-gnu", "aarch64-linux-gnu", "riscv64-linux-gnu"]
# target flags of the compiler (cproc-qbe -t) and of the backend (qbe -t) per triple (DESIGN C17, configure)
TFLAGS = {
    "x86_64-linux-gnu": ("x86_64-sysv", "amd64_sysv"),
    "aarch64-linux-gnu": ("aarch64", "arm64"),
    "riscv64-linux-gnu": ("riscv64", "rv64"),
}
# mirrors the config.h written by build.build_driver()
TOOL = {"pp": "vstub-cpp", "cc": "cproc-qbe", "qbe": "vstub-qbe", "as": "vstub-as", "ld": "vstub-ld"}
BASEARGS = {"pp": ["-BASEPP"], "cc": [], "qbe": ["-BASEQBE"], "as": ["-BASEAS"], "ld": ["-BASELD"]}
STARTFILES = ["-l", ":crt1.o", "-l", ":crti.o"]
ENDFILES = ["-l", "c", "-l", ":crtn.o"]

FORMATS = ["c", "c-header", "cpp-output", "qbe", "assembler", "assembler-with-cpp"]
SUFFIX_TYPE = {"c": "c", "h": "c-header", "i": "cpp-output", "qbe": "qbe", "s": "assembler", "S": "assembler-with-cpp"}
ORDER = ["pp", "cc", "qbe", "as", "ld"]
# stage list per input type (README: preprocessor, compiler, QBE, assembler, linker)
STAGES_OF = {
    "c": ["pp", "cc", "qbe", "as", "ld"],
    "c-header": ["pp"],
    "cpp-output": ["cc", "qbe", "as", "ld"],
    "qbe": ["qbe", "as", "ld"],
    "assembler": ["as", "ld"],
    "assembler-with-cpp": ["pp", "as", "ld"],
    "other": ["ld"],
}
MODE_LAST = {"E": "pp", "emit-qbe": "cc", "S": "qbe", "c": "as", "link": "ld"}
MODE_FLAG = {"-E": "E", "-emit-qbe": "emit-qbe", "-S": "S", "-c": "c"}
MODE_EXT = {"emit-qbe": "qbe", "S": "s", "c": "o"}

# defect models (DESIGN 2.9): a failure is given one of these signatures only if the observation
# equals what the model predicts with exactly that rule changed:
#   emit-qbe-default-output   -emit-qbe without -o writes <name>.qbe (cproc.1: standard output)
#   pthread-not-as-lpthread   -pthread puts "-l pthread" among the linker options, before the start files
#                             and objects, not where -lpthread would be (cproc.1: "short hand of -lpthread")
#   header-passed-to-linker   a c-header input on a link line is not built (correct) but its name is
#                             handed to the linker
# A fourth signature, "missing-argument-not-refused:<option>", is given when a command line that ends in
# an option lacking its argument is not refused (judge()).
VARIANTS = ["emit-qbe-default-output", "pthread-not-as-lpthread", "header-passed-to-linker"]


# ------------------------------------------------------------------------------------------------
# model of the command line (cproc.1)

class Usage(Exception):
    pass


class Parsed:
    def __init__(self):
        self.inputs = []      # dict(name=, type=, lib=bool, pthread=bool)
        self.mode = "link"
        self.output = None
        self.opts = {"pp": [], "as": [], "ld": []}   # groups of argv strings, command-line order
        self.nostdlib = False
        self.verbose = False
        self.weak = []        # groups (undocumented-but-accepted options)
        self.weak_mode = False  # -M / -MM seen
        self.error = None     # reason a usage error is required
        self.seen = []        # option labels


def filetype(name):
    base = name.rsplit("/", 1)[-1]
    if "." in base:
        return SUFFIX_TYPE.get(base.rsplit(".", 1)[1], "other")
    return "other"


def parse(args):
    P = Parsed()
    forced = None
    i = 0
    n = len(args)

    def value(opt):
        # "-Xvalue" or "-X value" (utility syntax conventions; cproc.1 writes "-D macro", "-o output" ...)
        nonlocal i
        a = args[i]
        if len(a) > len(opt):
            return a[len(opt):]
        i += 1
        if i >= n:
            raise Usage("missing argument of " + opt)
        return args[i]

    try:
        while i < n:
            a = args[i]
            if not a.startswith("-") or a == "-":
                if a == "-" and forced is None:
                    # the language of standard input cannot be detected from a suffix
                    raise Usage("standard input without -x")
                P.inputs.append(dict(name=a, type=forced or filetype(a), lib=False, pthread=False))
            elif a in MODE_FLAG:
                P.mode = MODE_FLAG[a]   # DESIGN: last mode flag wins
                P.seen.append(a)
            elif a == "-include":
                P.opts["pp"].append(["-include", value("-include")])
                P.seen.append(a)
            elif a == "-nostdinc":
                P.opts["pp"].append([a])
                P.seen.append(a)
            elif a == "-nostdlib":
                P.nostdlib = True
                P.seen.append(a)
            elif a == "-static":
                P.opts["ld"].append([a])
                P.seen.append(a)
            elif a == "-pthread":
                # cproc.1: "This is a short hand of -lpthread."
                P.inputs.append(dict(name="pthread", type="other", lib=True, pthread=True))
                P.seen.append(a)
            elif a in ("-pipe", "-pedantic", "-g") or a.startswith("-O"):
                P.seen.append(a[:2] if a.startswith("-O") else a)
            elif a == "-s":
                P.opts["ld"].append(["-s"])
                P.seen.append(a)
            elif a == "-v":
                P.verbose = True
                P.seen.append(a)
            elif a[:2] in ("-D", "-U", "-I"):
                P.opts["pp"].append([a[:2], value(a[:2])])
                P.seen.append(a[:2] + ("=attached" if len(a) > 2 else "=detached"))
            elif a[:2] == "-L":
                P.opts["ld"].append(["-L", value("-L")])
                P.seen.append("-L" + ("=attached" if len(a) > 2 else "=detached"))
            elif a[:2] == "-l":
                P.seen.append("-l" + ("=attached" if len(a) > 2 else "=detached"))
                P.inputs.append(dict(name=value("-l"), type="other", lib=True, pthread=False))
            elif a[:2] == "-o":
                P.seen.append("-o" + ("=attached" if len(a) > 2 else "=detached"))
                P.output = value("-o")
            elif a[:2] == "-x":
                P.seen.append("-x" + ("=attached" if len(a) > 2 else "=detached"))
                f = value("-x")
                if f == "none":
                    forced = None
                elif f in FORMATS:
                    forced = f
                else:
                    raise Usage("unknown language " + f)
            elif re.match(r"-W[apl],", a):
                # "The list of arguments is delimited by commas."
                P.opts[{"a": "as", "p": "pp", "l": "ld"}[a[2]]].extend([x] for x in a[4:].split(","))
                P.seen.append(a[:3] + ",")
            elif a.startswith("-W") and not (len(a) > 3 and a[3] == ","):
                P.seen.append("-W<warning>")   # DESIGN: accepted and ignored (-Wall ...)
            # ---- undocumented but accepted: weaker oracle
            elif a in ("-M", "-MM", "-MD", "-MMD", "-P") or a.startswith("-std="):
                P.weak.append([a])
                if a in ("-M", "-MM"):
                    P.weak_mode = True
                P.seen.append("weak:" + a.split("=")[0])
            elif a in ("-MF", "-MT", "-idirafter", "-isystem", "-iquote"):
                P.seen.append("weak:" + a)
                P.weak.append([a, value(a)])
            else:
                raise Usage("unknown option " + a)
            i += 1
    except Usage as e:
        P.error = str(e)
    return P


def changeext(name, ext):
    # cproc.1: "replacing the source file extension with .o"; placed in the working directory
    base = name.rsplit("/", 1)[-1]
    if "." in base:
        base = base.rsplit(".", 1)[0]
    return base + "." + ext


WITHARG = ("-o", "-t", "-D", "-U", "-I", "-include", "-L", "-l", "-idirafter", "-isystem", "-iquote", "-MF", "-MT")
ATTACHED = ("-D", "-U", "-I", "-L", "-l")


def items(args):
    """Option/argument pairs of an argv tail, attached and detached forms identified.

    PERMISSIVE: whether the driver hands "-D x" or "-Dx" to the tool is not documented."""
    out = []
    i = 0
    while i < len(args):
        a = args[i]
        if a in WITHARG and i + 1 < len(args):
            out.append((a, args[i + 1]))
            i += 2
            continue
        if len(a) > 2 and a[:2] in ATTACHED:
            out.append((a[:2], a[2:]))
        else:
            out.append((a,))
        i += 1
    return out


def is_subseq(sub, seq):
    it = iter(seq)
    return all(any(x == y for y in it) for x in sub)


class Temp:
    """Placeholder for the temporary object of input i (the name is the driver's choice)."""
    def __init__(self, i):
        self.i = i

    def __repr__(self):
        return "<temporary object of input %d>" % self.i


def expect(P, variants=()):
    """What cproc.1 prescribes for the parsed command line.

    usage: "must" (refused, nothing run), "may" (PERMISSIVE: refusing is also accepted), "no"."""
    E = dict(usage="no", why="", pipelines=[], linker=None)
    if P.error:
        E.update(usage="must", why=P.error)
        return E
    last = MODE_LAST[P.mode]
    files = [x for x in P.inputs if not x["lib"]]
    if not P.inputs:
        E.update(usage="must", why="no input")
        return E
    if not files:
        # PERMISSIVE: SYNOPSIS requires sources, driver.c counts -l as an input
        E.update(usage="may", why="only libraries")
    pipes = []
    for idx, x in enumerate(P.inputs):
        if x["lib"]:
            continue
        st_ = STAGES_OF[x["type"]]
        if last not in st_:
            continue                       # does not reach the last stage: skipped
        run_ = [s for s in st_[:st_.index(last) + 1] if s != "ld"]
        if not run_:
            continue                       # an object on a link line
        if P.mode == "link":
            out = Temp(idx)
        elif P.output is not None:
            out = None if P.output == "-" else P.output     # DESIGN: "-o -" is standard output
        elif P.mode == "E":
            out = None
        elif P.mode == "emit-qbe":
            # cproc.1 -o: "if -E or -emit-qbe is used, the output is written to standard output"
            out = changeext(x["name"], "qbe") if "emit-qbe-default-output" in variants else None
        else:
            out = changeext(x["name"], MODE_EXT[P.mode])
        pipes.append(dict(idx=idx, name=x["name"], type=x["type"], stages=run_, out=out))
    E["pipelines"] = pipes
    if P.output is not None:
        if P.output == "-":
            if P.mode == "link" or (P.mode == "c" and pipes):
                E.update(usage="must", why="object to standard output")
                return E
            if P.mode == "c":
                E.update(usage="may", why="-c -o - without any object")    # PERMISSIVE
        elif P.mode != "link":
            if len(pipes) >= 2:
                E.update(usage="must", why="-o with several outputs without linking")
                return E
            if len(P.inputs) >= 2:
                # PERMISSIVE: one output, but several inputs (skipped ones, libraries)
                E.update(usage="may", why="-o with several inputs but at most one output")
    if P.mode == "link":
        linklist = []
        ldopts = [list(g) for g in P.opts["ld"]]
        for idx, x in enumerate(P.inputs):
            if x["lib"]:
                if x["pthread"] and "pthread-not-as-lpthread" in variants:
                    continue
                linklist.append(["-l", x["name"]])
            elif x["type"] == "c-header":
                # a header has no link stage ("each input passes through exactly the stages implied by its type")
                if "header-passed-to-linker" in variants:
                    linklist.append([x["name"]])
            elif x["type"] == "other":
                linklist.append([x["name"]])
            else:
                linklist.append([Temp(idx)])
        if "pthread-not-as-lpthread" in variants:
            # defect model: "-l pthread" handled as a linker option, at -pthread's position among the
            # linker options; recomputed from the command line by the caller (ld_opts_with_pthread)
            ldopts = None
        E["linker"] = dict(out=P.output or "a.out", linklist=linklist, ldopts=ldopts)
    return E


def ld_opts_with_pthread(args):
    """Linker option groups in command-line order when -pthread is a linker option (defect model)."""
    P = parse([a if a != "-pthread" else "-Wl,-l,pthread" for a in args])
    return [list(g) for g in P.opts["ld"]]


# ------------------------------------------------------------------------------------------------
# observation

def build_stub(ctx):
    out = os.path.join(ctx.tmp, "vstub")
    if not os.path.exists(out):
        r = subprocess.run(["gcc", "-O1", "-o", out, os.path.join(build.VERIF, "native", "stub.c")],
                           stdin=subprocess.DEVNULL, stdout=subprocess.PIPE, stderr=subprocess.STDOUT, timeout=120)
        if r.returncode != 0:
            raise RuntimeError("cannot build native/stub.c:\n" + r.stdout.decode(errors="replace"))
    return out


def prepare_drivers(ctx, triples):
    ctx.builds["stub"] = build_stub(ctx)
    for t in triples:
        exe = build.build_driver(t)
        # a private copy inside ctx.tmp so that per-case hard links stay on one file system
        d = os.path.join(ctx.tmp, "drv-" + t)
        os.makedirs(d, exist_ok=True)
        shutil.copy(exe, os.path.join(d, "cproc"))
        ctx.builds["driver:" + t] = os.path.join(d, "cproc")


def _link(src, dst):
    try:
        os.link(src, dst)
    except OSError:
        shutil.copy(src, dst)


def install(ctx, triple, d, missing=()):
    """Per-case bin directory: the driver as bin/cproc, the stand-in under every tool name."""
    b = os.path.join(d, "bin")
    os.makedirs(b)
    _link(ctx.builds["driver:" + triple], os.path.join(b, "cproc"))
    for t in TOOL.values():
        if t not in missing:
            _link(ctx.builds["stub"], os.path.join(b, t))
    return b


def read_log(path):
    recs = []
    try:
        with open(path, "rb") as f:
            for ln in f:
                try:
                    recs.append(json.loads(ln.decode("latin-1")))
                except ValueError:
                    recs.append({"tool": "?", "argv": [], "garbled": ln[:200].decode("latin-1")})
    except FileNotFoundError:
        pass
    return recs


def snapshot(root):
    out = {}
    for dp, dn, fn in os.walk(root):
        for f in fn:
            p = os.path.join(dp, f)
            try:
                with open(p, "rb") as fh:
                    out[os.path.relpath(p, root)] = fh.read(4096)
            except OSError:
                out[os.path.relpath(p, root)] = None
    return out


TMP_RE = re.compile(r"/tmp/cproc-[A-Za-z0-9]{6}")


def temps_named(recs, stderr=b""):
    names = set()
    for r in recs:
        for a in r.get("argv", []):
            names.update(TMP_RE.findall(a))
    names.update(TMP_RE.findall(stderr.decode("latin-1")))
    return sorted(names)


def observe(ctx, triple, args, P):
    d = tempfile.mkdtemp(dir=ctx.wdir())
    try:
        b = install(ctx, triple, d)
        w = os.path.join(d, "w")
        for sub in ("", "sub", "d.x"):
            os.makedirs(os.path.join(w, sub), exist_ok=True)
        for x in P.inputs:
            if not x["lib"] and x["name"] != "-":
                with open(os.path.join(w, x["name"]), "w") as f:
                    f.write("IN\n")
        before = snapshot(w)
        paths = {k: os.path.join(d, k) for k in ("stdin", "stdout", "stderr", "log")}
        with open(paths["stdin"], "w") as f:
            f.write("STDIN\n")
        env = {"PATH": b + ":/usr/bin:/bin", "LC_ALL": "C", "VSTUB_LOG": paths["log"]}
        with open(paths["stdin"], "rb") as fi, open(paths["stdout"], "wb") as fo, open(paths["stderr"], "wb") as fe:
            p = run([os.path.join(b, "cproc")] + list(args), cwd=w, env=env, stdin=fi, stdout=fo, stderr=fe, timeout=20)
        recs = read_log(paths["log"])
        after = snapshot(w)
        with open(paths["stdout"], "rb") as f:
            out = f.read()
        with open(paths["stderr"], "rb") as f:
            err = f.read()
        for t in temps_named(recs, err):
            try:
                os.unlink(t)
            except OSError:
                pass
        return dict(rc=p.rc, timeout=p.timeout, recs=recs, stdout=out, stderr=err, before=before, after=after,
                    stdin_id=paths["stdin"], stdout_id=paths["stdout"], bin=b, cwd=w)
    finally:
        shutil.rmtree(d, ignore_errors=True)


# ------------------------------------------------------------------------------------------------
# comparison

def _strip(obs, s):
    # make messages and signatures independent of the scratch directory
    return s.replace(os.path.dirname(obs["bin"]), "<case>")


def chains(recs):
    """Group stage records into pipelines by pipe identity; returns (list of chains, problems)."""
    stage = [r for r in recs if r.get("tool") != TOOL["ld"] and "event" not in r]
    by_in = collections.defaultdict(list)
    for r in stage:
        if str(r.get("fd0", "")).startswith("pipe:"):
            by_in[r["fd0"]].append(r)
    problems = []
    out = []
    used = set()
    for r in stage:
        if str(r.get("fd0", "")).startswith("pipe:"):
            continue
        ch = [r]
        used.add(id(r))
        while str(ch[-1].get("fd1", "")).startswith("pipe:"):
            nxt = [x for x in by_in.get(ch[-1]["fd1"], []) if id(x) not in used]
            if len(nxt) != 1:
                problems.append("standard output of %s is a pipe read by %d stages" % (ch[-1]["argv"], len(nxt)))
                break
            ch.append(nxt[0])
            used.add(id(nxt[0]))
        out.append(ch)
    for r in stage:
        if id(r) not in used:
            problems.append("stage %s reads from a pipe that no recorded stage writes" % (r["argv"],))
    return out, problems


def match_args(what, argv_tail, groups, wild=None):
    """argv_tail must consist of exactly the items of all groups, each group in its own order.

    PERMISSIVE: the order of the groups relative to each other (base arguments, target flag, user options,
    -o, input) is not documented.  wild: name of a group whose single "-o" value is chosen by the driver."""
    got = items(argv_tail)
    bound = None
    want = []
    for name, g in groups:
        its = items(g)
        if name == wild:
            cand = [x for x in got if x[0] == "-o" and len(x) == 2]
            if len(cand) != 1:
                return ["%s: expected exactly one -o <temporary>, argv tail %s" % (what, argv_tail)], None
            bound = cand[0][1]
            its = [("-o", bound)]
        want.append((name, its))
    allw = [x for _, its in want for x in its]
    if collections.Counter(got) != collections.Counter(allw):
        extra = list((collections.Counter(got) - collections.Counter(allw)).elements())
        miss = list((collections.Counter(allw) - collections.Counter(got)).elements())
        return ["%s: arguments differ: unexpected %s, missing %s (argv tail %s)" % (what, extra, miss, argv_tail)], bound
    for name, its in want:
        if not is_subseq(its, got):
            return ["%s: %s not in command-line order: want %s within %s" % (what, name, its, got)], bound
    return [], bound


def match_pipeline(obs, P, triple, exp, chain, weakc=None):
    """Discrepancies between one expected pipeline and one observed chain; binds the temporary name."""
    errs = []
    kinds = [r["tool"] for r in chain]
    want_kinds = [TOOL[s] for s in exp["stages"]]
    what = "input %r (%s, mode %s)" % (exp["name"], exp["type"], P.mode)
    if kinds != want_kinds:
        return ["%s: stages run %s, expected %s" % (what, kinds, want_kinds)], None
    bound = None
    for k, (s, r) in enumerate(zip(exp["stages"], chain)):
        first, lastst = k == 0, k == len(chain) - 1
        w = "%s stage %s" % (what, TOOL[s])
        argv = list(r["argv"])
        base0 = os.path.join(obs["bin"], "cproc-qbe") if s == "cc" else TOOL[s]
        if not argv or argv[0] != base0:
            errs.append("%s: command %r, expected %r" % (w, argv[:1], base0))
            continue
        tail = argv[1:]
        if weakc is not None:
            tail = weakc.strip(r, tail)
        groups = [("base arguments", BASEARGS[s])]
        if s == "cc":
            groups.append(("target flag", ["-t", TFLAGS[triple][0]]))
        if s == "qbe":
            groups.append(("target flag", ["-t", TFLAGS[triple][1]]))
        if s in ("pp", "as"):
            groups.append(("user options", [a for g in P.opts[s] for a in g]))
        wild = None
        if lastst and exp["out"] is not None:
            if isinstance(exp["out"], Temp):
                groups.append(("output", ["-o", "?"]))
                wild = "output"
            else:
                groups.append(("output", ["-o", exp["out"]]))
        if first and exp["name"] != "-":
            groups.append(("input", [exp["name"]]))
        e, b = match_args(w, tail, groups, wild)
        errs.extend(e)
        if b is not None:
            bound = b
        # plumbing
        if first:
            # PERMISSIVE: what a stage that is given a file name has as standard input is not documented
            if exp["name"] == "-" and r["fd0"] != obs["stdin_id"]:
                errs.append("%s: standard input is %s, expected the driver's own" % (w, r["fd0"]))
            elif str(r["fd0"]).startswith("pipe:"):
                errs.append("%s: first stage reads from a pipe %s" % (w, r["fd0"]))
        else:
            if not r["fd0"].startswith("pipe:") or r["fd0"] != chain[k - 1]["fd1"]:
                errs.append("%s: standard input %s is not the pipe written by %s (%s)" % (w, r["fd0"], chain[k - 1]["tool"], chain[k - 1]["fd1"]))
        if lastst:
            # PERMISSIVE: likewise the standard output of a stage that writes to its -o file
            if exp["out"] is None and r["fd1"] != obs["stdout_id"]:
                errs.append("%s: standard output is %s, expected the driver's own" % (w, r["fd1"]))
            elif str(r["fd1"]).startswith("pipe:"):
                errs.append("%s: last stage writes to a pipe %s" % (w, r["fd1"]))
        else:
            if not r["fd1"].startswith("pipe:"):
                errs.append("%s: standard output %s is not a pipe" % (w, r["fd1"]))
        leaked = {k2: v for k2, v in r.get("xfds", {}).items() if str(v).startswith("pipe:")}
        if leaked:
            errs.append("%s: inherited pipe ends of other stages: %s" % (w, leaked))
    pipes = [r["fd1"] for r in chain[:-1]]
    if len(set(pipes)) != len(pipes):
        errs.append("%s: one pipe used twice: %s" % (what, pipes))
    return errs, bound


class WeakCtx:
    """Removes the undocumented options from observed argv and remembers which tool got them."""
    def __init__(self, P):
        self.want = collections.Counter(x for g in P.weak for x in items(g))
        self.seen = collections.defaultdict(set)

    def strip(self, rec, tail):
        left = collections.Counter(self.want)
        out = []
        for it in items(tail):
            if left[it] > 0:
                left[it] -= 1
                self.seen[it].add(rec["tool"])
            else:
                out.extend(it)
        return out


def compare(obs, P, triple, args, variants=(), mode_override=None, weakc=None):
    """List of discrepancies between the observation and the model (empty: conforms)."""
    if mode_override:
        P = parse(args)
        P.mode = mode_override
    E = expect(P, variants)
    recs = [r for r in obs["recs"] if "event" not in r]
    errs = []
    refused = obs["rc"] == 2 and not recs
    if E["usage"] == "must" or (E["usage"] == "may" and refused) or (weakc is not None and refused):
        if obs["rc"] != 2:
            errs.append("usage error expected (%s): exit status %s, expected 2" % (E["why"], obs["rc"]))
        if recs:
            errs.append("usage error expected (%s): but tools were run: %s" % (E["why"], [r["argv"] for r in recs]))
        if obs["after"] != obs["before"]:
            errs.append("usage error expected (%s): but files changed" % E["why"])
        return errs
    if obs["rc"] != 0:
        errs.append("exit status %s, expected 0 (all tools succeed); stderr %r" % (obs["rc"], obs["stderr"][:300]))
    if any("garbled" in r for r in recs):
        return ["garbled stub record"]
    ch, problems = chains(recs)
    errs.extend(problems)
    exp = E["pipelines"]
    if len(ch) != len(exp):
        errs.append("%d pipelines were run, expected %d (%s); observed first stages: %s"
                    % (len(ch), len(exp), [(e["name"], [TOOL[s] for s in e["stages"]]) for e in exp], [c[0]["argv"] for c in ch]))
        return errs
    # pair expected pipelines with observed chains: in log order, else (PERMISSIVE: scheduling of
    # independent pipelines is not documented) any permutation
    temps = {}
    best = None
    for perm in itertools.islice(itertools.permutations(range(len(ch))), 720):
        perrs = []
        ptemps = {}
        for e, ci in zip(exp, perm):
            w = WeakCtx(P) if weakc is not None else None
            pe, b = match_pipeline(obs, P, triple, e, ch[ci], w)
            perrs.extend(pe)
            if w is not None and not pe:
                for k, v in w.seen.items():
                    weakc.seen[k] |= v
            if b is not None:
                ptemps[e["idx"]] = b
        if best is None:
            best = (perrs, ptemps)
        if not perrs:
            best = (perrs, ptemps)
            break
    errs.extend(best[0])
    temps = best[1]
    # temporaries: chosen by the driver, but never a name the user gave, and all different
    user_names = {x["name"] for x in P.inputs} | ({P.output} if P.output else set()) | {"a.out"}
    tv = list(temps.values())
    if len(set(tv)) != len(tv) or set(tv) & user_names:
        errs.append("temporary objects clash: %s" % temps)
    # linker
    lds = [r for r in recs if r["tool"] == TOOL["ld"]]
    if E["linker"] is None:
        if lds:
            errs.append("linker was run in mode %s: %s" % (P.mode, lds[0]["argv"]))
    elif len(lds) != 1:
        errs.append("linker was run %d times, expected once" % len(lds))
    else:
        r = lds[0]
        if recs.index(r) != len(recs) - 1:
            errs.append("linker started before the last compilation stage")
        L = E["linker"]
        tail = r["argv"][1:]
        if weakc is not None:
            tail = weakc.strip(r, tail)
        ll = []
        for g in L["linklist"]:
            ll.extend(temps.get(x.i, "<no temporary for input %d>" % x.i) if isinstance(x, Temp) else x for x in g)
        ldopts = L["ldopts"] if L["ldopts"] is not None else ld_opts_with_pthread(args)
        std = [] if P.nostdlib else [STARTFILES, ENDFILES]
        groups = [("base arguments", BASEARGS["ld"]),
                  ("user options", [a for g in ldopts for a in g]),
                  ("output", ["-o", L["out"]]),
                  # README: startfiles at the beginning, endfiles at the end of the link command;
                  # inputs and -l libraries in command-line order in between
                  ("start files, inputs and libraries, end files", (std[0] if std else []) + ll + (std[1] if std else []))]
        if r["argv"][0] != TOOL["ld"]:
            errs.append("linker command %r, expected %r" % (r["argv"][0], TOOL["ld"]))
        e, _ = match_args("link step", tail, groups)
        errs.extend(e)
        if str(r["fd0"]).startswith("pipe:") or str(r["fd1"]).startswith("pipe:"):
            errs.append("link step: connected to a pipe: stdin %s stdout %s" % (r["fd0"], r["fd1"]))
        if any(str(v).startswith("pipe:") for v in r.get("xfds", {}).values()):
            errs.append("link step: inherited pipe ends: %s" % r["xfds"])
    # files and standard output
    want_files = dict(obs["before"])
    want_stdout = []
    for e in exp:
        tag = ("TAG %s\n" % TOOL[e["stages"][-1]]).encode()
        if e["out"] is None:
            want_stdout.append(tag)
        elif not isinstance(e["out"], Temp):
            want_files[os.path.normpath(e["out"])] = tag
    if E["linker"] is not None:
        want_files[os.path.normpath(E["linker"]["out"])] = b"TAG vstub-ld\n"
    if want_files != obs["after"]:
        diff = {k: (want_files.get(k), obs["after"].get(k)) for k in set(want_files) | set(obs["after"])
                if want_files.get(k) != obs["after"].get(k)}
        errs.append("files in the working directory differ {name: (expected, found)}: %s" % diff)
    if sorted(obs["stdout"].splitlines(True)) != sorted(want_stdout):
        errs.append("standard output %r, expected %r" % (obs["stdout"][:200], b"".join(want_stdout)))
    if P.verbose:
        # cproc.1 -v: "Print the commands run as part of the compile pipeline."
        text = obs["stderr"].decode("latin-1")
        for r in recs:
            if " ".join(r["argv"]) not in text:
                errs.append("-v: command %s not printed" % (r["argv"],))
                break
    return errs


def judge(obs, P, triple, args):
    """None, or dict(sig, msg)."""
    if P.weak:
        return judge_weak(obs, P, triple, args)
    errs = compare(obs, P, triple, args)
    if not errs:
        return None
    if P.error and P.error.startswith("missing argument of ") and not (obs["rc"] == 2 and not obs["recs"]):
        # a command line ending in an option that lacks its argument was not refused
        return dict(sig="missing-argument-not-refused:" + P.error.split()[-1],
                    msg="\n  ".join(_strip(obs, e) for e in errs[:4]))
    # does a recorded defect model explain the observation exactly?
    for k in range(1, len(VARIANTS) + 1):
        for vs in itertools.combinations(VARIANTS, k):
            if not relevant(P, vs):
                continue
            if not compare(obs, P, triple, args, variants=vs):
                return dict(sig="+".join(vs), msg="observation matches the model only with the rule change(s) %s; "
                            "against cproc.1:\n  %s" % (list(vs), "\n  ".join(_strip(obs, e) for e in errs[:6])))
    return dict(sig="", msg="\n  ".join(_strip(obs, e) for e in errs[:8]))


def relevant(P, vs):
    ok = True
    if "emit-qbe-default-output" in vs:
        ok &= P.mode == "emit-qbe" and P.output is None
    if "pthread-not-as-lpthread" in vs:
        ok &= P.mode == "link" and any(x["pthread"] for x in P.inputs)
    if "header-passed-to-linker" in vs:
        ok &= P.mode == "link" and any(x["type"] == "c-header" and not x["lib"] for x in P.inputs)
    return ok


def judge_weak(obs, P, triple, args):
    """Undocumented-but-accepted options: each is routed to exactly one tool or ignored, nothing crashes,
    and everything else conforms to the model for the documented part of the command line (with the
    mode flags as given, or as with -E when -M/-MM is present)."""
    if obs["rc"] is None or obs["rc"] < 0 or obs["rc"] not in (0, 2):
        return dict(sig="", msg="undocumented option: exit status %s (stderr %r)" % (obs["rc"], obs["stderr"][:300]))
    modes = [None] + (["E"] if P.weak_mode else [])
    vsets = [()] + [vs for k in range(1, len(VARIANTS) + 1) for vs in itertools.combinations(VARIANTS, k)]
    first = None
    for vs in vsets:
        for m in modes:
            Pm = parse(args)
            if m:
                Pm.mode = m
            if vs and not relevant(Pm, vs):
                continue
            w = WeakCtx(P)
            errs = compare(obs, P, triple, args, variants=vs, mode_override=m, weakc=w)
            if not errs:
                multi = {k: sorted(v) for k, v in w.seen.items() if len(v) > 1}
                if multi:
                    return dict(sig="", msg="undocumented option routed to several tools: %s" % multi)
                if vs:
                    return dict(sig="+".join(vs), msg="(with undocumented options) observation matches the model only with %s" % (list(vs),))
                return None
            if first is None:
                first = errs
    return dict(sig="", msg="with undocumented options %s:\n  %s" % (P.weak, "\n  ".join(_strip(obs, e) for e in first[:8])))


# ------------------------------------------------------------------------------------------------
# generator

STEMS = ["a", "b", "main", "x.y", "sub/f", "d.x/g", "./h", "A_1", "sub/a"]
SUFFIXES = [".c", ".h", ".i", ".qbe", ".s", ".S", ".c", ".o", ".a", "", ".so.1", ".txt"]
WARGS = ["--gc-sections", "-zfoo", "-q", "x", "a=b", "", "--noexecstack", "-Dq=2", "/p/q"]
UNKNOWN = [["-Z"], ["-q"], ["--version"], ["--help"], ["-fPIC"], ["-m64"], ["-Wx,foo"], ["-y"], ["-x", "fortran"],
           ["-xc++"], ["-shared"], ["-emit-llvm"], ["-dumpmachine"], ["-nostartfiles"]]
DANGLING = ["-o", "-D", "-U", "-I", "-L", "-l", "-x", "-include"]
WEAK = [["-M"], ["-MM"], ["-MD"], ["-MMD"], ["-MF", "dep.d"], ["-MT", "tgt"], ["-idirafter", "inc"], ["-isystem", "/usr/inc"],
        ["-iquote", "q"], ["-std=c11"], ["-std=gnu99"], ["-P"]]


def _forms(opt, vals):
    return st.sampled_from(vals).flatmap(lambda v: st.sampled_from([[opt, v], [opt + v]]))


def input_strategy():
    # one flat weighted list (st.one_of does not sample its alternatives uniformly)
    els = [[s + x] for s in STEMS for x in SUFFIXES]
    # standard input needs a language: mostly generated together with -x, rarely bare (usage error)
    for k, f in enumerate(FORMATS):
        els.append([["-x", f, "-", "-x", "none"], ["-x" + f, "-", "-xnone"], ["-x", f, "-"]][k % 3])
        els.append([["-x", f, "-", "-x", "none"], ["-x" + f, "-", "-xnone"], ["-x", f, "-"]][(k + 1) % 3])
    els += [["-"], ["-"]]
    return st.sampled_from(els)


def option_strategy(weak=False):
    xsw = _forms("-x", FORMATS + FORMATS + ["none", "none"])
    mode = st.sampled_from([["-E"], ["-emit-qbe"], ["-S"], ["-c"]])
    ppo = st.one_of(_forms("-D", ["x", "x=1", "FOO=a b", "y=", "-1=x", "-c"]), _forms("-U", ["x", "__GNUC__", "-u"]), _forms("-I", ["inc", "/usr/include", ".", "-gen", "-E", "--"]),
                    st.sampled_from([["-include", "cfg.h"], ["-include", "sub/p.h"], ["-nostdinc"]]),
                    st.lists(st.sampled_from(WARGS), min_size=1, max_size=3).map(lambda l: ["-Wp," + ",".join(l)]))
    aso = st.lists(st.sampled_from(WARGS), min_size=1, max_size=3).map(lambda l: ["-Wa," + ",".join(l)])
    ldo = st.one_of(_forms("-L", ["lib", "/usr/lib", ".", "-libs", "-c"]), _forms("-l", ["m", "foo", ":libz.a", "sub/libq.a", "-x", "-o"]),
                    st.sampled_from([["-s"], ["-static"], ["-pthread"], ["-nostdlib"]]),
                    st.lists(st.sampled_from(WARGS), min_size=1, max_size=3).map(lambda l: ["-Wl," + ",".join(l)]))
    ign = st.sampled_from([["-g"], ["-O"], ["-O2"], ["-Os"], ["-pipe"], ["-pedantic"], ["-Wall"], ["-Wextra"], ["-v"], ["-v"]])
    alts = [xsw, xsw, mode, ppo, ppo, ppo, aso, aso, ldo, ldo, ldo, ign, ign]
    if weak:
        alts += [st.sampled_from(WEAK)] * 6
    return st.one_of(*alts)


OUTPUTS = [[]] * 10 + [["-o", "out"], ["-oout.o"], ["-o", "sub/out.x"], ["-oa.out"], ["-o", "res.s"], ["-o", "o"], ["-o", "-"], ["-o-"], ["-o", "-prog"], ["-o", "-c"], ["-o-o"]]
MODES = [[]] * 4 + [["-E"], ["-E"], ["-emit-qbe"], ["-emit-qbe"], ["-S"], ["-S"], ["-c"], ["-c"], ["-c", "-E"], ["-S", "-c"],
                    ["-E", "-emit-qbe"], ["-c", "-c"], ["-emit-qbe", "-S"]]
BAD = [None] * 22 + ["unknown", "dangling", "noinput"]


def _assemble(t, perm, bad, unk, dang, weak):
    args = []
    perm = list(perm)
    if bad == "noinput":
        perm = [e for e in perm if e and e[0].startswith("-") and "-" not in e]
    if bad == "unknown" and not weak:
        perm.insert(len(perm) // 2, unk)
    for e in perm:
        args.extend(e)
    if bad == "dangling" and not weak:
        args.append(dang)
    return {"t": t, "args": args}


def cmdline_strategy(ctx, weak=False):
    parts = st.tuples(st.lists(input_strategy(), min_size=1, max_size=6),
                      st.lists(option_strategy(weak), min_size=1 if weak else 0, max_size=9),
                      st.sampled_from(MODES), st.sampled_from(OUTPUTS))
    perm = parts.flatmap(lambda p: st.permutations(p[0] + p[1] + [[m] for m in p[2]] + ([p[3]] if p[3] else [])))
    return st.builds(lambda t, pm, bad, unk, dang: _assemble(t, pm, bad, unk, dang, weak), st.integers(0, 2), perm,
                     st.sampled_from(BAD), st.sampled_from(UNKNOWN), st.sampled_from(DANGLING))


# every ordered pair of options around a fixed set of inputs: what one option does must not depend on where another one stands
PAIR_OPTS = [["-v"], ["-nostdlib"], ["-static"], ["-s"], ["-pthread"], ["-c"], ["-S"], ["-E"], ["-emit-qbe"], ["-g"], ["-O2"], ["-Wall"], ["-pipe"], ["-nostdinc"],
             ["-D", "x=1"], ["-Ux"], ["-I", "inc"], ["-include", "cfg.h"], ["-L", "lib"], ["-lm"], ["-l", ":libz.a"], ["-Wl,-z,now"], ["-Wa,--x"], ["-Wp,-P"],
             ["-o", "out"], ["-x", "c"], ["-x", "none"], ["-x", "assembler"]]
PAIR_INPUTS = [["a.c", "b.o"], ["a.c"], ["m.s", "n.S", "lib.a"]]


def pairs_enum(ctx):
    k = 0
    for a in PAIR_OPTS:
        for b in PAIR_OPTS:
            if a is b:
                continue
            for ins in PAIR_INPUTS:
                k += 1
                if ctx.tier != "thorough" and ins is not PAIR_INPUTS[0] and (k + ctx.seed) % 4:
                    continue
                for layout in (a + b + ins, a + ins + b, ins + a + b, a + ins[:1] + b + ins[1:]):
                    yield {"t": k % 3, "args": layout}


def weak_strategy(ctx):
    return cmdline_strategy(ctx, True).filter(lambda c: any(a in [w[0] for w in WEAK] or a.startswith("-std=") for a in c["args"]))


# ------------------------------------------------------------------------------------------------
# check

FORWARD_TOOL = {"-D": "pp", "-U": "pp", "-I": "pp", "-include": "pp", "-nostdinc": "pp", "-Wp,": "pp", "-Wa,": "as",
                "-L": "ld", "-l": "ld", "-s": "ld", "-static": "ld", "-pthread": "ld", "-nostdlib": "ld", "-Wl,": "ld"}


def check(case, ctx):
    res = Result()
    res.n = 1
    args = [str(a) for a in case["args"]]
    triple = TRIPLES[case["t"] % 3]
    P = parse(args)
    obs = observe(ctx, triple, args, P)
    if obs["timeout"]:
        res.discard.append("inconclusive-timeout")
        return res
    files = [x for x in P.inputs if not x["lib"]]
    tools = {FORWARD_TOOL[s.split("=")[0]] for s in P.seen if s.split("=")[0] in FORWARD_TOOL}
    for s in set(P.seen):
        res.labels.append("opt:" + s)
    if not P.error:
        for x in files:
            res.labels.append("tm:%s/%s" % (x["type"], P.mode))
            if x["name"] == "-":
                res.labels.append("input:stdin")
    res.labels.append("triple:" + triple)
    E0 = expect(P)
    if E0["usage"] != "no":
        res.labels.append("usage-%s:%s" % (E0["usage"], re.sub(r" (of|option|language) .*", r" \1 ..", E0["why"])))
    res.labels.append("result:" + ("refused" if obs["rc"] == 2 and not obs["recs"] else "ran" if obs["recs"] else "nothing-run"))
    if len({x["type"] for x in files}) >= 2 or len(tools) >= 2:
        res.keys.append(sha([triple, args]))
    res.sample = {"triple": triple, "argv": args, "status": obs["rc"],
                  "tools_run": [[os.path.basename(r["argv"][0])] + [TMP_RE.sub("/tmp/cproc-<tmp>", a) for a in r["argv"][1:]]
                                for r in obs["recs"] if r.get("argv")][:12]}
    f = judge(obs, P, triple, args)
    if f is not None and "+" in f["sig"]:
        # several defect models at once: counted under each recorded finding when all of them are
        # recorded, otherwise reported under the first one that is not
        parts = f["sig"].split("+")
        unknown = [p for p in parts if p not in ctx.known]
        if not unknown:
            res.known.extend((p, f["msg"]) for p in parts)
            f = None
        else:
            f["sig"] = unknown[0]
    if f is not None:
        f["msg"] = "cproc %s  [%s]\n  %s\nrecords:\n%s" % (" ".join(args), triple, f["msg"], "\n".join(
            "  %s <%s >%s" % (_strip(obs, " ".join(r.get("argv", []))), _strip(obs, str(r.get("fd0"))), _strip(obs, str(r.get("fd1"))))
            for r in obs["recs"][:30]))
        res.fail = f
    return res


def prepare(ctx):
    prepare_drivers(ctx, TRIPLES)


def sources(ctx):
    return [
        Source("cmdline", check, strategy=lambda c: cmdline_strategy(c, False), examples={"quick": 4000, "thorough": 150000}),
        Source("undocumented", check, strategy=weak_strategy, examples={"quick": 640, "thorough": 20000}),
        Source("pairs", check, enum=pairs_enum),
    ]


def extra_coverage(ctx, agg):
    table = {}
    missing = []
    for t in FORMATS + ["other"]:
        for m in MODE_LAST:
            n = agg.labels.get("tm:%s/%s" % (t, m), 0)
            table["%s/%s" % (t, m)] = n
            if not n:
                missing.append("%s/%s" % (t, m))
    return {"type_mode_table": table, "type_mode_table_full": not missing, "type_mode_missing": missing}
