"""C20 — output is a pure function of the input text and the target option (DESIGN 3/C20)."""
import glob
import os
import re
import shutil
import tempfile

from hypothesis import strategies as st

from .. import build, cproc
from ..runner import Result, Source, run, sha

ID = "C20"
LEVEL = "exploration"
RULE = ("inputs: corpus files, cproc's own sources (preprocessed), token-mutated corpus files (mostly invalid programs) and "
        "generated declaration-order units; for each (input, target, -E) a baseline run and Hypothesis-drawn perturbed runs over "
        "{LC_ALL/LANG, TZ, MALLOC_PERTURB_, MALLOC_ARENA_MAX, environment size, ASLR off (setarch -R), cwd, stdin/abs path/rel path, "
        "stdout/-o/-o in other dir, stack limit, plain/hook/asan binary}; oracle: identical output bytes and exit status, stderr "
        "identical after normalising the input's own name; MemorySanitizer build must report no use of uninitialised memory; "
        "definitions are emitted in source order (tentative definitions last, in first-declaration order). "
        "non-trivial = >=3 perturbation dimensions differ from the baseline and output or diagnostic is non-empty; "
        "distinct by (input hash, perturbation tuple).")
ASSUMPTIONS = [
    "a dependence on uninitialised memory shows up under MALLOC_PERTURB_ or clang MemorySanitizer",
    "only the locales installed in the sandbox (C, C.utf8, POSIX) can be exercised; others fall back to C",
    "inputs on which the compiler crashes are C19's subject and are skipped here (counted)",
]

LOCALES = [None, "C", "POSIX", "C.UTF-8", "C.utf8", "de_DE.UTF-8", "tr_TR.UTF-8", "xx_garbage"]


def prepare(ctx):
    cproc.prepare(ctx, ["plain", "hook", "asan", "msan"])
    files = sorted(glob.glob(os.path.join(build.REPO, "test", "*.c")))
    ctx.data["corpus"] = files
    # cproc's own sources, preprocessed with the flags of config.h
    own = []
    d = os.path.join(ctx.tmp, "own")
    os.makedirs(d, exist_ok=True)
    for f in sorted(glob.glob(os.path.join(build.REPO, "*.c"))):
        if os.path.basename(f) == "driver.c":
            continue
        o = os.path.join(d, os.path.basename(f)[:-2] + ".i")
        p = run(["cpp", "-P", "-U", "__GNUC__", "-U", "__GNUC_MINOR__", "-D", "__STDC_NO_ATOMICS__", "-D", "__STDC_NO_COMPLEX__",
                 "-U", "__SIZEOF_INT128__", "-U", "__PIC__", "-D", "__extension__=", "-o", o, f], timeout=60)
        if p.rc == 0:
            own.append(o)
    ctx.data["own"] = own


def _norm(err, names):
    for n in names:
        if n:
            err = err.replace(n.encode(), b"<in>")
    return err.replace(b"<stdin>", b"<in>")


def perturb_strategy(ctx):
    pert = st.fixed_dictionaries({
        "lc_all": st.sampled_from(LOCALES),
        "lang": st.sampled_from(LOCALES),
        "lc_numeric": st.sampled_from(LOCALES),
        "tz": st.sampled_from([None, "UTC", "Asia/Tokyo", ":/nonexistent"]),
        "perturb": st.sampled_from([None, 0, 1, 85, 170, 255]),
        "arena": st.sampled_from([None, 1, 8]),
        # without the per-thread cache freed chunks go through the bins, where MALLOC_PERTURB_ does overwrite them
        "tcache0": st.sampled_from([False, False, True]),
        "toppad": st.sampled_from([None, 0, 1 << 20]),
        "envsize": st.sampled_from([0, 0, 100, 4096, 65536]),
        "aslr_off": st.booleans(),
        "cwd": st.sampled_from(["same", "other", "root"]),
        "inmode": st.sampled_from(["stdin", "abs", "rel"]),
        "outmode": st.sampled_from(["stdout", "o", "o-otherdir"]),
        "stack_mb": st.sampled_from([None, 1, 64]),
        "binary": st.sampled_from(["plain", "plain", "hook", "asan"]),
    })
    from .c19 import mutate_strategy
    n_own = len(ctx.data["own"])
    n_files = len(ctx.data["corpus"])
    inp = st.one_of(
        st.fixed_dictionaries({"kind": st.just("corpus"), "fi": st.integers(0, n_files - 1)}),
        st.fixed_dictionaries({"kind": st.just("mutant"), "m": mutate_strategy_lite(n_files)}),
        st.fixed_dictionaries({"kind": st.just("own"), "fi": st.integers(0, max(n_own - 1, 0))}),
        st.fixed_dictionaries({"kind": st.just("order"), "decls": order_strategy()}),
        # static objects with generated initialisers (C07's generator): string patching, designators, unknown-size arrays
        st.fixed_dictionaries({"kind": st.just("inits"), "case": _init_cases()}),
        st.fixed_dictionaries({"kind": st.just("inits"), "case": _init_cases()}),
        # raw token texts of every class with splices and odd punctuator runs (C13's generator): the lexer's pushback and
        # lookahead paths are where the input channel (pipe, file, path argument) can make a difference
        st.fixed_dictionaries({"kind": st.just("text"), "text": _token_texts(), "wrap": st.sampled_from(["plain", "stringize", "lines"])}),
        st.fixed_dictionaries({"kind": st.just("text"), "text": _token_texts(), "wrap": st.sampled_from(["plain", "stringize", "lines"])}),
        # macro definitions and invocations of every shape (C12's generator): the preprocessor's token arrays are allocated,
        # grown and released while other parts still point into them
        st.fixed_dictionaries({"kind": st.just("macros"), "text": _macro_texts()}),
        st.fixed_dictionaries({"kind": st.just("macros"), "text": _macro_texts()}),
        # whole programs (C01's structured generator): every lowering path, where a compiler-internal address or an
        # uninitialised field can leak into an operand of the output
        st.fixed_dictionaries({"kind": st.just("prog"), "case": _prog_cases()}),
        # C19's hand-written edge units: almost all end in a diagnostic, whose text is part of the output
        st.fixed_dictionaries({"kind": st.just("edge"), "i": st.integers(0, 100000)}),
    )
    return st.fixed_dictionaries({"input": inp, "t": st.integers(0, 2), "E": st.booleans(),
                                  "perts": st.lists(pert, min_size=2, max_size=4)})


def _init_cases():
    from ..gen import initgen
    return initgen.init_cases()


def _token_texts():
    from .c13 import token_texts
    return token_texts()


def _prog_cases():
    from ..gen import proggen
    return proggen.programs()


def _macro_texts():
    from .c12 import token_cases
    return token_cases()


def mutate_strategy_lite(nf):
    mut = st.tuples(st.sampled_from(["del", "dup", "swap", "repl", "ins", "delrange", "trunc"]),
                    st.integers(0, 9999), st.integers(0, 120), st.integers(1, 8))
    return st.fixed_dictionaries({"fi": st.integers(0, nf - 1), "muts": st.lists(mut, min_size=1, max_size=3)})


# ---- declaration-order units -------------------------------------------------------------------

ORDER_KINDS = ["data", "datainit", "func", "tent", "tent-then-def", "static-func", "static-data", "extern-only", "string", "tls"]


def order_strategy():
    return st.lists(st.sampled_from(ORDER_KINDS), min_size=2, max_size=14)


def order_source(kinds):
    """Returns (source text, expected order of emitted definitions)."""
    src = []
    direct = []
    tentative = []
    later = []
    for i, k in enumerate(kinds):
        n = "g%d" % i
        if k == "data" or k == "tent":
            src.append("int %s;" % n)
            tentative.append(n)
        elif k == "datainit":
            src.append("int %s = %d;" % (n, i + 1))
            direct.append(n)
        elif k == "func":
            src.append("int %s(void) { return %d; }" % (n, i))
            direct.append(n)
        elif k == "tent-then-def":
            src.append("int %s;" % n)
            later.append("int %s = %d;" % (n, i + 1))
        elif k == "static-func":
            src.append("static int %s(void) { return %d; }" % (n, i))
            direct.append(n)
        elif k == "static-data":
            src.append("static int %s = %d;" % (n, i))
            direct.append(n)
        elif k == "extern-only":
            src.append("extern int %s;" % n)
        elif k == "string":
            src.append("char *%s = \"s%d\";" % (n, i))
            direct.append(n)
        elif k == "tls":
            src.append("_Thread_local int %s = %d;" % (n, i))
            direct.append(n)
    for l in later:
        src.append(l)
        direct.append(l.split()[1])
    return "\n".join(src) + "\n", direct + tentative


_DEF = re.compile(rb"^(?:export |thread )*(?:data|function(?: \w+| :[\w.]+)?) \$(g\d+)\b", re.M)


def _input_bytes(inp, ctx):
    k = inp["kind"]
    if k == "corpus":
        p = ctx.data["corpus"][inp["fi"] % len(ctx.data["corpus"])]
        return open(p, "rb").read(), os.path.basename(p)
    if k == "own":
        if not ctx.data["own"]:
            return b"int x;\n", "x.c"
        p = ctx.data["own"][inp["fi"] % len(ctx.data["own"])]
        return open(p, "rb").read(), os.path.basename(p)
    if k == "inits":
        from . import c07
        return c07.static_source(inp["case"]).encode(), "inits.c"
    if k == "text":
        t = inp["text"]
        if inp["wrap"] == "stringize":
            body = t.replace("\n", " ").replace("#", " ")
            return ("#define STR(x) #x\nconst char *s = STR(%s);\nint after;\n" % body).encode("utf-8", "surrogateescape"), "text.c"
        if inp["wrap"] == "lines":
            return ("\n".join(t[i:i + 7] for i in range(0, len(t), 7)) + "\n").encode("utf-8", "surrogateescape"), "text.c"
        return (t + "\n").encode("utf-8", "surrogateescape"), "text.c"
    if k == "edge":
        from . import c19
        return (c19.EDGES[inp["i"] % len(c19.EDGES)] + "\n").encode("utf-8", "surrogateescape"), "edge.c"
    if k == "prog":
        return inp["case"]["src"].encode(), "prog.c"
    if k == "macros":
        return inp["text"].encode("utf-8", "surrogateescape"), "macros.c"
    if k == "mutant":
        from .c19 import apply_muts
        p = ctx.data["corpus"][inp["m"]["fi"] % len(ctx.data["corpus"])]
        text = open(p, "rb").read().decode("utf-8", "surrogateescape")
        return apply_muts(text, inp["m"]["muts"]).encode("utf-8", "surrogateescape"), "m.c"
    src, _ = order_source(inp["decls"])
    return src.encode(), "order.c"


def _one_run(ctx, d, data, name, target, E, pt):
    exe = ctx.builds[pt["binary"] if pt else "plain"]
    env = dict(cproc.BASE_ENV)
    env.pop("LC_ALL", None)
    cwd = d
    inmode, outmode = "stdin", "stdout"
    pre = cproc.limits()
    wrapper = []
    if pt:
        for k, v in (("LC_ALL", pt["lc_all"]), ("LANG", pt["lang"]), ("LC_NUMERIC", pt["lc_numeric"]), ("TZ", pt["tz"])):
            if v is not None:
                env[k] = v
        if pt["perturb"] is not None:
            env["MALLOC_PERTURB_"] = str(pt["perturb"])
        if pt.get("tcache0"):
            env["GLIBC_TUNABLES"] = "glibc.malloc.tcache_count=0" + (":glibc.malloc.perturb=%d" % pt["perturb"] if pt["perturb"] is not None else "")
        if pt["arena"] is not None:
            env["MALLOC_ARENA_MAX"] = str(pt["arena"])
        if pt["toppad"] is not None:
            env["MALLOC_TOP_PAD_"] = str(pt["toppad"])
        if pt["envsize"]:
            env["VERIF_PAD"] = "x" * pt["envsize"]
        if pt["aslr_off"]:
            wrapper = ["setarch", "-R"]
        if pt["cwd"] == "other":
            cwd = os.path.join(d, "sub")
            os.makedirs(cwd, exist_ok=True)
        elif pt["cwd"] == "root":
            cwd = "/"
        inmode, outmode = pt["inmode"], pt["outmode"]
        if pt["stack_mb"] and pt["binary"] != "asan":
            pre = cproc.limits(stack_mb=pt["stack_mb"])
    args = ["-t", target] + (["-E"] if E else [])
    path = os.path.join(d, name)
    names = [path, name]
    outpath = None
    if outmode != "stdout":
        od = d if outmode == "o" else os.path.join(d, "outdir")
        os.makedirs(od, exist_ok=True)
        outpath = os.path.join(od, "out.txt")
        if os.path.exists(outpath):
            os.unlink(outpath)
        args += ["-o", outpath]
    if inmode == "stdin":
        p = run(wrapper + [exe] + args, input=data, env=env, cwd=cwd, preexec=pre, timeout=60)
    else:
        if inmode == "rel":
            cwd = d
            arg = name
        else:
            arg = path
        names.append(arg)
        p = run(wrapper + [exe] + args + [arg], env=env, cwd=cwd, preexec=pre, timeout=60)
    out = p.out
    if outpath is not None:
        try:
            out = open(outpath, "rb").read()
        except OSError:
            out = b"<no output file>"
    return p, out, _norm(p.err, names)


def perturb_check(case, ctx):
    res = Result()
    d = tempfile.mkdtemp(dir=ctx.wdir())
    try:
        data, name = _input_bytes(case["input"], ctx)
        with open(os.path.join(d, name), "wb") as f:
            f.write(data)
        target = cproc.TARGETS[case["t"]]
        E = case["E"]
        base, bout, berr = _one_run(ctx, d, data, name, target, E, None)
        res.n = 1
        if cproc.classify(base) is not None:
            res.discard.append("baseline-crash-or-timeout (C19)")
            return res
        # ordering clause
        if case["input"]["kind"] == "order" and not E:
            _, want = order_source(case["input"]["decls"])
            got = [m.decode() for m in _DEF.findall(bout)]
            res.labels.append("order-unit")
            if base.rc != 0 or got != want:
                res.fail = dict(sig="", msg="emission order differs from source order: want %s got %s (rc %s)\n%s"
                                % (want, got, base.rc, order_source(case["input"]["decls"])[0]))
                return res
        for pt in case["perts"]:
            p, out, err = _one_run(ctx, d, data, name, target, E, pt)
            res.n += 1
            c = cproc.classify(p)
            if c is not None:
                res.discard.append("perturbed-run-crash (C19): " + c[0])
                continue
            ndiff = sum(1 for k, v in pt.items() if v not in (None, 0, False, "same", "stdin", "stdout", "plain"))
            if ndiff >= 3 and (bout or berr):
                res.keys.append(sha([sha(data), target, E, sorted(pt.items(), key=str)]))
            res.labels.append("bin:" + pt["binary"])
            res.labels.append("in:%s/out:%s" % (pt["inmode"], pt["outmode"]))
            if p.rc != base.rc or out != bout or err != berr:
                what = "exit status" if p.rc != base.rc else "output bytes" if out != bout else "diagnostics"
                res.fail = dict(sig="", msg="%s differ between baseline and perturbed run\ninput kind %s target %s E=%s\nperturbation %s\n"
                                "baseline rc=%s out=%d bytes err=%r\nperturbed rc=%s out=%d bytes err=%r"
                                % (what, case["input"]["kind"], target, E, pt, base.rc, len(bout), berr[:300], p.rc, len(out), err[:300]),
                                input=data[:4000].decode("latin-1"))
                return res
        res.sample = {"input": case["input"], "target": target, "E": E, "perturbations": case["perts"][:1]}
        return res
    finally:
        shutil.rmtree(d, ignore_errors=True)


# ---- MemorySanitizer ---------------------------------------------------------------------------

def msan_enum(ctx):
    files = ctx.data["corpus"] + ctx.data["own"]
    for i, f in enumerate(files):
        yield {"path": f if not f.startswith(build.REPO) else os.path.relpath(f, build.REPO), "own": not f.startswith(build.REPO)}
    # C19's hand-written edge units and placement units: mostly rejected inputs, the paths where a field is read before it is set
    from . import c19
    for i in range(len(c19.EDGES)):
        yield {"edge": i}
    k = 0
    for pc in c19.place_enum(ctx):
        k += 1
        if ctx.tier == "thorough" or (k + ctx.seed) % 4 == 0:
            yield {"place": pc}
    n = 60 if ctx.tier == "quick" else 3000
    import random
    rnd = random.Random(ctx.seed)
    nf = len(ctx.data["corpus"])
    for i in range(n):
        muts = [[rnd.choice(["del", "dup", "swap", "repl", "ins", "delrange", "trunc"]), rnd.randrange(10000), rnd.randrange(121), rnd.randrange(1, 9)]
                for _ in range(rnd.randrange(1, 4))]
        yield {"mut": {"fi": rnd.randrange(nf), "muts": muts}, "t": rnd.randrange(3), "E": rnd.random() < 0.3}


def msan_check(case, ctx):
    res = Result()
    res.n = 1
    from .c19 import _args_for, apply_muts
    if "text" in case:
        data, target, extra = case["text"].encode("utf-8", "surrogateescape"), "x86_64-sysv", []
    elif "edge" in case or "place" in case:
        from . import c19
        data = (c19.EDGES[case["edge"]] + "\n" if "edge" in case else c19.place_source(case["place"])).encode("utf-8", "surrogateescape")
        target, extra = "x86_64-sysv", []
    elif "mut" in case:
        p0 = ctx.data["corpus"][case["mut"]["fi"] % len(ctx.data["corpus"])]
        data = apply_muts(open(p0, "rb").read().decode("utf-8", "surrogateescape"), case["mut"]["muts"]).encode("utf-8", "surrogateescape")
        target, extra = cproc.TARGETS[case["t"]], (["-E"] if case["E"] else [])
    else:
        path = case["path"]
        if case.get("own"):
            full = os.path.join(ctx.tmp, "own", os.path.basename(path))
            target, extra = "x86_64-sysv", []
        else:
            full = os.path.join(build.REPO, path)
            target = _args_for(path)
            extra = ["-E"] if os.path.exists(full[:-2] + ".pp") else []
        data = open(full, "rb").read()
    env = {"MSAN_OPTIONS": "exit_code=97:halt_on_error=1", "MSAN_SYMBOLIZER_PATH": "/usr/bin/llvm-symbolizer-14"}
    p = cproc.cc(ctx, data, target, "msan", extra, env=env, timeout=120)
    res.labels.append("msan")
    res.keys.append(sha(data))
    res.sample = {"msan": case}
    if b"MemorySanitizer" in p.err:
        m = re.search(rb"#0 0x[0-9a-f]+ in (\w+) [^\n]*?(\w+\.c):(\d+)", p.err)
        where = (m.group(1) + b"@" + m.group(2)).decode() if m else "?"
        sig = "msan:" + where
        # recorded (same root as C19's two `ubsan:` findings): arrays of length 0 and `[*]` in a block are taken for VLAs whose size
        # value was never computed.  Only for inputs that contain such an array, and only in the functions that read that value.
        if where.split("@")[0] in ("calcvla", "emitclass", "emitvalue", "emitfunc", "emitinst", "funcalloc") and re.search(rb"\[\s*(0|\*|!\d+)\s*\]", data):
            sig = "msan:zero-length-array-as-vla"
        res.fail = dict(sig=sig, msg="MemorySanitizer: use of uninitialised value in %s\n%s" % (where, p.err[:1500].decode(errors="replace")),
                        input=data[:3000].decode("latin-1"))
    return res


def sources(ctx):
    return [
        Source("msan", msan_check, enum=msan_enum),
        Source("perturb", perturb_check, strategy=perturb_strategy, examples={"quick": 6000, "thorough": 60000}),
    ]
