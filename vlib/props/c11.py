"""C11 — diagnostics name the file and line of the offending construct (DESIGN 3/C11)."""
import os
import re
import shutil
import tempfile

from hypothesis import strategies as st

from .. import cproc
from ..runner import Result, Source, run, sha

ID = "C11"
LEVEL = "exploration"
RULE = ("Hypothesis: a valid filler program decorated with random `# n \"file\" flags` markers, `#line n` / `#line n \"file\"`, blank lines (also directly after "
        "markers), backslash-newline splices inside and between tokens, block comments spanning 1-5 lines and multi-line macro invocations; exactly one "
        "violation from a curated catalogue (constructs whose diagnostic is raised at a token of the construct: undeclared identifier, failed static "
        "assertion, invalid suffix, unexpected token, multi-character constant, incomplete type, break/case outside their statement, negative array "
        "length, duplicate case, duplicate member ...) placed on physical line(s) of its own, optionally split by a splice. Observation: first line of stderr. "
        "Oracle: a presumed-location tracker written from C11 6.10.4 (physical line counting incl. splices and comment lines; marker and #line rules): same "
        "file, line within the presumed lines the construct occupies, format `file:line:col: error:`; gcc's location for the same text must fall in the same "
        "set, else the case is discarded. non-trivial = presumed line differs from the physical line, or a splice/multi-line comment/multi-line invocation "
        "precedes the violation; distinct by decorated text hash.")
ASSUMPTIONS = ["file names are drawn from [A-Za-z0-9_./-] (escape processing in #line strings is a documented XXX)", "only the line and file are asserted; col must be a number"]


def prepare(ctx):
    cproc.prepare(ctx, ["plain"])


# (text, scope) — scope 'file' or 'block'; every construct is a complete line; the error is reported at one of its tokens
VIOLATIONS = [
    ("int e%d = undeclared_q;", "file"), ("_Static_assert(0, \"boom\");", "file"), ("_Static_assert(1 == 2);", "file"), ("int e%d = 1q;", "file"),
    ("int e%d e2;", "file"), ("int e%d = (1;", "file"), ("int e%d[-1];", "file"),
    ("int e%d = 0x;", "file"), ("int e%d = 1.0qq;", "file"), ("unsigned float e%d;", "file"), ("int e%d = sizeof(struct inc_f);", "file"), ("typedef int t%d, t%d = 1;"[:0] or "int e%d = 1 +;", "file"),
    ("struct s%d { int a; int a2 +; };", "file"), ("enum { E%d = 1.5 };", "file"), ("int e%d = \"x\" * 2;", "file"), ("int e%d = 08;"[:0] or "int e%d = 1 ? 2;", "file"),
    ("undeclared_q = 1;", "block"), ("break;", "block"), ("continue;", "block"), ("case 1: ;", "block"), ("default: ;", "block"), ("int z%d = undeclared_q + 1;", "block"),
    ("return undeclared_q;", "block"), ("_Static_assert(0, \"in block\");", "block"), ("1 = 2;"[:0] or "int z%d z2;", "block"), ("goto ;", "block"),
    ("switch (1) { case 1: case 1: ; }", "block"), ("int z%d = *1;", "block"), ("struct nosuch_b z%d;", "block"), ("if (1 {}", "block"), ("z_undecl(1)(;", "block"),
    # found only when the statement is lowered (qbe.c), after it has been parsed: stores to const objects declared by the host function
    ("l_cq = 2;", "block"), ("l_cq += l_acc;", "block"), ("l_cs.m = 3;", "block"), ("l_acc = (l_cq = 5);", "block"), ("l_ca[1] = 0;", "block"), ("*l_pc = 1;", "block"), ("l_cs = l_cs;", "block"),
    # violations inside type names (abstract declarators: no identifier whose location could be taken)
    ("int z%d = sizeof(long [-1]);", "block"), ("int e%d = sizeof(long [-1]);", "file"), ("int z%d = _Alignof(int [-2]);", "block"), ("(void)sizeof(struct inc_t [4]);", "block"),
    ("(void)(int (*)(void)[2])0;", "block"), ("int e%d = sizeof(int (*)(void)(void));", "file"), ("(void)sizeof(void [2]);", "block"), ("(void)_Generic(0, int (void)[1]: 1, default: 2);", "block"),
    # diagnostics raised at the end of the line or of the function
    ("char *e%d = \"abc", "file"), ("int e%d = 'a", "file"), ("char *z%d = \"abc;", "block"), ("goto nolab%d;", "block"), ("if (l_acc) goto nolab%d; else l_acc++;", "block"),
    ("@macro-redef", "file"), ("@macro-redef", "block"), ("#define ZBAD%d(x", "file"),
    ("int z%d = sizeof(int[);", "block"), ("void zv%d;", "block"), ("@macro-arity", "file"), ("@macro-arity", "block"), ("@macro-arity", "block"), ("int z%d = 1 +* ;"[:0] or "(void)undeclared_q;", "block"),
]

FILLER_FILE = ["int f%d = %d;", "static long g%d = %d;", "int h%d(void) { return %d; }", "struct sf%d { int a; char b; };", "typedef int tf%d; tf%d tv%d;"[:0] or "enum { EF%d = %d };",
               "extern int x%d;", "char s%d[] = \"str%d\";"]
FILLER_BLOCK = ["int l%d = %d;", "l_acc += %d + %d;", "if (l_acc > %d) l_acc -= %d;", "{ int n%d = %d; l_acc += n%d; }"[:0] or "while (l_acc > 100000 + %d) l_acc -= %d;", ";"]
# names with prefix relations among each other and with the presumed name of the input itself ("<stdin>")
NAMES = ["a.c", "dir/b.c", "x_y-z.h", "/abs/p.c", "f1.i", "../up.c", "n.0", "a", "a.c.in", "dir/b", "dir", "<stdin", "<stdin>x", "<", "f1.i", "f1", "x_y-z.h.h",
         # characters that are special to printf, and names longer than any fixed buffer
         "my%20file.c", "50%done.c", "%s%s%n.c", "100%", "%", "a%lu%zu.h", "L" + "o" * 600 + "ng.c", "d" * 300 + "/" + "e" * 300 + ".h"]

# token spellings after which scankind() has read (or must read) ahead before it can decide
LINE_ENDS = ["..", ".", "...", " ..", "x..", "1..", "-", "+", "&", "|", "<", ">", "<<", ">>", "=", "!", "*", "/", "%", "^", "->", "- -", "L", "u", "u8", "U", "1e+", "1.", "0x",
             "'a'", "\"s\"", "L'a'", "u8\"s\"", "a", "1", "<:", "%:", ". .", "....", "..+", "/ /", "/ *", "* /"]

@st.composite
def decorated(draw):
    """-> dict(text, vio_lines (physical, 1-based), labels)"""
    lines = []      # physical lines
    labels = set()
    k = [0]

    def uid():
        k[0] += 1
        return k[0]

    def filler(block):
        t = draw(st.sampled_from(FILLER_BLOCK if block else FILLER_FILE))
        n = t.count("%d")
        a = uid()
        return t % tuple([a] + [draw(st.integers(0, 99)) for _ in range(n - 1)]) if n else t

    def splice_run(block):
        # physical lines that consist of a backslash only: they are spliced to the following line, which starts
        # with further splices or with ordinary text (never a directive), and each still counts as a line
        for _ in range(draw(st.integers(1, 3))):
            lines.append("\\")
        lines.append(filler(block))
        labels.add("splice-run-after-directive")

    def decorate(block):
        d = draw(st.integers(0, 13))
        if d == 13:
            # a line whose last token leaves the scanner in a lookahead state when it meets the newline (an unused macro's
            # replacement list or a #pragma, so any token sequence is valid there)
            end = draw(st.sampled_from(LINE_ENDS))
            lines.append(draw(st.sampled_from(["#define ZEND%d to be continued%s", "#pragma zend%d x %s", "#define ZEND%d(a) a %s", "#define ZEND%d %s"])) % (uid(), end))
            if draw(st.integers(0, 3)) == 0:
                lines[-1] += "\\"
                lines.append("")
            labels.add("lookahead-at-line-end")
            return
        if d == 12:
            for _ in range(draw(st.integers(1, 3))):
                lines.append("\\")
            lines.append(filler(block))
            labels.add("splice-run")
            return
        if d == 0:
            lines.append("# %d \"%s\"%s" % (draw(st.integers(1, 5000)), draw(st.sampled_from(NAMES)), draw(st.sampled_from(["", "", "", " 3", " 3 4", " 3", " 1", " 2", " 1 3"]))))
            labels.add("marker")
            if draw(st.integers(0, 3)) == 0:
                splice_run(block)
            elif draw(st.booleans()):
                lines.append("")
                labels.add("marker-followed-by-blank-line")
        elif d == 1:
            lines.append("#line %d" % draw(st.integers(1, 99999)))
            labels.add("line-directive")
            if draw(st.integers(0, 3)) == 0:
                splice_run(block)
            elif draw(st.integers(0, 2)) == 0:
                lines.append("")
                labels.add("marker-followed-by-blank-line")
        elif d == 2:
            lines.append("#line %d \"%s\"" % (draw(st.integers(1, 99999)), draw(st.sampled_from(NAMES))))
            labels.add("line-directive-file")
            if draw(st.integers(0, 3)) == 0:
                splice_run(block)
        elif d == 3:
            for _ in range(draw(st.integers(1, 3))):
                lines.append("")
        elif d == 4:
            n = draw(st.integers(1, 5))
            lines.append(draw(st.sampled_from(["/* comment", "/*", "/**", "/*\\", "/* *", "int cm%d; /*" % uid() if not block else "l_acc++; /*"])))
            for _ in range(n - 1):
                lines.append("   more " + draw(st.sampled_from(["text", "# 1 \"not.c\"", "#line 7", "\\"])))
            lines.append("*/ " + filler(block))
            labels.add("comment-lines")
        elif d == 5:
            # splice inside a token and between tokens of a valid line
            f = filler(block)
            i = draw(st.integers(1, max(1, len(f) - 1)))
            lines.append(f[:i] + "\\")
            lines.append(f[i:])
            labels.add("splice")
        elif d == 6:
            lines.append("#define MM%d(a, b) a" % uid())
            m = k[0]
            if block:
                lines.append("l_acc += MM%d(1," % m)
                lines.append("  2")
                lines.append(");")
            else:
                lines.append("int mv%d = MM%d(1," % (m, m))
                lines.append("  (2, 3)")
                lines.append(");")
            labels.add("multi-line-invocation")
        elif d == 7:
            lines.append("// line comment \\")
            lines.append("   continued comment")
            labels.add("spliced-line-comment")
        else:
            lines.append(filler(block))

    vio, scope = draw(st.sampled_from(VIOLATIONS))
    n = vio.count("%d")
    vio = vio % tuple(uid() for _ in range(n)) if n else vio
    macro_def_lines = []
    if vio == "@macro-redef":
        k1 = uid()
        lines.append("#define ZRD%d 1" % k1)
        vio = "#define ZRD%d 2" % k1
        labels.add("macro-redefinition")
    if vio == "@macro-arity":
        # a function-like macro invoked with the wrong number of arguments inside another macro's replacement list (written
        # over one or more spliced lines, possibly in a region a line marker attributes to another file) and expanded later:
        # the diagnostic belongs to the definition's line(s) or to the line of the use
        k1 = uid()
        lines.append("#define ZARI%d(x, y) x" % k1)
        form = draw(st.integers(0, 2))
        first_def = len(lines) + 1
        if form == 0:
            lines.append("#define ZWRAP%d 1 + ZARI%d(%s)" % (k1, k1, draw(st.sampled_from(["1", "1, 2, 3", ""]))))
        elif form == 1:
            lines.append("#define ZWRAP%d 1 + \\" % k1)
            lines.append("  ZARI%d(1, 2, 3)" % k1)
        else:
            lines.append("#define ZWRAP%d \\" % k1)
            lines.append("  (2 * \\")
            lines.append("  ZARI%d(4))" % k1)
        # the line that holds the offending invocation (the last line of the definition)
        macro_def_lines = [len(lines)]
        vio = ("int zu%d = ZWRAP%d;" if scope == "file" else "l_acc += ZWRAP%d;") % ((uid(), k1) if scope == "file" else (k1,))
        labels.add("macro-arity-in-body")
    for _ in range(draw(st.integers(0, 8))):
        decorate(False)
    if scope == "block":
        lines.append("int fn_host(void) {")
        lines.append("int l_acc = 0; const int l_cq = 1; const struct { int m; } l_cs = { 1 }; const int l_ca[2] = { 0 }; const int *l_pc = &l_cq;")
        for _ in range(draw(st.integers(0, 6))):
            decorate(True)
    # the violation, optionally split by a splice (then it occupies two physical lines)
    first = len(lines) + 1
    if draw(st.integers(0, 3)) == 0 and len(vio) > 3:
        i = draw(st.integers(1, len(vio) - 1))
        lines.append(vio[:i] + "\\")
        lines.append(vio[i:])
        labels.add("splice-in-violation")
    else:
        lines.append(vio)
    vio_lines = list(range(first, len(lines) + 1)) + macro_def_lines
    if scope == "block":
        lines.append("return l_acc; }")
    lines.append("int tail_decl;")
    return {"text": "\n".join(lines) + "\n", "vio_lines": vio_lines, "labels": sorted(labels), "vio": vio}


_MARK = re.compile(r'^#\s*(?:line\s+)?(\d+)(?:\s+"([^"]*)")?')


def presumed(text, base_file):
    """List (index = physical line - 1) of (file, line) per C11 6.10.4 / gcc line markers.  Directives inside comments
    are not directives."""
    out = []
    file_, line = base_file, 1
    in_comment = False
    cont = False     # previous physical line ended with a backslash (this line continues it)
    for ln in text.split("\n")[:-1]:
        out.append((file_, line))
        is_dir = False
        if not in_comment and not cont:
            m = _MARK.match(ln)
            if m:
                is_dir = True
                nl, nf = int(m.group(1)), m.group(2)
        # comment state (good enough for the generator's own texts: no quotes containing comment openers)
        s = ln
        i = 0
        line_comment = False
        while i < len(s):
            if in_comment:
                j = s.find("*/", i)
                if j < 0:
                    break
                in_comment = False
                i = j + 2
            else:
                a = s.find("/*", i)
                b = s.find("//", i)
                if b >= 0 and (a < 0 or b < a):
                    line_comment = True
                    break
                if a < 0:
                    break
                in_comment = True
                i = a + 2
        cont = ln.endswith("\\")
        if is_dir:
            line = nl
            if nf is not None:
                file_ = nf
        else:
            line += 1
    return out


def check_text(case, ctx):
    res = Result()
    res.n = 1
    text = case["text"]
    d = tempfile.mkdtemp(dir=ctx.wdir())
    try:
        path = os.path.join(d, "in.c")
        with open(path, "w") as f:
            f.write(text)
        pres = presumed(text, path)
        want = {pres[i - 1] for i in case["vio_lines"]}
        g = run(["gcc", "-fsyntax-only", "-std=c11", "-w", path], env={"PATH": "/usr/bin:/bin", "LC_ALL": "C"}, timeout=30)
        gm = re.search(r"^(?:In file included[^\n]*\n)*([^\n:]+):(\d+):\d+: error:", g.err.decode(errors="replace"), re.M)
        p = cproc.cc(ctx, None, "x86_64-sysv", "plain", path=path)
        # several input files on the command line form one translation unit, and each starts at its own line 1: an earlier
        # input of k lines (ending in a new-line, 5.1.1.2p2) must not move the locations reported for this one
        p2 = None
        hk = int(sha(text)[:6], 16)
        if hk % 3 == 0:
            pre = os.path.join(d, "pre.c")
            k = [1, 2, 7, 40][(hk // 3) % 4]
            with open(pre, "w") as f:
                f.write("".join(["extern int pre_decl_%d;\n" % i if i % 2 == 0 else "/* pre */\n" for i in range(k)]) + ("" if hk % 5 else "typedef int pre_t;\n"))
            p2 = cproc.cc(ctx, None, "x86_64-sysv", "plain", args=[pre], path=path)
    finally:
        shutil.rmtree(d, ignore_errors=True)
    res.sample = {"vio": case["vio"], "labels": case["labels"], "tail": text[-200:]}
    res.labels.extend(case["labels"])
    # A benign-looking macro redefinition is only a warning for gcc: for that kind the line tracker alone is the oracle (it is
    # the same tracker, over the same decorations, that gcc confirms for every other kind of violation in this run).
    tracker_only = "macro-redefinition" in case["labels"] and g.rc == 0
    if (g.rc == 0 or not gm) and not tracker_only:
        res.discard.append("gcc-accepts-or-no-location")
        return res
    gloc = (gm.group(1), int(gm.group(2))) if gm else ("?", 0)
    if gloc not in want and not tracker_only:
        res.discard.append("tracker-and-gcc-disagree")
        res.labels.append("TRACKER-GCC-MISMATCH")
        res.labels.append("mismatch-vio:" + case["vio"][:30])
        if os.environ.get("VERIF_DUMP_DISCARDS"):
            dd = os.environ["VERIF_DUMP_DISCARDS"]
            os.makedirs(dd, exist_ok=True)
            with open(os.path.join(dd, "mismatch-%s.c" % sha(text)), "w") as f:
                f.write("/* want %s gcc %s\n%s */\n%s" % (sorted(want), gloc, g.err.decode(errors="replace")[:400], text))
        return res
    if p.rc == 0:
        res.discard.append("cproc-accepts (C10's subject)")
        return res
    first = p.err.decode(errors="replace").split("\n")[0]
    m = re.match(r"^(.*?):(\d+):(\d+): error: (.*)$", first)
    if not m:
        res.fail = dict(sig="format", msg="diagnostic does not have the form file:line:col: error: ...: %r" % first, input=text)
        return res
    loc = (m.group(1), int(m.group(2)))
    if loc not in want:
        res.fail = dict(sig="", msg="diagnostic %r names %s:%d; the offending construct %r is at presumed %s (gcc: %s:%d)"
                        % (m.group(4), loc[0], loc[1], case["vio"], sorted(want), gloc[0], gloc[1]), input=text)
        return res
    if p2 is not None:
        first2 = p2.err.decode(errors="replace").split("\n")[0]
        m2 = re.match(r"^(.*?):(\d+):(\d+): error: (.*)$", first2)
        if p2.rc == 0 or not m2 or (m2.group(1), int(m2.group(2))) not in want:
            res.fail = dict(sig="", msg="as the second input file on the command line (after a file of some lines) the diagnostic becomes %r; the offending "
                            "construct %r is at presumed %s" % (first2, case["vio"], sorted(want)), input=text)
            return res
        res.labels.append("second-input-file")
    phys = case["vio_lines"][0]
    if pres[phys - 1][1] != phys or pres[phys - 1][0] != path or set(case["labels"]) & {"splice", "comment-lines", "multi-line-invocation", "splice-in-violation"}:
        res.keys.append(sha(text))
    return res


def input_check(case, ctx):
    res = check_text(case, ctx)
    if res.fail is not None and case.get("sig"):
        res.fail["sig"] = case["sig"]
    res.keys.append(sha(case["text"]))
    return res


def sources(ctx):
    return [Source("input", input_check, enum=lambda ctx: iter(())), Source("decorated", check_text, strategy=lambda c: decorated(), examples={"quick": 6000, "thorough": 200000})]
