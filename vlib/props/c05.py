"""C05 — every expression is given the type C11 assigns it (DESIGN 3/C05)."""
import itertools
import re
import os
import shutil
import struct
import tempfile

from hypothesis import strategies as st

from .. import cmodel as cm, cproc, ilcheck, qbeil, refcc
from ..gen import exprgen
from ..runner import Result, Source, sha
from .c04 import literal_type

ID = "C05"
LEVEL = "exploration"
RULE = ("ENUM (exhaustive, x 3 targets): all (operator, left type, right type) triples over {_Bool, char x3, short..unsigned long long, float, double, "
        "long double, three enum types, bit-fields of widths {1,7,8,15,16,31,32,33,63,64} on _Bool/int/unsigned/long/unsigned long} for binary arithmetic, "
        "bitwise, shift, comparison, logical, conditional and compound-assignment operators and unary + - ~ ! sizeof _Alignof; all integer literal "
        "spellings (base x suffix x magnitude classes around 2^15..2^64), floating and character literals; a table of pointer/qualifier/decay/member/call "
        "expressions observed through _Generic on pointer types. HYP: nested arithmetic expressions (depth <= 5) and random pairs of derived types "
        "(pointer/array/function/qualified/struct) for __builtin_types_compatible_p. Observation: int k = _Generic((E), T1: 1, ...) emitted as data. Oracle: vlib/cmodel.py typing "
        "rules; clang --target (and gcc) arbitrate a mismatch; for compatibility judgements gcc and clang must agree. non-trivial = selected association "
        "is not the default and operand types differ from the result or from each other; distinct by (operator, operand types, target).")
ASSUMPTIONS = ["cmodel.py implements C11 6.3.1.1/6.3.1.8/6.4.4/6.5; where gcc and clang split (bit-fields wider than int) the model alone decides",
               "_Generic is applied after lvalue conversion in all three implementations"]

GENERIC_TYPES = ["_Bool", "char", "signed char", "unsigned char", "short", "unsigned short", "int", "unsigned int", "long", "unsigned long",
                 "long long", "unsigned long long", "float", "double", "long double"]
GLIST = ", ".join("%s: %d" % (t, i + 1) for i, t in enumerate(GENERIC_TYPES)) + ", default: 0"
LDOUBLE = cm.FloatT("long double", 128)

BINOPS = ["+", "-", "*", "/", "%", "&", "|", "^", "<<", ">>", "<", ">", "<=", ">=", "==", "!=", "&&", "||", "?:", "+=", "<<=", "&="]
UNOPS = ["+", "-", "~", "!", "sizeof", "_Alignof"]
BFW = [1, 7, 8, 15, 16, 31, 32, 33, 63, 64]


def prepare(ctx):
    cproc.prepare(ctx, ["plain"])


def operand_set(cs):
    """[(declaration text, expression text, model type, bit-field width or None)]"""
    ops = []
    for t in cm.int_types(cs) + [cm.FLOAT, cm.DOUBLE, LDOUBLE]:
        n = "o_" + t.name.replace(" ", "_")
        ops.append(("extern %s %s;" % (t.name, n), n, t, None))
    # enums: underlying unsigned int (no negative value), int (negative value), long (wide value)
    ops.append(("enum eu { EU0, EU1 = 7 }; extern enum eu o_eu;", "o_eu", cm.UINT, None))
    ops.append(("enum es { ES0 = -1, ES1 = 7 }; extern enum es o_es;", "o_es", cm.INT, None))
    ops.append(("enum el { EL0 = -1, EL1 = 0x100000000 }; extern enum el o_el;", "o_el", cm.LONG, None))
    ops.append(("", "EU1", cm.INT, None))     # enumeration constants have type int
    for base in (cm.BOOL, cm.INT, cm.UINT, cm.LONG, cm.ULONG):
        for w in BFW:
            if w > base.bits or (base.is_bool and w > 1):
                continue
            n = "b_%s_%d" % (base.name.replace(" ", "_"), w)
            ops.append(("extern struct { %s m:%d; } %s;" % (base.name, w, n), n + ".m", base, w))
    return ops


def model_binop(op, ta, bfa, tb, bfb):
    """Result type of `a op b`, or None if the operation is a constraint violation."""
    fa, fb = ta.kind == "float", tb.kind == "float"
    if op in ("%", "&", "|", "^", "<<", ">>", "<<=", "&=") and (fa or fb):
        return None
    if op in ("&&", "||", "<", ">", "<=", ">=", "==", "!="):
        return cm.INT
    if op in ("+=", "<<=", "&="):
        return "lhs"
    pa = cm.promote(ta, bfa) if not fa else ta
    pb = cm.promote(tb, bfb) if not fb else tb
    if op in ("<<", ">>"):
        return pa
    if LDOUBLE in (ta, tb):
        return LDOUBLE
    return cm.common(pa, pb)


def tindex(t):
    name = {"unsigned int": "unsigned int"}.get(t.name, t.name)
    if t.name == "char":
        return 2
    return GENERIC_TYPES.index(name) + 1


def triples_enum(ctx):
    for ti in range(3):
        cs = cproc.SIGNED_CHAR[cproc.TARGETS[ti]]
        ops = operand_set(cs)
        items = []
        for op in BINOPS:
            for a in ops:
                for b in ops:
                    if op in ("+=", "<<=", "&=") and (a[1] == "EU1"):
                        continue
                    items.append((op, a, b))
        for op in UNOPS:
            for a in ops:
                items.append((op, a, None))
        if ctx.tier == "quick" and ti > 0:
            # 10 % sample on the other targets (the rules differ only in char signedness)
            items = [x for k, x in enumerate(items) if k % 10 == ctx.seed % 10]
        for k in range(0, len(items), 400):
            yield {"t": ti, "k": k, "n": min(400, len(items) - k)}


def triples_batch(case):
    cs = cproc.SIGNED_CHAR[cproc.TARGETS[case["t"]]]
    ops = operand_set(cs)
    items = []
    for op in BINOPS:
        for a in ops:
            for b in ops:
                if op in ("+=", "<<=", "&=") and (a[1] == "EU1"):
                    continue
                items.append((op, a, b))
    for op in UNOPS:
        for a in ops:
            items.append((op, a, None))
    return ops, items


def triples_check(case, ctx):
    res = Result()
    ops, items = triples_batch(case)
    if ctx.tier == "quick" and case["t"] > 0:
        items = [x for k, x in enumerate(items) if k % 10 == ctx.seed % 10]
    batch = items[case["k"]:case["k"] + case["n"]]
    lines = [d for d, _, _, _ in ops if d]
    probes = []
    for i, (op, a, b) in enumerate(batch):
        if b is None:
            if op in ("sizeof", "_Alignof"):
                if op == "_Alignof" or a[3] is not None:
                    e = "%s(%s)" % (op, a[2].name if a[2].name != "unsigned int" else "unsigned")
                else:
                    e = "sizeof %s" % a[1]
                want = cm.ULONG
            elif op == "!":
                e, want = "!%s" % a[1], cm.INT
            else:
                if a[2].kind == "float" and op == "~":
                    continue
                e = "%s%s" % (op, a[1])
                want = a[2] if a[2].kind == "float" else cm.promote(a[2], a[3])
        else:
            want = model_binop(op, a[2], a[3], b[2], b[3])
            if want is None:
                continue
            if want == "lhs":
                if a[3] is not None:
                    continue   # type of an assignment to a bit-field: the references split
                want = a[2]
            if op == "?:":
                e = "1 ? %s : %s" % (a[1], b[1])
                if a[3] is not None or b[3] is not None:
                    pass
            else:
                e = "%s %s %s" % (a[1], op, b[1])
        lines.append("int k%d = _Generic((%s), %s);" % (i, e, GLIST))
        split = (a[3] or 0) > 32 or (b is not None and (b[3] or 0) > 32)
        probes.append(("k%d" % i, tindex(want), e, op, a, b, split))
    src = "\n".join(lines) + "\n"
    target = cproc.TARGETS[case["t"]]
    run_probes(ctx, src, probes, target, res)
    res.sample = {"target": target, "probes": [p[2] for p in probes[:3]]}
    return res


def run_probes(ctx, src, probes, target, res, std="gnu2x"):
    res.n += len(probes)
    p = cproc.cc(ctx, src.encode(), target, "plain", timeout=60)
    if p.rc != 0:
        ref = clang_values(ctx, src, target, std)
        if ref is not None:
            res.fail = dict(sig="reject:" + p.err.decode(errors="replace").split("error:")[-1].strip()[:50],
                            msg="typing probes rejected (%s): %s" % (target, p.err.decode(errors="replace")[:300]), input=src)
            return
        # clang cannot take the whole batch (it lacks some C23 spellings): judge the probes cproc rejects one by one
        lines = src.split("\n")
        head = [l for l in lines if not re.search(r"\bint k\d+ = ", l)]
        for l in lines:
            if not re.search(r"\bint k\d+ = ", l):
                continue
            one = "\n".join(head + [l]) + "\n"
            q = cproc.cc(ctx, one.encode(), target, "plain", timeout=60)
            if q.rc == 0:
                continue
            if clang_values(ctx, one, target, std) is None:
                res.discard.append("probe-rejected-by-clang-too")
                continue
            res.fail = dict(sig="reject:" + q.err.decode(errors="replace").split("error:")[-1].strip()[:50],
                            msg="typing probe rejected (%s): %s: %s" % (target, l.strip()[:80], q.err.decode(errors="replace")[:200]), input=one)
            return
        res.discard.append("batch-rejected-but-every-probe-accepted-alone")
        return
    mod, errs = ilcheck.validate(p.out)
    if errs:
        res.fail = dict(sig="", msg="malformed IL: %s" % errs[:2], input=src)
        return
    data = {d.name: d for d in mod.data}
    ref = None
    for name, want, e, op, a, b, split in probes:
        d = data.get(name)
        got = struct.unpack("<i", qbeil.data_image(d)[1][:4])[0] if d else None
        if got == want:
            if want != 0:
                ta = a[2].name if a else ""
                tb = b[2].name if b else ""
                if (ta and GENERIC_TYPES[want - 1] != ta) or (tb and tb != ta):
                    res.keys.append(sha([op, a[1] if a else e, b[1] if b else "", target]))
            continue
        if ref is None:
            ref = clang_values(ctx, src, target, std) or {}
        rv = ref.get(name)
        if rv is not None and rv != want and not split:
            res.discard.append("model-disagrees-with-clang")
            res.labels.append("MODEL-MISMATCH")
            continue
        if rv is not None and rv != want and split:
            res.labels.append("ref_split-model-decides")
        res.fail = dict(sig="", msg="type of  %s  on %s: cproc selects %s, C11 gives %s (clang: %s)"
                        % (e, target, _tn(got), _tn(want), _tn(rv)), input=src)
        return


def _tn(i):
    if i is None:
        return "?"
    return "no listed type" if i == 0 else GENERIC_TYPES[i - 1] if 0 < i <= len(GENERIC_TYPES) else str(i)


def clang_values(ctx, src, target, std="gnu2x"):
    d = tempfile.mkdtemp(dir=ctx.wdir())
    try:
        path = os.path.join(d, "p.c")
        with open(path, "w") as f:
            f.write(src)
        elf, err = refcc.clang_obj(path, os.path.join(d, "p.o"), target, std=std, extra=refcc.target_flags(target))
        if elf is None:
            return None
        out = {}
        for y in elf.symbols:
            if y.type == "OBJECT" and y.size == 4:
                b = elf.sym_bytes(y)
                out[y.name] = struct.unpack("<i", b)[0]
        return out
    finally:
        shutil.rmtree(d, ignore_errors=True)


# ---- literals --------------------------------------------------------------------------------------

def literal_enum(ctx):
    for ti in range(3):
        yield {"t": ti}


def literal_check(case, ctx):
    res = Result()
    target = cproc.TARGETS[case["t"]]
    mags = []
    for k in (7, 8, 15, 16, 31, 32, 63, 64):
        for dlt in (-1, 0):
            mags.append((1 << k) + dlt)
    mags += [0, 1, 9, 10, 255, 4294967295, 9223372036854775807]
    lines = []
    probes = []
    i = 0
    for v in sorted(set(mags)):
        if v >= 1 << 64:
            continue
        for base in ("dec", "hex", "oct", "bin"):
            body = {"dec": "%d", "hex": "0x%x", "oct": "0%o", "bin": None}[base]
            body = ("0b" + bin(v)[2:]) if body is None else body % v
            if base == "oct" and v == 0:
                body = "00"
            for suf in ("", "u", "U", "l", "L", "ul", "UL", "lu", "Lu", "ll", "LL", "ull", "llu", "uLL", "LLU"):
                t = literal_type(body + suf)
                if t is None:
                    continue   # no type: constraint violation, belongs to C10
                lines.append("int k%d = _Generic(%s%s, %s);" % (i, body, suf, GLIST))
                probes.append(("k%d" % i, tindex(t), body + suf, "literal", None, None, False))
                i += 1
    wch = 7 if cproc.WCHAR_SIGNED[target] else 8
    for txt, idx in (("1.0", 14), ("1.0f", 13), ("1.0F", 13), ("1.0l", 15), ("1.0L", 15), ("1e5", 14), ("0x1p3", 14), ("0x1p3f", 13), (".5", 14), ("5.", 14),
                     ("'a'", 7), ("'\\377'", 7), ("L'a'", wch), ("u'a'", 6), ("U'a'", 8), ("u8'a'", 4), ("\"s\"[0]", 2), ("L\"s\"[0]", wch), ("u\"s\"[0]", 6),
                     ("U\"s\"[0]", 8), ("u8\"s\"[0]", 4), ("sizeof 1", 10), ("_Alignof(int)", 10), ("(char)1", 2), ("(short)1", 5), ("(_Bool)1", 1),
                     ("true", 1), ("false", 1),
                     # adjacent literals: the encoding prefix of any token of the run applies to the whole string (6.4.5p5)
                     ("(L\"a\" \"b\")[0]", wch), ("(\"a\" L\"b\")[0]", wch), ("(u\"a\" \"b\")[0]", 6), ("(\"a\" u\"b\" \"c\")[0]", 6), ("(U\"x\" \"y\")[0]", 8),
                     ("(\"x\" \"y\" U\"z\")[0]", 8), ("(u8\"a\" \"b\")[0]", 4), ("(\"a\" \"b\")[0]", 2), ("(L\"a\" \"b\" L\"c\")[0]", wch),
                     ("sizeof(L\"a\" \"b\") == 3 * sizeof(L'a')", 7), ("sizeof(\"a\" u\"b\" \"c\") == 8", 7)):
        lines.append("int k%d = _Generic(%s, %s);" % (i, txt, GLIST))
        probes.append(("k%d" % i, idx, txt, "literal", None, None, txt.startswith("u8")))
        i += 1
    run_probes(ctx, "\n".join(lines) + "\n", probes, target, res)
    res.keys.extend(sha([p[2], target]) for p in probes) if res.fail is None else None
    res.sample = {"target": target, "literals": [p[2] for p in probes[:5]]}
    return res


# ---- enumeration constants ---------------------------------------------------------------------------

ENUM_VALUES = [-2147483648, -2147483647, -32769, -32768, -129, -128, -1, 0, 1, 127, 128, 255, 256, 32767, 65535, 65536, 2147483646, 2147483647]


def enumconst_enum(ctx):
    for ti in range(3):
        yield {"t": ti}


def _spellings(v):
    """C spellings of the value v whose *expression* types differ (int, long, long long, unsigned, char, ...)."""
    a = abs(v)
    neg = "-" if v < 0 else ""
    out = ["%s%d" % (neg, a), "%s%dL" % (neg, a), "%s%dLL" % (neg, a), "(long)%s%dLL" % (neg, a), "%s0x%xL" % (neg, a), "(%s%dL + 0)" % (neg, a),
           "(1 ? %s%dL : 0)" % (neg, a), "%s%d - 1 + 1" % (neg, a - 1 if a else 0) if a > 1 else "%s%d" % (neg, a)]
    if v >= 0:
        out += ["%dU" % a, "%dUL" % a, "0%oull" % a, "(unsigned char)%d" % a if a < 256 else "(unsigned short)%d" % a if a < 65536 else "%du" % a,
                "sizeof(char[%d])" % a if 0 < a < 70000 else "%dul" % a]
    if -128 <= v < 128:
        out += ["(signed char)%d" % v, "(short)%d" % v]
    if v in (0, 1):
        out += ["(_Bool)%d" % v, "%d == 1" % v]
    if v == 97:
        out += ["'a'"]
    return out


def enumconst_check(case, ctx):
    """An enumeration constant whose value is representable as int has type int whatever the type of its initialiser
    (C11 6.7.2.2p3, unchanged by C23 6.7.2.2p12 for such values); so has the implicit successor.  With a fixed underlying
    type the constants have that type."""
    res = Result()
    target = cproc.TARGETS[case["t"]]
    lines, probes = [], []
    i = 0
    INT = tindex(cm.INT)
    for v in ENUM_VALUES + [97]:
        for sp in _spellings(v):
            n = len(probes)
            # (no successor after INT_MAX: a value outside int gives all constants of the enum its own type in C23)
            lines.append(("enum { EK%d = %s, EN%d, EM%d = EK%d };" if v < 2147483647 else "enum { EK%d = %s, EM%d = EK%d };") % ((n, sp, n, n, n) if v < 2147483647 else (n, sp, n, n)))
            lines[-1] += " int k%d = _Generic(EK%d, %s);" % (n, n, GLIST)
            probes.append(("k%d" % n, INT, "enum { EK = %s }; EK" % sp, "enumconst", None, None, False))
            n2 = len(probes)
            lines[-1] += " int k%d = _Generic(EM%d, %s);" % (n2, n, GLIST)
            probes.append(("k%d" % n2, INT, "enum { EK = %s, EM = EK }; EM" % sp, "enumconst", None, None, False))
            if v < 2147483647:
                n3 = len(probes)
                lines[-1] += " int k%d = _Generic(EN%d, %s);" % (n3, n, GLIST)
                probes.append(("k%d" % n3, INT, "enum { EK = %s, EN }; EN" % sp, "enumconst", None, None, False))
    for ut, lo, hi in (("signed char", -128, 127), ("unsigned char", 0, 255), ("short", -32768, 32767), ("unsigned short", 0, 65535), ("int", -2147483648, 2147483647),
                       ("unsigned int", 0, 4294967295), ("long", -9223372036854775807 - 1, 9223372036854775807), ("unsigned long", 0, 18446744073709551615)):
        want = GENERIC_TYPES.index(ut) + 1
        for v in (lo, hi, 0, None):
            sp = "" if v is None else ("%d" % v) if v != -9223372036854775808 else "(-9223372036854775807L - 1)"
            if v is not None and v > 9223372036854775807:
                sp += "ul"
            n = len(probes)
            if v is None:
                # implicit first enumerator (value 0) and its successor
                lines.append("enum F%d : %s { FK%d, FL%d };" % (n, ut, n, n))
                lines[-1] += " int k%d = _Generic(FL%d, %s);" % (n, n, GLIST)
                probes.append(("k%d" % n, want, "enum F : %s { FK, FL }; FL" % ut, "enumconst", None, None, False))
                continue
            lines.append("enum F%d : %s { FK%d = %s };" % (n, ut, n, sp))
            lines[-1] += " int k%d = _Generic(FK%d, %s);" % (n, n, GLIST)
            probes.append(("k%d" % n, want, "enum F : %s { FK = %s }; FK" % (ut, sp), "enumconst", None, None, False))
    # typeof / typeof_unqual of type names and of expressions (C23 6.7.2.5): which qualifiers survive
    lines.append("extern const int tc0[3]; struct tq { int m; };")
    for dcl, e, want in (("typeof_unqual(const int) tu1", "&tu1", 7), ("typeof_unqual(const int *const) tu2", "&tu2", 9), ("const typeof_unqual(int) tu3", "&tu3", 8), ("typeof(const int) tu4", "&tu4", 8),
                         ("typeof_unqual(tc0[0]) tu5", "&tu5", 7), ("typeof(tc0[0]) tu6", "&tu6", 8), ("typeof_unqual(const struct tq) tu7", "&tu7", 10)):
        n = len(probes)
        lines.append("extern %s; int k%d = _Generic(%s, int *: 7, const int *: 8, const int **: 9, struct tq *: 10, int (*)[3]: 11, const int (*)[3]: 12, default: 0);" % (dcl, n, e))
        probes.append(("k%d" % n, want, "typeof-probe " + e, "typeof", None, None, False))
    run_probes(ctx, "\n".join(lines) + "\n", probes, target, res)
    res.keys.extend(sha([p[2], target]) for p in probes) if res.fail is None else None
    res.sample = {"target": target, "enumerators": [p[2] for p in probes[:5]]}
    return res


# ---- pointers, qualifiers, decay --------------------------------------------------------------------

PTR_DECLS = ("extern int *pi; extern const int *pci; extern void *pv; extern const void *pcv; extern int arr[3]; extern const int carr[3];\n"
             "int fn(void); struct q { int m; const int cm; int am[2]; }; extern struct q sq; extern const struct q csq; extern struct q *psq;\n"
             "extern const struct q *pcsq; extern char *pc; extern int **ppi; extern int (*pa)[3]; extern long l; extern volatile int *pvi;\n")
PLIST = ("int *: 1, const int *: 2, void *: 3, const void *: 4, char *: 5, int (*)(void): 6, long: 7, int: 8, unsigned long: 9, "
         "int **: 10, int (*)[3]: 11, const int (*)[3]: 12, struct q: 13, struct q *: 14, const struct q *: 15, char: 16, volatile int *: 17, "
         "const char *: 18, default: 0")
PTR_PROBES = [
    ("pi + 1", 1), ("1 + pi", 1), ("pi - 1", 1), ("arr", 1), ("&arr[1]", 1), ("arr + l", 1), ("carr + 1", 2), ("&carr[0]", 2), ("&sq.m", 1), ("&csq.m", 2),
    ("&sq.cm", 2), ("&pcsq->m", 2), ("&psq->m", 1), ("&psq->cm", 2), ("sq.am", 1), ("csq.am", 2), ("1 ? pi : pv", 3), ("1 ? pv : pi", 3), ("1 ? pi : pci", 2),
    ("1 ? pci : pi", 2), ("1 ? pi : 0", 1), ("1 ? 0 : pi", 1), ("1 ? pci : pv", 4), ("1 ? pi : pcv", 4), ("1 ? pi : (void *)0", 1), ("1 ? (void *)0 : pci", 2),
    ("pi - pi", 7), ("pci - pi", 7), ("pi == pci", 8), ("pi < pi", 8), ("pi != 0", 8), ("!pi", 8), ("pi && pv", 8), ("*pi", 8), ("*pci", 8), ("pi[1]", 8),
    ("1[pi]", 8), ("fn", 6), ("&fn", 6), ("*fn", 6), ("**fn", 6), ("fn()", 8), ("(fn)()", 8), ("(*fn)()", 8), ("(pi)", 1), ("pi = pi", 1), ("pi++", 1),
    ("--pi", 1), ("pi += 1", 1), ("(const int *)pi", 2), ("(void *)pi", 3), ("(char *)pv", 5), ("sizeof pi", 9), ("sizeof *pa", 9), ("sq.m", 8), ("csq.m", 8),
    ("psq->cm", 8), ("pcsq->m", 8), ("sq", 13), ("*psq", 13), ("&sq", 14), ("&csq", 15), ("psq + 1", 14), ("pcsq", 15), ("&*psq", 14), ("ppi", 10), ("&pi", 10),
    ("*ppi", 1), ("**ppi", 8), ("&arr", 11), ("&carr", 12), ("pa", 11), ("*pa", 1), ("pa + 1", 11), ("(*pa)[1]", 8), ("\"abc\"", 5), ("&\"abc\"[1]", 5),
    ("*\"abc\"", 16), ("(int[]){1, 2}", 1), ("&(int){1}", 1), ("(const int[]){1}", 2), ("&(struct q){0}", 14), ("(struct q){0}.am", 1), ("pvi", 17), ("pvi + 1", 17),
    ("1 ? pvi : pvi", 17), ("(const char *)pc", 18), ("1 ? pc : (const char *)pc", 18), ("__func__", 18), ("l ? pi : pi", 1), ("pc + (pi - pi)", 5),
    ("0 == pi", 8), ("(void *)0 != pi", 8), ("pv == pi", 8), ("pi == pv", 8), ("pcv != pi", 8), ("pi == (void *)0", 8), ("pv == 0", 8), ("fn == 0", 8), ("0 != fn", 8),
    ("(pi, pci)", 2), ("(1, arr)", 1), ("(1, fn)", 6), ("+l", 7), ("l << 1", 7), ("1 << l", 8), ("(char)l", 16), ("psq->am + 1", 1), ("pcsq->am", 2),
]


SIZE_PROBES = [
    # the comma operator yields a value: arrays and functions decay, the result is not an lvalue and has lost its qualifiers
    "sizeof(0, arr) == sizeof(int *)", "sizeof(1, 2u, arr) == sizeof(int *)", "sizeof((l, arr)) == sizeof(int *)", "sizeof(0, \"abc\") == sizeof(char *)", "sizeof(0, sq.am) == sizeof(int *)",
    "sizeof(0, fn) == sizeof(int (*)(void))", "sizeof(arr) == 3 * sizeof(int)", "sizeof(\"abc\") == 4", "sizeof(sq.am) == 2 * sizeof(int)", "sizeof(*pa) == 3 * sizeof(int)",
    "sizeof(0 ? arr : arr) == sizeof(int *)", "sizeof(+*pa) == sizeof(int *)"[:0] or "sizeof(&arr[0]) == sizeof(int *)", "sizeof(*&arr) == 3 * sizeof(int)", "sizeof((arr)) == 3 * sizeof(int)",
    "sizeof(typeof((0, arr))) == sizeof(int *)", "sizeof(typeof(arr)) == 3 * sizeof(int)", "sizeof(typeof((arr))) == 3 * sizeof(int)", "sizeof(typeof(0, carr[0])) == sizeof(int)",
    "_Generic(&(typeof((0, carr[0]))){0}, int *: 1, const int *: 0)", "_Generic(&(typeof(carr[0])){0}, int *: 0, const int *: 1)", "_Generic(&(typeof((1, csq.m))){0}, int *: 1, default: 0)",
    # array types made by the compiler (string literals, completed initialisers) have a length like any other
    "_Generic(&\"abc\", char (*)[10]: 0, char (*)[4]: 1, default: 0)", "_Generic(&\"\", char (*)[1]: 1, default: 0)", "_Generic(&u\"ab\", unsigned short (*)[3]: 1, default: 0)",
    "_Generic(&(int[]){ 1, 2 }, int (*)[3]: 0, int (*)[2]: 1, default: 0)", "_Generic(&arr, int (*)[4]: 0, int (*)[3]: 1, default: 0)", "__builtin_types_compatible_p(typeof(\"abc\"), char[4])",
    "!__builtin_types_compatible_p(typeof(\"abc\"), char[5])", "!__builtin_types_compatible_p(typeof((int[]){ 1 }), int[2])",
    "sizeof(1 ? carr : carr) == sizeof(int *)", "sizeof((char)1, arr) == sizeof(int *)", "sizeof(0, (0, arr)) == sizeof(int *)",
]


# the predefined identifier __func__ is `static const char __func__[] = "name";` (6.4.2.2): an array with the terminator counted
FUNC_PROBES = [
    ("probe", "sizeof __func__ == 6"), ("probe", "sizeof(__func__) == sizeof \"probe\""), ("probe", "sizeof *&__func__ == 6"), ("probe", "sizeof(typeof(__func__)) == 6"),
    ("probe", "_Generic(&__func__, const char (*)[6]: 1, default: 0)"), ("probe", "_Generic(__func__, const char *: 1, default: 0)"),
    ("probe", "!__builtin_types_compatible_p(typeof(__func__), const char[5])"), ("probe", "__builtin_types_compatible_p(typeof(__func__), const char[6])"),
    ("a", "sizeof __func__ == 2"), ("a_rather_long_function_name_0123456789", "sizeof __func__ == 39"), ("probe", "sizeof(0, __func__) == sizeof(char *)"),
    ("probe", "_Generic(&__func__[0], const char *: 1, default: 0)"), ("main", "sizeof __func__ == 5"),
    # `struct S;` in a block declares a new type that hides the outer S (6.7.2.3p7): it is not compatible with it, and what
    # is declared from it before its completion has the inner type
    ("tg1", "_Generic(&outer5, struct S5 *: 0, default: 1)", "struct S5;"),
    ("tg2", "sizeof *p == 32", "struct S5; struct S5 *p = 0; struct S5 { long b; char c[24]; };"),
    ("tg3", "_Generic(p, struct S5 *: 1, default: 0) && !__builtin_types_compatible_p(typeof(*p), typeof(outer5))", "struct S5; struct S5 *p = 0; struct S5 { long b; };"),
    ("tg4", "_Generic(&uouter5, union U5 *: 0, default: 1)", "union U5;"),
    ("tg5", "_Generic(&outer5, struct S5 *: 1, default: 0)", "struct S5 *q = &outer5; (void)q;"),
    ("tg6", "_Generic(&outer5, struct S5 *: 0, default: 1) && sizeof(struct S5) == 2", "{ struct S5; } struct S5 { char c[2]; };"),
    ("tg7", "sizeof(*(struct S5 *)0) == sizeof(int)", "{ struct S5; struct S5 { char c[9]; }; }"),
    ("tg8", "_Generic((struct S5 *)0, typeof(&outer5): 0, default: 1)", "for (struct S5 *i = 0; ; ) { struct S5; struct S5 *j = 0; (void)i; (void)j;"),
]
FUNC_PRE = "struct S5 { int a; }; struct S5 outer5; union U5 { int a; }; union U5 uouter5;\n"


def ptr_enum(ctx):
    for ti in range(3):
        yield {"t": ti}


def ptr_check(case, ctx):
    res = Result()
    target = cproc.TARGETS[case["t"]]
    lines = [PTR_DECLS, "void f(void) {"]
    probes = []
    for i, (e, idx) in enumerate(PTR_PROBES):
        lines.append("\tstatic int k%d = _Generic((%s), %s);" % (i, e, PLIST))
    lines.append("}")
    # block-scope statics get mangled names; use file scope where __func__ is not involved
    lines = [PTR_DECLS]
    for i, (e, idx) in enumerate(PTR_PROBES):
        if "__func__" in e:
            continue
        lines.append("int k%d = _Generic((%s), %s);" % (i, e, PLIST))
        probes.append(("k%d" % i, idx, e, "ptr", None, None, False))
    # conversions that _Generic cannot see (its controlling expression is converted anyway): observed through sizeof/typeof
    for j, e in enumerate(SIZE_PROBES):
        lines.append("int k%d = (%s);" % (1000 + j, e))
        probes.append(("k%d" % (1000 + j), 1, e, "ptr", None, None, False))
    fprobes = []
    seen = {}
    lines.append(FUNC_PRE)
    for name, e, *pre in FUNC_PROBES:
        pre = pre[0] if pre else ""
        tail = " break; }" if pre.startswith("for (") else ""
        seen[name] = seen.get(name, 0) + 1
        if seen[name] > 1 or name == "main":
            # one definition per name and unit: the others go into units of their own below
            fprobes.append((name, e, None, pre, tail))
            continue
        fprobes.append((name, e, "int %s(void) { %s _Static_assert(%s, \"probe\");%s return 0; }" % (name, pre, e, tail), pre, tail))
        lines.append(fprobes[-1][2])
    src = "\n".join(lines) + "\n"
    res.n += len(probes)
    for name, e, inl, pre, tail in fprobes:
        one = FUNC_PRE + "int %s(void) { %s _Static_assert(%s, \"probe\");%s return 0; }\n" % (name, pre, e, tail)
        q = cproc.cc(ctx, one.encode(), target, "plain")
        res.n += 1
        if q.rc != 0:
            if clang_values(ctx, one + "int k0 = 1;\n", target) is None:
                res.discard.append("func-probe-rejected-by-clang: " + e)
                continue
            res.fail = dict(sig="func-probe:" + e, msg="function-scope typing probe in %s() on %s does not hold: %s: %s" % (name, target, e, q.err.decode(errors="replace")[:200]), input=one)
            return res
        res.keys.append(sha([name, e, target]))
    p = cproc.cc(ctx, src.encode(), target, "plain", timeout=60)
    ref = clang_values(ctx, src, target)
    if ref is None:
        res.fail = dict(sig="machinery:ptr-table", msg="clang rejects the pointer probe table (machinery)", input=src)
        return res
    if p.rc != 0:
        # find the first rejected probe by compiling them one at a time
        for name, idx, e, *_ in probes:
            one = PTR_DECLS + "int k = _Generic((%s), %s);\n" % (e, PLIST)
            q = cproc.cc(ctx, one.encode(), target, "plain")
            if q.rc != 0:
                res.fail = dict(sig="reject-probe:" + e, msg="valid expression rejected: %s: %s" % (e, q.err.decode(errors="replace")[:200]), input=one)
                return res
        res.fail = dict(sig="", msg="pointer probe table rejected: %s" % p.err.decode(errors="replace")[:300], input=src)
        return res
    mod, errs = ilcheck.validate(p.out)
    data = {d.name: d for d in mod.data} if mod else {}
    for name, want, e, *_ in probes:
        got = struct.unpack("<i", qbeil.data_image(data[name])[1][:4])[0] if name in data else None
        rv = ref.get(name)
        if rv != want:
            res.discard.append("table-entry-disagrees-with-clang: " + e)
            continue
        if got != want:
            res.fail = dict(sig="ptr-probe:" + e, msg="type of  %s  on %s: cproc selects association %s, expected %s" % (e, target, got, want), input=src)
            return res
        res.keys.append(sha([e, target]))
    res.sample = {"target": target, "ptr-probes": [p[2] for p in probes[:5]]}
    return res


# ---- nested expressions (Hypothesis) -----------------------------------------------------------------

@st.composite
def nested_cases(draw):
    t = draw(st.integers(0, 2))
    cs = cproc.SIGNED_CHAR[cproc.TARGETS[t]]
    b = exprgen.Builder(draw, cs, "typing")
    b.kinds = ["bin", "bin", "bin", "un", "cast", "cond"]
    for _ in range(draw(st.integers(3, 8))):
        b.new_var()
    items = []
    for _ in range(draw(st.integers(5, 30))):
        n = b.expr(draw(st.integers(1, 5)))
        items.append((n.text, n.type.name))
    decls = [d.split("=")[0].replace("static ", "") + ";" for d in b.decls]
    return {"t": t, "decls": decls, "items": items}


def nested_check(case, ctx):
    res = Result()
    target = cproc.TARGETS[case["t"]]
    lines = ["extern " + d for d in case["decls"]]
    probes = []
    for i, (e, tn) in enumerate(case["items"]):
        lines.append("int k%d = _Generic((%s), %s);" % (i, e, GLIST))
        idx = 2 if tn == "char" else GENERIC_TYPES.index(tn) + 1
        probes.append(("k%d" % i, idx, e, "nested", None, None, False))
    run_probes(ctx, "\n".join(lines) + "\n", probes, target, res)
    if res.fail is None:
        res.keys.extend(sha([p[2], target]) for p in probes if any(c in p[2] for c in "+-*/%<>&|^?"))
    res.sample = {"target": target, "nested": [p[2] for p in probes[:2]]}
    return res


# ---- compatibility of derived types -----------------------------------------------------------------

# enum types are left out: gcc and clang both report `const enum E *` incompatible with `const int *` (though the unqualified
# forms are compatible), which contradicts C11 6.7.3p10; the differential oracle would blame a conforming answer
BASES = ["int", "unsigned", "char", "signed char", "long", "long long", "double", "struct q", "struct r", "void", "unsigned long", "float", "short"]


@st.composite
def derived(draw):
    """A type name: base type + abstract declarator built from the identifier outwards (parentheses only where the
    grammar needs them, i.e. around a pointer declarator that is followed by an array or function suffix)."""
    b = draw(st.sampled_from(BASES))
    q = draw(st.sampled_from(["", "", "const ", "volatile "]))
    decl = ""
    ks = [draw(st.sampled_from(["ptr", "ptr", "array", "func", "cptr"])) for _ in range(draw(st.integers(0, 3)))]
    # the derivation next to the identifier is the outermost type.  gcc and clang treat the qualifiers of the element type of
    # a top-level array as "top-level" for the builtin (C11 does not): such element qualifiers are not generated
    i = 0
    while i < len(ks) and ks[i] == "array":
        i += 1
    if 0 < i < len(ks) and ks[i] == "cptr":
        ks[i] = "ptr"
    for k in ks:
        if k == "ptr":
            decl = "*" + decl
        elif k == "cptr":
            decl = "*const " + decl
        else:
            if decl.startswith("*"):
                decl = "(" + decl + ")"
            if k == "array":
                decl += "[%s]" % draw(st.sampled_from(["", "2", "3"]))
            else:
                decl += "(%s)" % draw(st.sampled_from(["void", "int", "int, long", "char *", "int, ...", "const int", "int[3]", "int (*)(void)"]))
    import re as _re
    if _re.fullmatch(r"(\[\d*\])+", decl):
        q = ""   # gcc/clang treat the element qualifiers of a top-level array as "top-level" for the builtin; C11 does not
    return (q + b, decl)


def tname(t):
    return (t[0] + " " + t[1]).strip()


@st.composite
def compat_cases(draw):
    pairs = []
    for _ in range(draw(st.integers(5, 25))):
        a = draw(derived())
        b = a if draw(st.integers(0, 3)) == 0 else draw(derived())
        pairs.append((tname(a), tname(b)))
    return {"t": draw(st.integers(0, 2)), "pairs": pairs}


def compat_check(case, ctx):
    res = Result()
    target = cproc.TARGETS[case["t"]]
    pre = "struct q { int m; }; struct r { int m; }; enum eu { EU0, EU1 }; enum es { ES0 = -1 };\n"
    lines = [pre]
    good = []
    d = tempfile.mkdtemp(dir=ctx.wdir())
    try:
        # keep only pairs both references accept and agree on
        for i, (a, b) in enumerate(case["pairs"]):
            one = pre + "int k = __builtin_types_compatible_p(%s, %s);\n" % (a, b)
            path = os.path.join(d, "one.c")
            open(path, "w").write(one)
            elf, _ = refcc.clang_obj(path, os.path.join(d, "one.o"), target, std="gnu11")
            gelf, _ = refcc.gcc_obj(path, os.path.join(d, "oneg.o"), std="gnu11")
            if elf is None or gelf is None:
                res.discard.append("invalid-type-name")
                continue
            cv = struct.unpack("<i", elf.sym_bytes(elf.symbol("k")))[0]
            gv = struct.unpack("<i", gelf.sym_bytes(gelf.symbol("k")))[0]
            if cv != gv:
                res.discard.append("ref_split")
                continue
            good.append((a, b, cv))
    finally:
        shutil.rmtree(d, ignore_errors=True)
    for i, (a, b, v) in enumerate(good):
        lines.append("int k%d = __builtin_types_compatible_p(%s, %s);" % (i, a, b))
    src = "\n".join(lines) + "\n"
    res.n += len(good)
    if not good:
        return res
    p = cproc.cc(ctx, src.encode(), target, "plain", timeout=60)
    if p.rc != 0:
        msg = p.err.decode(errors="replace")
        if "not yet supported" in msg or "not supported" in msg:
            res.discard.append("unsupported")
            return res
        res.fail = dict(sig="reject:" + msg.split("error:")[-1].strip()[:50], msg="type names rejected: %s" % msg[:300], input=src)
        return res
    mod, errs = ilcheck.validate(p.out)
    data = {dd.name: dd for dd in mod.data}
    for i, (a, b, v) in enumerate(good):
        got = struct.unpack("<i", qbeil.data_image(data["k%d" % i])[1][:4])[0]
        res.labels.append("compat:%d" % v)
        if got != v:
            res.fail = dict(sig="", msg="__builtin_types_compatible_p(%s, %s): cproc %d, gcc and clang %d" % (a, b, got, v), input=src)
            return res
        if a != b:
            res.keys.append(sha([a, b]))
    res.sample = {"pairs": case["pairs"][:3]}
    return res


def sources(ctx):
    return [
        Source("literals", literal_check, enum=literal_enum, exhaustive=True),
        Source("enumconst", enumconst_check, enum=enumconst_enum, exhaustive=True),
        Source("pointers", ptr_check, enum=ptr_enum, exhaustive=True),
        Source("triples", triples_check, enum=triples_enum, exhaustive=True),
        Source("nested", nested_check, strategy=lambda c: nested_cases(), examples={"quick": 600, "thorough": 20000}),
        Source("compat", compat_check, strategy=lambda c: compat_cases(), examples={"quick": 300, "thorough": 10000}),
    ]
