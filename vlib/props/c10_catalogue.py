"""Catalogue of constraint violations and unsupported features for C10 (DESIGN 3/C10).

Each entry: (text, scope, tag).  scope: 'file' | 'block' (a statement/declaration inside a function) | 'unit' (the whole
translation unit is just this text, e.g. truncated constructs and directives).  tag: 'lang' (a C11 constraint/syntax
violation: gcc -pedantic-errors must reject it too), 'unsup' (documented as unsupported; no gcc guard), 'impl' (a
violation gcc does not diagnose the same way; no gcc guard).
"""

PRELUDE = ("int gi; int *gp; const int gc = 1; struct hs { int a; int b:3; const int c; int arr[2]; }; struct hs gs; int garr[4]; void gf(int); double gd;\n"
           "float gfl; struct hs *gsp; union hu { int a; float b; } gu; enum he { HE1, HE2 } ge; typedef int tdef; struct inc; extern struct inc *ginc;\n"
           "int gfn2(int, int); void *gvp; const int *gcp; long gl; unsigned gu2; char gch; _Bool gb; int (*gfp)(int); char gstr[4];\n")

E = []


def add(tag, scope, *texts):
    for t in texts:
        E.append((t, scope, tag))


# ---- declarations (decl.c) ---------------------------------------------------------------------------------
add("lang", "file",
    "static extern int q%d;", "typedef static int q%d;", "auto int q%d;", "register int q%d;", "int int q%d;", "long long long q%d;", "short short q%d;",
    "signed signed q%d;", "unsigned unsigned q%d;", "signed unsigned q%d;", "float int q%d;", "unsigned double q%d;", "short long q%d;", "void q%d;",
    "const q%d;", "struct hs { int z; };", "union hs q%d;", "enum hs q%d;", "struct e%d { };", "struct e%d { int; };", "struct e%d { int a; int a; };", "struct e%d { void v; };",
    "struct e%d { int f(void); };", "struct e%d { int a[]; int b; };", "struct e%d { struct e%d m; };", "struct e%d { int a:33; };", "struct e%d { int a:-1; };",
    "struct e%d { float a:3; };", "struct e%d { int a:0; };", "struct e%d { _Alignas(8) int a:3; };", "struct e%d { _Alignas(1) int a; };", "struct e%d { struct hsf { int x; int y[]; } m; int z; };",
    "enum e%d { A%d = 1.5 };", "enum e%d { A%d = gi };", "enum e%d : float { A%d };", "enum e%d : unsigned char { A%d = 256 };", "enum e%d { A%d = 0xffffffffffffffff, B%d };",
    "enum e%d { A%d = -1, B%d = 0xffffffffffffffff };", "int q%d[-1];", "int q%d[1.5];", "int q%d[0xffffffffffffffff];", "void q%d[2];", "int q%d(void)[2];", "int q%d[2](void);",
    "int q%d(void)(void);", "struct inc q%d[2];", "int q%d(void v);", "int q%d(int, void);", "int q%d(static int a);", "int q%d(int a, int a);", "int q%d(int (int));", "int (q%d;",
    "_Alignas(3) int q%d;", "_Alignas(1) int q%d;", "_Alignas(8) typedef int q%d;", "_Alignas(8) int q%d(void);", "typedef int tdef2 __asm__(\"x\");", "typedef long tdef;",
    "int gi(void);", "static int gi;", "long gi;", "int q%d; static int q%d;", "extern int gs;", "int q%d = 1; int q%d = 2;", "_Static_assert(0, \"no\");",
    "_Static_assert(gi, \"no\");", "_Static_assert(1.5, \"no\");", "int q%d(void) { return 1; } int q%d(void) { return 2; }", "int gfn2(int);", "inline int q%d;", "int q%d __asm__(\"a\"); int q%d __asm__(\"b\");", "int;", "struct hs gs2 = { .nosuch = 1 };",
    "int q%d[2] = { [2] = 1 };", "int q%d[2] = { 1, 2, 3 };", "int q%d = { { 1 } };", "int q%d[] = { };", "struct inc q%d = { 0 };", "int q%d[2] = { .a = 1 };", "struct hs q%d = { [0] = 1 };",
    "char q%d[2] = L\"a\";", "int q%d = { 1, 2 };", "int q%d[2] = { 1 2 };", "int *q%d = 1.5;", "int *q%d = &gd;", "int *q%d = gcp;", "struct hs q%d = 1;", "int q%d = gs;",
    "int q%d = gi;", "int q%d = gf;", "int *q%d = &gs.b;", "int q%d = sizeof(void);", "int q%d = sizeof(struct inc);", "int q%d = sizeof(int(void));", "int q%d = _Alignof(struct inc);",
    "int q%d = sizeof gs.b;", "int q%d = _Generic(1, int: 1, int: 2);", "int q%d = _Generic(1, default: 1, default: 2);", "int q%d = _Generic(1, long: 1);", "int q%d = _Generic(1, void: 1, default: 2);",
    "int q%d = _Generic(1, struct inc: 1, default: 2);", "int q%d = _Generic(1, int(void): 1, default: 2);", "int q%d = _Generic(1, 2: 1);", "int q%d = __builtin_offsetof(struct hs, nosuch);",
    "int q%d = __builtin_offsetof(int, a);", "int q%d = __builtin_offsetof(struct hs, arr.x);", "int q%d = __builtin_offsetof(struct hs, a[1]);", "int q%d = 1q;", "int q%d = 1.0q;", "int q%d = 0x;",
    "int q%d = 99999999999999999999;", "int q%d = 'ab';", "int q%d = undeclared_x;", "int q%d = (1;", "int q%d = 1 +;", "int q%d = gp * 2;", "int q%d = gd %% 2;", "int q%d = gd << 1;", "int q%d = ~gd;",
    "int q%d = gd & 1;", "int q%d = -gp;", "int q%d = gs + 1;", "int q%d = !gs;", "int q%d = gs && 1;", "int q%d = gs ? 1 : 2;", "int q%d = 1 ? gs : 2;", "int q%d = 1 ? gp : gd;",
    "int q%d = (struct hs)gi;", "int q%d = (int)gs;", "int q%d = gp + gp;", "int q%d = gp - gcp + gd;", "long q%d = gp - &gd;", "int q%d = gp < &gd;", "int q%d = gp == &gd;", "int q%d = gp < 1;", "int q%d = gvp + 1;", "int q%d = ginc + 1;", "int q%d = *gi;",
    "int q%d = gi[gi];", "int q%d = gp[gd];", "int q%d = gi();", "int q%d = gfn2(1);", "int q%d = gfn2(1, 2, 3);", "int q%d = gs.nosuch;", "int q%d = gi.a;", "int q%d = gi->a;", "int q%d = gp->a;", "int q%d = gs.;",
    "int *q%d = &1;", "int *q%d = &gs.b;", "int q%d = *ginc;", "int q%d = gsp->;", "unsigned float q%d;", "int q%d, ;", "int q%d", "int 5q;", "int q%d = ;", "q%d;", "}", "int q%d[;", ";")
add("lang", "block",
    "gi = undeclared_y;", "undeclared_f();", "1 = 2;", "gi + 1 = 2;", "gc = 2;", "gs.c = 1;", "gc++;", "--gc;", "garr = 0;", "gf = 0;", "gi++ ++;", "++gi++;", "&gi = 0;", "gp = 1.5;", "gp = &gd;",
    "gp = gcp;", "gs = 1;", "gi = gs;", "gs = gu;", "gd = gp;", "gb = gs;", "gp = gi;", "break;", "continue;", "case 1: ;", "default: ;", "switch (gi) { case 1: case 1: ; }",
    "switch (gi) { default: default: ; }", "switch (gd) { }", "switch (gp) { }", "switch (gi) { case gi: ; }", "switch (gi) { case 1.5: ; }", "if (gs) ;", "while (gs) ;", "do ; while (gs);",
    "for (; gs; ) ;", "goto nosuchlabel%d;", "lab%d: lab%d: ;", "return gs;", "int lv%d; int lv%d;", "_Thread_local int tl%d;", "static int sf%d(void);", "extern int ei%d = 1;", "int lf%d(void) { return 1; }",
    "struct inc li%d;", "void lv%d;", "int la%d[gi] = { 1 };", "static int ls%d[gi];", "extern int le%d[gi];", "gf(1, 2);", "gf();", "gfp(gs);", "gi(1);", "gp->a = 1;", "gs->a = 1;", "gsp.a = 1;",
    "*gi = 1;", "gi[1] = 1;", "gs.nosuch = 1;", "gp = &gs.b;", "gi = sizeof gs.b;", "gi = *gvp;", "gvp++;", "ginc++;", "gp = gp + gp;", "gi = gp * 2;", "gd %%= 2;", "gd <<= 1;", "gp *= 2;", "gp += gp;",
    "gi = gp - &gd;", "gi = gp < &gd;", "gi = 1 ? gp : &gd;", "gi = (gs ? 1 : 2);", "gi = -gs;", "gi = +gp;", "gi = ~gd;", "gi = !gs;", "(struct hs)gi;", "(int)gs;", "(int[2])gi;", "(double)gp;", "else ;", "if (1 ;",
    "while () ;", "do ; while ();", "for (;;;) ;", "gi = (1;", "gi = 1 +;", "gi = ;", "{", "return 1 2;", "int lq%d lq2;", "gi = __builtin_va_arg(gi, int);", "__builtin_va_end(gi);",
    "__builtin_va_start(gi);", "__builtin_va_copy(gi, gi);", "gi = __builtin_alloca;", "__builtin_unreachable(1);", "gfl = __builtin_nanf(\"1\");", "gi = _Generic(gi, long: 1);",
    "gi = gp[ginc];", "gi = ginc[0];", "{ int x%d; int x%d; }", "gi = gfn2;", "typedef int lt%d; lt%d lt%d2 = gs;", "gi = HE1 = 2;", "HE1++;")
add("lang", "block", "gp = 1.5;", "gd = gp;", "gp = gi;", "return gs;", "gi = gfn2;", "gf = 0;", "&gi = 0;", "HE1 = 2;", "HE1++;", "gvp++;", "gi = *gvp;", "gi = -gp;", "gi = gvp + 1 == 0;",
    "{ int x%d; int x%d; }", "lab%d: ; lab%d: ;", "gi = gp < 1;", "int la%d[gi] = { 1 };", "gi = ginc[0];", "ginc = ginc + 1;", "gi++ ++;", "++gi++;", "(double)gp;", "gp = (int *)gd;",
    "int lfa%d[2](void);", "gi = sizeof(int[-1]);", "gs.arr = garr;", "gstr = \"abc\";", "gi = (void)1;", "gf(gf(1));", "gi = gf(1);", "gp = gf;", "gi = 1 ? (void)0 : 1;")
# ---- constraints repaired after a sub-agent's probe (DESIGN 11.3): const stores through decayed arrays and bit-fields, struct with const member,
# ---- variadic arity, bit-field width marker, duplicate members/parameters, hex float without exponent, #line flags
add("lang", "block", "{ const int ca%d[3] = { 0 }; *ca%d = 1; }", "{ const int cm%d[2][2] = { { 0 } }; **cm%d = 0; }", "{ const struct hs *cp%d = gsp; cp%d->b = 1; }",
    "{ const struct hs *cq%d = gsp; cq%d->b++; }", "{ const struct hs *cr%d = gsp; cr%d->b += 2; }", "gs = *gsp;", "*gsp = gs;",
    "{ struct cw%d { int k; struct { const int c[2]; } in[2]; } a%d, b%d; a%d = b%d; }")
add("lang", "file", "int vf%d(int, int, ...); int vu%d(void) { return vf%d(1); }", "struct e%d { int a : -1ull; };", "struct e%d { int : -1ull; int y; };",
    "struct e%d { int a; struct { int b; int a; }; };", "struct e%d { struct { int y; int x; }; int x; };", "union e%d { int a; float a; };",
    "int q%d(int a, int a);", "int q%d(int a, int (*g)(int), char a) { return 0; }", "double q%d = 0x1.0;", "float q%d = 0x.8f;")
add("lang", "unit", "#line 1 2\nint x;\n", "# 3 4\nint x;\n")
# storage-class specifier combinations of three and repeated specifiers (C11 6.7.1p2)
add("lang", "file", "_Thread_local static extern int q%d;", "_Thread_local extern static int q%d;", "static _Thread_local extern int q%d;", "extern _Thread_local static int q%d;",
    "_Thread_local static static int q%d;", "static _Thread_local static int q%d;", "_Thread_local extern extern int q%d;", "static static int q%d;", "extern extern int q%d;",
    "_Thread_local _Thread_local int q%d;", "typedef extern int q%d;", "typedef _Thread_local int q%d;", "static typedef int q%d;", "extern static _Thread_local int q%d;",
    "register int q%d;", "auto int q%d;", "_Thread_local int q%d(void);", "static _Thread_local int q%d(void) { return 0; }")
add("lang", "block", "{ _Thread_local int tb%d; }", "{ _Thread_local static extern int tb%d; }", "{ static _Thread_local extern int tb%d; }", "{ extern _Thread_local int tb%d = 1; }",
    "{ register static int tb%d; }", "{ auto static int tb%d; }", "{ typedef static int tb%d; }")
# ---- entries added to reach diagnostic sites the evidence listed as uncovered
add("lang", "file", "struct e%d { static int a; };", "int q%d = sizeof(static int);", "struct e%d { inline int a; };", "int q%d(inline int a);", "enum e%d : { A%d };", "struct ;",
    "struct 1 q%d;", "enum e%d : int; enum e%d : long { A%d };", "int q%d(_Alignas(8) int a);", "typedef _Alignas(8) int t%d;", "int q%d = sizeof(int x%d);",
    "_Static_assert(0);", "typedef int gi;", "int gi(void);", "enum { gi };", "struct hs gf;", "int q%d = __builtin_types_compatible_p(1, int);",
    "char q%d[] = { [0] = 1, .x = 2 };", "int q%d = { [0] = 1 };", "struct hs q%d = { .nosuch%d = 1 };", "union hu q%d = { .zz%d = 1 };")
add("lang", "block", "{ struct vm%d { int a[gi]; }; }", "{ typeof(nullptr) np%d = 1; }", "gs = *(struct hs2 { int a; } *)gvp;", "gu = gs;", "gi = gi && gs;", "gi = gs || gi;", "gi = gs + 1;",
    "gi = gs - 1;", "gl = ginc - ginc;", "gi = gd %% 2;", "gi = gd << 1;", "gi = 1 >> gd;", "gi = gd & 1;", "gs++;", "--gs;", "gi = gi->a;", "gi = gs.nosuch%d;", "gi = gsp->nosuch%d;",
    "gi = _Alignof(int;", "gi = _Generic(gi, int[gi]: 1, default: 2);", "gp = &(gi + 1);", "gp = &gs.b;", "{ typedef int lt%d; gi = lt%d; }", "{ typedef int lt%d; gp = &lt%d; }",
    "while (gs) ;", "do ; while (gs);", "do ; while (gu);", "if (gs) ;", "gi = gs ? 1 : 2;", "gi = !gs;", "gi = ~gd;", "gi = -gp;", "gi = +gp;", "gi = *gi;", "gi = gi[gi];", "gi = gf + 1;",
    "{ static int si%d = gi; }", "{ int la%d; static int *sp%d = &la%d; }", "{ static int sj%d = gfn2(1, 2); }")
add("impl", "unit", "void f(int n, ...) { __builtin_va_list ap; __builtin_va_start(ap, n); int x = __builtin_va_arg(ap, 1); }\n",
    "void f(int n, ...) { __builtin_va_list ap, aq; __builtin_va_start(ap, n); __builtin_va_copy(aq, 1); }\n", "#define F(x) __VA_ARGS__\nint a = F(1);\n",
    "#define F(x) x\nint a = F(1, 2);\n", "#define G() 1\nint a = G(2);\n", "double d = 0x.p1;\n", "int x = 0b;\n", "int x = 0x;\n", "double d = 1e+;\n",
    "int (x) [[maybe_unused]];\n", "int x = 'a\0b';\n", "struct s { int n; int fam[]; } v = { 1, { 2, 3 } };\n")
add("lang", "file", "struct inc f%d(void); void c%d(void) { f%d(); }", "struct inc (*fp%d)(void); void c%d(void) { fp%d(); }")
# the address of an object with thread storage duration is not an address constant (C11 6.6p9)
add("lang", "file", "_Thread_local int tl%d; int *ptl%d = &tl%d;", "static _Thread_local int ts%d[4]; static int *pts%d = &ts%d[1];", "extern _Thread_local int te%d; int *pte%d = &te%d;",
    "_Thread_local struct hs th%d; int *pth%d = &th%d.a;", "_Thread_local int tm%d; struct { int k; int *p; } ag%d = { 1, &tm%d };", "_Thread_local int tq%d[2]; int *aq%d[2] = { 0, tq%d + 1 };")
add("lang", "block", "{ static _Thread_local int bt%d; static int *bp%d = &bt%d; }", "{ extern _Thread_local int be%d; static int *bq%d = &be%d; }")
# qualifiers that reach an array only through the lvalue (member of a const struct, const-qualified typedef'd array) survive the decay
add("lang", "block", "{ typedef int A%d[4]; const A%d ta%d = { 0 }; ta%d[1] = 2; }", "{ const struct hs *cp%d = gsp; cp%d->arr[1] = 2; }", "{ const struct hs cs%d = { 0 }; cs%d.arr[0] = 1; }",
    "{ const struct hs *cp%d = gsp; *cp%d->arr = 2; }", "{ const struct hs *cp%d = gsp; gp = cp%d->arr; }", "{ typedef int A%d[4]; const A%d ta%d = { 0 }; gp = ta%d; }",
    "{ typedef int A%d[2][2]; const A%d tm%d = { { 0 } }; tm%d[1][1] = 2; }", "{ const struct hs *cp%d = gsp; (cp%d->arr + 1)[0]++; }")
add("lang", "file", "int *bad%d(const struct hs *p) { return p->arr; }", "typedef int TA%d[3]; const TA%d cta%d; void st%d(void) { cta%d[0] = 1; }")

# an array is initialised from a string literal only if the element types agree (6.7.9p14-15): same width is not enough
add("lang", "file", "_Bool q%d[4] = \"abc\";", "_Bool q%d[] = u8\"ab\";", "short q%d[] = u\"ab\";", "int q%d[] = U\"ab\";", "unsigned q%d[] = L\"ab\";", "unsigned q%d[4] = L\"ab\";",
    "struct { int k; short s[3]; } q%d = { 1, u\"ab\" };", "struct { _Bool b[4]; } q%d = { \"abc\" };", "int q%d[2][3] = { U\"ab\", U\"cd\" };", "enum he q%d[] = L\"ab\";",
    "float q%d[] = U\"ab\";", "int *q%d[] = { U\"ab\" };"[:0] or "long q%d[] = L\"ab\";", "unsigned short q%d[] = \"ab\";", "char q%d[] = u\"ab\";", "unsigned char q%d[] = U\"a\";")
add("lang", "block", "{ _Bool lb%d[4] = \"abc\"; }", "{ short ls%d[] = u\"ab\"; }", "{ int lw%d[] = U\"ab\"; }", "{ unsigned lu%d[3] = L\"ab\"; }", "{ static _Bool sb%d[] = \"a\"; }",
    "{ struct { short s[3]; } lm%d = { u\"ab\" }; }")

# the underlying type of an enum is an integer type (C23 6.7.2.2p4)
add("lang", "file", "enum e%d : float { A%d = 1 };", "enum e%d : double;", "typedef float F%d; enum e%d : F%d { A%d };", "enum e%d : void { A%d };", "enum e%d : struct hs { A%d };"[:0] or "enum e%d : float { A%d, B%d };",
    "enum e%d : double { A%d = 0 } q%d;")
add("impl", "file", "enum e%d : unsigned char { A%d, B%d = 255, C%d };", "enum e%d : unsigned { A%d = 0xffffffff, B%d };", "enum e%d : unsigned long { A%d = 0xffffffffffffffff, B%d };")

# a block-scope declaration with linkage is checked against the file-scope declaration of the same identifier (6.2.2p4, 6.7p4)
add("lang", "block", "{ extern long gi; }", "{ extern int gf; }", "{ extern int gi(void); }", "{ extern void gf(void); }", "{ extern const int gi; }", "{ extern int garr[5]; }",
    "{ int gfn2(int); }", "{ extern struct hs gu; }", "{ { extern double gd2%d; } { extern float gd2%d; } }"[:0] or "{ extern float gd; }")
add("lang", "file", "static int sk%d; void sf%d(void) { int sk%d; { extern int sk%d; } }", "int la%d __asm__(\"x%d\"); void lf%d(void) { extern int la%d __asm__(\"y%d\"); }",
    "struct { int a%d; };", "int; int q%d;", "const int;", "_Noreturn int nr%d;", "static inline int si%d;", "struct hs;;"[:0] or "long;")

# an alignment specifier may not be weaker than the alignment of the *declared* type, which the declarator can raise (6.7.5p4)
add("lang", "file", "_Alignas(4) int *q%d;", "_Alignas(2) short sa%d, *ps%d;", "static _Alignas(1) char *tab%d[4];", "_Alignas(4) long (*pa%d)[2];", "_Alignas(4) int (*pf%d)(void);", "_Alignas(int) void *pv%d;",
    "_Alignas(1) char ok%d, **bad%d;")
add("lang", "block", "{ _Alignas(4) int *lq%d; }", "{ static _Alignas(2) short *ls%d; }", "{ _Alignas(4) char *la%d[2]; }")

# ... also when a local without linkage hides the file-scope declaration from the block-scope extern
add("lang", "block", "{ int gi = 0; { extern long gi; } }", "{ int gf = 0; { extern int gf; } }", "{ int gd = 0; { extern float gd; } }", "{ int gfn2 = 0; { int gfn2(int); } }",
    "{ typedef int garr; { extern int garr[5]; } }", "{ enum { gl }; { extern int gl; } }")

add("lang", "file", "struct e%d { _Bool b:2; };", "struct e%d { int a; _Bool :3; };", "union e%d { _Bool b:8; int k; };")

# enumerator values outside a fixed underlying type, written in a type of the other signedness
add("impl", "file", "enum e%d : unsigned long long { A%d = -1 };", "enum e%d : unsigned long { A%d = -1l };", "enum e%d : long long { A%d = 0xffffffffffffffff };",
    "enum e%d : short { A%d = 0xffffffffffff8000 };", "enum e%d : int { A%d = 0xffffffffffffffffu };", "enum e%d : long { A%d = 0x8000000000000000 };",
    "enum e%d : unsigned { A%d = -1 };", "enum e%d : int { A%d = 0xffffffff };", "enum e%d : unsigned char { A%d = -1ll };", "enum e%d : signed char { A%d = 128u };",
    "enum e%d : unsigned short { A%d = 0x10000 };", "enum e%d : _Bool { A%d = 2 };", "enum e%d : long { A%d = 0x7fffffffffffffff, B%d };")

# the result of the comma operator is not an lvalue and not a null pointer constant, whatever its operands are
add("lang", "block", "(0, gi) = 1;", "gp = &(0, gi);", "gp = (0, 0);", "(1, 2, gi)++;", "(0, gs).a = 1;", "gp = &(0, garr);"[:0] or "(0, gi) += 2;", "(1 ? gi : gi) = 2;", "gp = &(0 ? gi : gi);", "(1 ? gi : gl)++;")

add("lang", "file", "_Alignas(int(void)) int q%d;", "_Alignas(struct inc) int q%d;", "_Alignas(void) int q%d;", "_Alignas(int[]) int q%d;", "_Alignas(typeof(gf)) int q%d;")

# a structure with a flexible array member, reached through unions (at any depth), may not be a member of a structure (6.7.2.1p3)
add("lang", "file", "struct fa%d { int n; int v[]; }; union fu%d { struct fa%d m; int k; }; struct fs%d { union fu%d u; int tail; };",
    "struct fb%d { int n; char v[]; }; struct ft%d { int k; union { struct fb%d m; long l; }; int tail; };",
    "struct fc%d { int n; int v[]; }; union fv%d { union { struct fc%d m; int j; } in; int k; }; struct fw%d { union fv%d u; };",
    "struct fd%d { int n; int v[]; }; union fx%d { struct fd%d m; }; union fx%d fy%d[2];",
    "struct fe%d { int n; int v[]; }; struct fe%d fz%d[2];", "struct ff%d { int n; int v[]; }; typedef struct ff%d fft%d; extern fft%d fq%d[];",
    "struct fg%d { int n; int v[]; }; struct fg%d (*fpa%d)[3];", "struct fh%d { int n; int v[]; }; struct fi%d { int k; struct fh%d m; int tail; };",
    "struct fj%d { int n; int v[]; }; struct fk%d { int k; struct fj%d arr[1]; };")

# ---- unsupported features ------------------------------------------------------------------------------------
add("unsup", "file", "_Atomic int q%d;", "_Atomic(int) q%d;", "int _Atomic q%d;", "_Complex double q%d;", "double _Complex q%d;", "long double q%d = 1.0L;", "struct __attribute__((aligned(8))) ua%d { char c; };",
    "struct __attribute__((packed)) up%d { int a:3; };", "__attribute__((aligned(8))) int q%d;", "[[gnu::packed]] int q%d;", "__asm__(\"nop\");", "long double q%d(long double a) { return a + 1; }",
    "int q%d = sizeof(long double) + (int)(long double)1;"[:0] or "void q%d(int n, ...) { __builtin_va_list ap; __builtin_va_start(ap, n); struct hs v = __builtin_va_arg(ap, struct hs); }")
add("unsup", "block", "__asm__(\"nop\");", "{ volatile int vv%d; vv%d = 1; }", "{ long double ld%d = 1; ld%d = ld%d + 1; }", "{ long double le%d = gi; }", "gd = (long double)gi;",
    "gi = ({ 1; });", "gi = gi ?: 2;")
add("unsup", "unit", "#if 1\n#endif\n", "#ifdef A\n#endif\n", "#ifndef A\n#endif\n", "#if 0\n#elif 1\n#endif\n", "#include <stdio.h>\n", "#include \"x.h\"\n", "#error stop\n", "#define C(a, b) a ## b\nint C(x, y);\n",
    "#define D ##\n", "int x;\n#endif\n", "int x;\n#else\n")
# adjacent string literals with contradicting prefixes, wherever the prefixed ones stand in the run (6.4.5p2)
add("lang", "unit", "void *p = L\"ab\" \"cd\" u\"ef\";\n", "void *p = U\"x\" \"y\" \"z\" u8\"w\";\n", "void *p = \"a\" u\"b\" \"c\" U\"d\";\n", "unsigned short s[] = u\"a\" \"b\" \"c\" \"d\" L\"e\";\n",
    "int n = sizeof(u8\"a\" \"b\" L\"c\");\n", "void f(void) { (void)(L\"a\" \"\" u\"b\"); }\n", "void *p = u\"a\" u\"b\" \"c\" U\"d\";\n", "void *p = U\"a\" \"b\" U\"c\" \"d\" u\"e\";\n")
# ---- lexical / preprocessor (scan.c, pp.c) -----------------------------------------------------------------------
add("lang", "unit", "int c = '\\q';\n", "char s[] = \"\\q\";\n", "char s[] = \"\\x\";\n", "int c = '\\xg';\n", "int c = 'a\n';\n", "char s[] = \"ab\ncd\";\n", "int c = 'a", "char s[] = \"abc", "int x; /* open comment",
    "char s[] = L\"a\" u\"b\";\n", "char s[] = \"\\400\";\n", "int c = '';\n", "#define\n", "#define 1 2\n", "#define F(x\n", "#define F(x,) x\n", "#define F(x x) x\n", "#define F(..., x) x\n", "#define F(x) #y\n",
    "#define F(x) #\n", "#define A __VA_ARGS__\n", "#define A(x) __VA_ARGS__\n", "#undef\n", "#undef 1\n", "#undef A B\n", "#define A 1\n#define A 2\n", "#define F(x) x\n#define F(y) y\n",
    "#define F(x) x\nint y = F(1, 2);\n", "#define F(x, y) x\nint y = F(1);\n", "#define F() 1\nint y = F(1);\n", "#define F(x) x\nint y = F(\n", "#define F(x) x\nint y = F(1\n", "#foo\n", "#line\n", "#line x\n",
    "#line 1 2\n", "# 1 x\n", "#define A 1 extra\n#define A 1\n", "int x = 1 @ 2;\n", "int x = 1 $ 2;\n", "int `x;\n", "int x = 08;\n", "int x = 0b12;\n", "int x = 1e;\n", "int x = 1e+;\n", "double d = 1.0e+q;\n",
    "double d = 0x1.0;\n", "double d = 1.0ff;\n", "int x = 1uu;\n", "int x = 1lul;\n", "int x = 1LLL;\n", "int x = 0x1g;\n", "[[", "[[x(", "__attribute__((x(", "__attribute__((", "int x __attribute__;\n",
    "int x [[gnu::aligned(3)]];\n", "__attribute__((aligned(3))) int x;\n", "int f(void) { return 1;\n", "int f(void) { if (1) {\n", "int a[] = { 1,\n", "struct s { int a;\n", "int f(int a,\n", "int x = (1 +\n")
add("impl", "unit", "int main(void) { goto l; }\n", "void f(void) { l: ; l: ; }\n", "int x = 1/0;\n", "int a[1/0];\n", "enum { A = 1/0 };\n", "int x = (int)1e100;\n", "unsigned x = (unsigned)-1.5;\n",
    "static int x = (int)(1.0/0.0);\n", "char a[0x7fffffffffffffff][3];\n", "int a[0x4000000000000000];\n", "_Alignas(0x100000000) int x;\n", "enum { A = 0x7fffffffffffffff, B };\n",
    "enum { A = -0x7fffffffffffffff - 1, B = 0x8000000000000000 };\n", "char s[] = \"\udcff\";\n", "char s[] = \"\udcc0\udc80\";\n", "char s[] = \"\udced\udca0\udc80\";\n", "int c = L'\udcf0\udc9f';\n",
    "void f(int a) { switch (a) { case 4294967296: case 0: ; } }\n", "void f(int a) { switch (a) { case -1: case 4294967295: ; } }\n", "typedef int F(void); F f { }\n", "int f(void v) { return 0; }\n",
    "int x = __builtin_types_compatible_p(int, );\n", "int x = __builtin_offsetof(1, a);\n", "void f(void) { int a[*]; }\n", "char *s = \"\"^0;\n", "double d = 1.0 & 2;\n", "void f(struct hs2 { int a; } v) { v ? 1 : 2; }\n",
    "int x = __builtin_alloca;\n", "_BitInt(3) x;\n", "int _BitInt = 1;\n", "#define F(x, y) x y\nint a = F(,,);\n", "int x = '\\08';\n",
    # NaN has no integer part: every comparison of the range check must fail safe
    "int x = (int)(0.0/0.0);\n", "unsigned long u = (unsigned long)(0.0f/0.0f);\n", "long l = 0.0/0.0;\n", "enum { A = (int)(0.0/0.0) };\n",
    "void f(int a) { switch (a) { case (int)(0.0/0.0): ; } }\n", "#define NAN_ (0.0/0.0)\nchar a[(unsigned)NAN_ + 1];\n", "unsigned char c = (unsigned char)-(0.0/0.0);\n",
    "int x = (int)(__builtin_inff() - __builtin_inff());\n", "unsigned x = (unsigned)-1.0;\n", "unsigned long x = (unsigned long)0x1p64;\n", "long x = (long)0x1p63;\n",
    "long x = (long)-0x1.0000000000001p63;\n")

CATALOGUE = E
