"""C18 — a failing stage makes the whole driver invocation fail cleanly (DESIGN 3/C18).

The driver is run with stand-in tools (native/stub.c) that fail on request: per stage instance
one behaviour from {ok, command missing, exit 1 before reading, exit 1 after writing half of the
output, exit 1 after finishing, SIGSEGV, SIGKILL} and a delay before the stage exits.  The oracle
is the list of invariants in the property statement; nothing is predicted about *which* stage the
driver notices first.
"""
import ctypes
import os
import shutil
import signal
import tempfile
import time

from hypothesis import strategies as st

from ..runner import Result, Source, run, sha
from . import c17

ID = "C18"
LEVEL = "fault_enumeration"
RULE = ("fault vectors over pipeline shapes: 1-3 inputs x last stage in {preprocess, compile, codegen, assemble, link}; per stage "
        "instance a behaviour from {ok, command missing, exit 1 before reading, exit 1 after writing half its output, exit 1 after "
        "finishing, SIGSEGV, SIGKILL} and a delay in {0,20,60,150 ms} before it exits; optionally the driver inherits a child it did "
        "not spawn that exits after 0-100 ms (wait() then reports a foreign pid); optionally the other stages of the failing "
        "pipeline are slow (1 s, must be terminated by the driver). Source 'single' enumerates every (shape, stage instance, fault "
        "kind) with one fault, each with fast and with slow neighbours; source 'multi' draws multi-fault vectors, delays, input "
        "types, output sizes (up to 200 kB, larger than a pipe) with Hypothesis. Oracle: any fault => exit status > 0, linker not "
        "started unless every fault is in the link step, no output of the failing or later pipelines and no /tmp/cproc-* named in "
        "a stub record or by -v left, no stage process orphaned or alive after the driver exits, slow stages terminated, "
        "termination within 20 s; no fault => status 0, outputs with the last stage's tag, no temporaries. "
        "non-trivial = a fault in a non-final stage of a >=3-stage pipeline, or in the second/third input; distinct by "
        "(shape, fault vector, delays).")
ASSUMPTIONS = [
    "temporaries are the /tmp/cproc-XXXXXX names that appear in a stand-in's argv or in the -v trace of this invocation; a temporary of a stage that was never spawned and not traced is not seen",
    "orphans are found as children re-parented to the checking process (PR_SET_CHILD_SUBREAPER) whose command name is a stand-in's",
    "the hang rule is 20 s (fault-free runs take ~10 ms), reproduced 3 times",
    "the stand-ins die from SIGTERM/SIGPIPE like the real tools (default dispositions)",
]

TRIPLE = "x86_64-linux-gnu"
KINDS = ["missing", "fail-before", "fail-half", "fail-after", "segv", "kill"]
NONREADING = ("missing", "fail-before", "kill")
DELAYS = [0, 20, 60, 150]
HOLD_MS = 1000
HANG_S = 20
LAST_MODE = {"pp": "E", "cc": "emit-qbe", "qbe": "S", "as": "c", "ld": "link"}
MODE_ARG = {"E": ["-E"], "emit-qbe": ["-emit-qbe"], "S": ["-S"], "c": ["-c"], "link": []}
TYPE_SUFFIX = {"c": ".c", "cpp-output": ".i", "qbe": ".qbe", "assembler": ".s", "assembler-with-cpp": ".S"}

_libc = None


def _subreaper():
    """Orphaned stage processes are re-parented to this process instead of init."""
    global _libc
    if _libc is None:
        _libc = ctypes.CDLL(None, use_errno=True)
        _libc.prctl(36, 1, 0, 0, 0)     # PR_SET_CHILD_SUBREAPER


def _adopted():
    """(pid, state) of stand-in processes whose parent is this process."""
    names = set(c17.TOOL.values())
    return [x for x in _children() if x[2] in names]


def _children():
    me = os.getpid()
    out = []
    names = None
    for e in os.listdir("/proc"):
        if not e.isdigit():
            continue
        try:
            with open("/proc/%s/stat" % e) as f:
                s = f.read()
        except OSError:
            continue
        comm = s[s.index("(") + 1:s.rindex(")")]
        rest = s.rsplit(")", 1)[1].split()
        if int(rest[1]) == me:
            out.append((int(e), rest[0], comm))
    return out


def _reap(pid, kill=False):
    try:
        if kill:
            os.kill(pid, signal.SIGKILL)
        os.waitpid(pid, 0)
    except OSError:
        pass


# ------------------------------------------------------------------------------------------------
# the vector

def shape(case):
    """[(input index, name, [stage kinds run for it])], mode."""
    mode = LAST_MODE[case["last"]]
    out = []
    for i, t in enumerate(case["inputs"]):
        st_ = c17.STAGES_OF[t]
        run_ = [s for s in st_[:st_.index(case["last"]) + 1] if s != "ld"]
        out.append((i, "i%d%s" % (i, TYPE_SUFFIX[t]), run_))
    return out, mode


def vector(case):
    """Behaviour and delay of every stage instance: {(i, stage) or "ld": (beh, delay)}, with the
    slow neighbours filled in.  Returns (vector, first faulty pipeline index or None, link fault?)."""
    pipes, mode = shape(case)
    missing = set(case.get("missing", []))
    v = {}
    for i, _, stages in pipes:
        for s in stages:
            b, d = case["plan"].get("%d:%s" % (i, s), ["ok", 0])
            if s in missing:
                b = "missing"
            v[(i, s)] = (b, d)
    if mode == "link":
        b, d = case["plan"].get("ld", ["ok", 0])
        if "ld" in missing:
            b = "missing"
        v["ld"] = (b, d)
    first = None
    for i, _, stages in pipes:
        if any(v[(i, s)][0] != "ok" for s in stages):
            first = i
            break
    if case.get("hold") and first is not None:
        # Other stages of the failing pipeline sleep HOLD_MS before they exit; the driver has to terminate them.
        # Only where the fault does not depend on the slow stage: downstream of the first fault always;
        # upstream only if some fault of the pipeline happens without reading input.
        stages = pipes[first][2]
        faulty = [k for k, s in enumerate(stages) if v[(first, s)][0] != "ok"]
        anywhere = any(v[(first, stages[k])][0] in NONREADING for k in faulty)
        for k, s in enumerate(stages):
            if v[(first, s)][0] == "ok" and (k > faulty[0] or anywhere):
                v[(first, s)] = ("ok", HOLD_MS)
    return v, first, (mode == "link" and v["ld"][0] != "ok")


def command(case):
    pipes, mode = shape(case)
    args = (["-v"] if case.get("v") else []) + MODE_ARG[mode]
    out = None
    if case.get("o") == "dash":
        # "-o -": standard output for the text-producing modes; an object or executable cannot go there (usage error, nothing started)
        args += ["-o", "-"] if len(pipes) % 2 else ["-o-"]
    elif case.get("o") and (mode == "link" or len(pipes) == 1):
        out = "out.bin"
        args += ["-o", out]
    return args + [name for _, name, _ in pipes], out


def plan_env(case, v):
    pipes, _ = shape(case)
    count = {}
    ent = []
    for i, _, stages in pipes:
        for s in stages:
            count[s] = count.get(s, 0) + 1
            b, d = v[(i, s)]
            if b != "missing" and (b != "ok" or d):
                ent.append("%s#%d=%s:%d" % (c17.TOOL[s], count[s], b, d))
    if "ld" in v and v["ld"][0] != "missing" and v["ld"] != ("ok", 0):
        ent.append("%s#1=%s:%d" % (c17.TOOL["ld"], v["ld"][0], v["ld"][1]))
    return ";".join(ent)


# ------------------------------------------------------------------------------------------------
# observation

def observe(ctx, case):
    _subreaper()
    v, first, linkfault = vector(case)
    d = tempfile.mkdtemp(dir=ctx.wdir())
    top = d
    try:
        missing = sorted({c17.TOOL[k[1] if k != "ld" else "ld"] for k, (b, _) in v.items() if b == "missing"})
        # how the driver is installed and called is no part of the property: a sixth of the cases run it under a very long name
        # (a symbolic link) and a sixth from a very deep directory, so that every message it composes gets long
        how = case.get("argv0")
        if how is None:
            how = {0: "longname", 1: "deep"}.get(int(sha(case)[:6], 16) % 6, "")
        if how == "deep":
            d = os.path.join(d, "p" * 120, "q" * 120)
            os.makedirs(d)
        b = c17.install(ctx, TRIPLE, d, missing=missing)
        drv = os.path.join(b, "cproc")
        if how == "longname":
            drv = os.path.join(b, "cproc-" + "0" * 235)
            os.symlink("cproc", drv)
        w = os.path.join(d, "w")
        cnt = os.path.join(d, "cnt")
        os.makedirs(w)
        os.makedirs(cnt)
        pipes, mode = shape(case)
        for _, name, _ in pipes:
            with open(os.path.join(w, name), "w") as f:
                f.write("IN\n")
        args, out = command(case)
        paths = {k: os.path.join(d, k) for k in ("stdout", "stderr", "log")}
        env = {"PATH": b + ":/usr/bin:/bin", "LC_ALL": "C", "VSTUB_LOG": paths["log"], "VSTUB_DIR": cnt,
               "VSTUB_PLAN": plan_env(case, v), "VSTUB_SIZE": str(case.get("size", 0))}
        t0 = time.time()
        argv = [drv] + args
        if case.get("inherit") is not None:
            # the driver starts life with a child it did not spawn (a wrapper that backgrounds something and then execs the
            # driver); that child exits while the driver waits for its stages, and wait() reports it
            argv = ["/bin/sh", "-c", "sleep %.3f & exec \"$0\" \"$@\"" % (case["inherit"] / 1000.0)] + argv
        with open(paths["stdout"], "wb") as fo, open(paths["stderr"], "wb") as fe:
            p = run(argv, cwd=w, env=env, stdout=fo, stderr=fe, timeout=HANG_S)
        wall = time.time() - t0
        if case.get("inherit") is not None:
            # the inherited child may have been re-parented to this process: collect it
            for _ in range(50):
                try:
                    if os.waitpid(-1, os.WNOHANG)[0] == 0:
                        if not any(c == "sleep" for _, _, c in _children()):
                            break
                        time.sleep(0.01)
                except ChildProcessError:
                    break
        # stage processes the driver left behind (they are our children now)
        orphans = _adopted()
        survivors = []
        if orphans:
            end = time.time() + 0.3
            while time.time() < end:
                time.sleep(0.02)
            survivors = [(pid, comm) for pid, state, comm in _adopted() if state != "Z"]
            for pid, _, _ in _adopted():
                _reap(pid, kill=True)
        recs = c17.read_log(paths["log"])
        with open(paths["stderr"], "rb") as f:
            err = f.read()
        with open(paths["stdout"], "rb") as f:
            sout = f.read(1 << 20)
        temps = c17.temps_named(recs, err)
        left = [t for t in temps if os.path.lexists(t)]
        for t in left:
            try:
                os.unlink(t)
            except OSError:
                pass
        files = {}
        for n in sorted(os.listdir(w)):
            try:
                with open(os.path.join(w, n), "rb") as f:
                    files[n] = f.read(256)
            except OSError:
                files[n] = None
        return dict(rc=p.rc, timeout=p.timeout, wall=wall, recs=recs, stderr=err, stdout=sout, temps=temps, temps_left=left,
                    files=files, orphans=[(pid, comm) for pid, _, comm in orphans], survivors=survivors, args=args, out=out,
                    plan=env["VSTUB_PLAN"], missing=missing)
    finally:
        shutil.rmtree(top, ignore_errors=True)


# ------------------------------------------------------------------------------------------------
# oracle

def outputs_of(case, i, name, out):
    """Names under which pipeline i may leave its output in the working directory."""
    stem = name.rsplit(".", 1)[0]
    names = {stem + ".o", stem + ".s", stem + ".qbe"}
    if out:
        names.add(out)
    return names


def judge(case, obs):
    v, first, linkfault = vector(case)
    pipes, mode = shape(case)
    anyfault = first is not None or linkfault
    started = [r for r in obs["recs"] if "event" not in r]
    viol = []      # (signature, text)
    if obs["rc"] is not None and obs["rc"] < 0:
        viol.append(("driver-killed-by-signal", "the driver itself died from signal %d" % -obs["rc"]))
    if case.get("o") == "dash" and mode in ("c", "link"):
        # refused before anything runs: whatever the stages would have done, nothing may be left behind
        if obs["rc"] in (None, 0):
            viol.append(("object-to-stdout-accepted", "'%s -o -' was not refused (status %s)" % (mode, obs["rc"])))
        if started:
            viol.append(("object-to-stdout-started", "stages were started for '-o -' with an object output: %s" % [r["tool"] for r in started]))
        extra = sorted(set(obs["files"]) - {name for _, name, _ in pipes})
        if extra:
            viol.append(("output-left-behind", "files left behind: %s" % extra))
        if obs["temps_left"]:
            viol.append(("temporary-left-behind", "temporary objects left behind: %s" % obs["temps_left"]))
        return dict(sig=viol[0][0], msg="; ".join(t for _, t in viol)) if viol else None
    if case.get("o") == "dash" and len(pipes) > 1 and mode != "E":
        return None     # several text outputs to one stream: not specified, only the crash/orphan rules above apply
    if obs["survivors"]:
        viol.append(("stage-survives-driver", "stage processes still alive 300 ms after the driver exited: %s" % obs["survivors"]))
    elif obs["orphans"]:
        viol.append(("stage-not-reaped", "the driver exited without reaping stage processes: %s" % obs["orphans"]))
    held = [r for r in obs["recs"] if r.get("event") == "held-out"]
    if held:
        viol.append(("stage-not-terminated", "stages of the failing pipeline were not terminated, they ran their full %d ms: %s"
                     % (HOLD_MS, [(r["tool"], r["n"]) for r in held])))
    if obs["temps_left"]:
        viol.append(("temporary-left-behind", "temporary objects left behind: %s" % obs["temps_left"]))
    ldrun = [r for r in started if r["tool"] == c17.TOOL["ld"]]
    inputs = {name for _, name, _ in pipes}
    if anyfault:
        if obs["rc"] == 0:
            viol.append(("fault-ignored", "exit status 0 although a stage failed"))
        if first is not None and ldrun:
            viol.append(("linked-after-failure", "the link step was started although a compilation stage failed: %s" % ldrun[0]["argv"]))
        # only the outputs of pipelines that contain a fault have to be absent (the driver may or may not
        # go on with other inputs; the one in /repo stops at the first failing pipeline)
        allowed = set(inputs)
        for i, name, stages in pipes:
            if all(v[(i, s)][0] == "ok" for s in stages):
                allowed |= outputs_of(case, i, name, obs["out"])
        if first is None and mode == "link":
            allowed.add(obs["out"] or "a.out")      # the property does not require removing a partial executable
        extra = sorted(set(obs["files"]) - allowed)
        if extra:
            viol.append(("output-left-behind", "output of the failing pipeline left behind: %s"
                         % {n: obs["files"][n][:40] for n in extra}))
    else:
        if obs["rc"] != 0:
            viol.append(("spurious-failure", "exit status %s without any fault; stderr %r" % (obs["rc"], obs["stderr"][-300:])))
        for i, name, stages in pipes:
            if mode == "link":
                continue
            tag = ("TAG %s\n" % c17.TOOL[stages[-1]]).encode()
            if obs["out"]:
                cands = [obs["files"].get(obs["out"])]
            elif mode == "E" or case.get("o") == "dash":
                cands = [obs["stdout"]]
            elif mode == "emit-qbe":
                # cproc.1 says standard output, the driver writes <name>.qbe (C17's subject): either
                cands = [obs["stdout"], obs["files"].get(name.rsplit(".", 1)[0] + ".qbe")]
            else:
                cands = [obs["files"].get(name.rsplit(".", 1)[0] + (".s" if mode == "S" else ".o"))]
            if not any(c is not None and tag in c for c in cands):
                viol.append(("output-missing", "output of %s missing or without the tag %r" % (name, tag)))
        if mode == "link":
            o = obs["files"].get(obs["out"] or "a.out")
            if o is None or not o.startswith(b"TAG vstub-ld\n"):
                viol.append(("output-missing", "executable %s missing or not written by the linker: %r" % (obs["out"] or "a.out", o)))
            if len(ldrun) != 1:
                viol.append(("link-count", "linker started %d times" % len(ldrun)))
    if not viol:
        return None
    return dict(sig=viol[0][0], msg="; ".join(t for _, t in viol))


# ------------------------------------------------------------------------------------------------
# check

def describe(case, obs=None):
    v, first, linkfault = vector(case)
    pipes, mode = shape(case)
    d = {"argv": ["cproc"] + command(case)[0], "size": case.get("size", 0), "inherited-child-exits-after-ms": case.get("inherit"),
         "stages": {("%s#%d" % (k[1], k[0]) if k != "ld" else "ld"): "%s/%dms" % bd for k, bd in v.items() if bd != ("ok", 0)}}
    if obs is not None:
        d["status"] = obs["rc"]
        d["started"] = ["%s#%s" % (r["tool"], r.get("n")) for r in obs["recs"] if "event" not in r]
    return d


def check(case, ctx):
    res = Result()
    res.n = 1
    v, first, linkfault = vector(case)
    pipes, mode = shape(case)
    # Hang rule: no completion within HANG_S, reproduced 3 times.  The number of timeouts seen for a vector
    # is kept in the run's scratch directory, so that the runner's confirmation calls (and Hypothesis
    # re-running a vector while shrinking) add to the count instead of paying 3 x HANG_S again; once one
    # vector of this run has been confirmed 3 times, further vectors are reported after their first
    # timeout and reach 3 reproductions when the runner confirms them.
    mark = os.path.join(ctx.tmp, "hang-" + sha(case))
    confirmed = os.path.join(ctx.tmp, "hang-confirmed")
    nto = 0
    try:
        with open(mark) as f:
            nto = int(f.read() or 0)
    except (OSError, ValueError):
        pass
    obs = None
    while nto < 3:
        obs = observe(ctx, case)
        res.n += 1
        if not obs["timeout"]:
            break
        nto += 1
        with open(mark, "w") as f:
            f.write(str(nto))
        if os.path.exists(confirmed):
            break
    res.n = max(res.n - 1, 1)
    if nto >= 3 or (obs is not None and obs["timeout"]):
        if nto >= 3:
            open(confirmed, "w").close()
        res.fail = dict(sig="hang", msg="the driver did not finish within %d s (%d time(s)): %s" % (HANG_S, nto, describe(case)))
        res.sample = describe(case)
        return res
    if nto:
        os.unlink(mark)
        res.discard.append("timeout-not-reproduced")
        return res
    faults = [(k, b) for k, (b, _) in v.items() if b != "ok"]
    res.labels.append("shape:%d/%s" % (len(pipes), case["last"]))
    res.labels.append("faults:%d" % len(faults))
    for k, b in faults:
        res.labels.append("fault:" + b)
        res.labels.append("at:" + (k if k == "ld" else k[1]))
    if any(d == HOLD_MS for _, d in v.values()):
        res.labels.append("slow-neighbours")
    if case.get("size"):
        res.labels.append("size:%d" % case["size"])
    if case.get("inherit") is not None:
        res.labels.append("inherited-child")
    nontriv = False
    for k, b in faults:
        if k == "ld":
            continue
        stages = pipes[k[0]][2]
        if k[0] >= 1 or (len(stages) >= 3 and k[1] != stages[-1]):
            nontriv = True
    if nontriv:
        res.keys.append(sha(case))
    res.sample = describe(case, obs)
    f = judge(case, obs)
    if f is not None:
        f["msg"] = "%s\n  %s\n  status %s, wall %.2fs, stderr: %s\n  started: %s" % (
            describe(case), f["msg"], obs["rc"], obs["wall"], obs["stderr"][-600:].decode("latin-1").replace("\n", " | "),
            [(r["tool"], r.get("n"), r.get("beh"), r.get("delay")) for r in obs["recs"] if "event" not in r])
        res.fail = f
    return res


# ------------------------------------------------------------------------------------------------
# enumeration and generator

def single_enum(ctx):
    for n in (1, 2, 3):
        for last in c17.ORDER:
            case0 = {"inputs": ["c"] * n, "last": last, "plan": {}, "missing": [], "size": 0, "v": True, "o": False, "hold": False}
            pipes, mode = shape(case0)
            inst = [(i, s) for i, _, stages in pipes for s in stages] + (["ld"] if mode == "link" else [])
            # fault-free vector of the shape
            for o in (False, True, "dash"):
                yield dict(case0, o=o)
            for k, at in enumerate(inst):
                for j, kind in enumerate(KINDS):
                    if kind == "missing" and at != "ld" and at[0] > 0:
                        continue        # the same vector as for the first input: the tool is missing for all
                    for hold in (False, True):
                        if hold and (at == "ld" or len(pipes[at[0]][2]) < 2):
                            continue
                        c = dict(case0, plan={}, missing=[], hold=hold, o=(k + j) % 2 == 0)
                        key = "ld" if at == "ld" else "%d:%s" % at
                        if kind == "missing":
                            c["missing"] = ["ld" if at == "ld" else at[1]]
                        else:
                            c["plan"] = {key: [kind, 0]}
                        yield c
                        if kind in ("fail-after", "fail-half") and not hold and (k + j) % 3 == 0:
                            yield dict(c, o="dash")
                        if kind in ("fail-after", "segv") and not hold:
                            # the same fault 150 ms late, while a process the driver did not spawn exits in between
                            yield dict(c, plan={key: [kind, 150]}, inherit=20)
            yield dict(case0, inherit=0)
            yield dict(case0, inherit=20, plan={("ld" if mode == "link" else "%d:%s" % inst[-1]): ["ok", 60]})


def multi_strategy(ctx):
    beh = st.sampled_from(["ok"] * 12 + KINDS[1:] * 1)
    stage = st.tuples(beh, st.sampled_from(DELAYS)).map(list)

    def build(types, last, stages, ld, missing, size, v, o, hold, inherit):
        ok = [t for t in types if last in c17.STAGES_OF[t]] or ["c"]
        case = {"inputs": ok, "last": last, "plan": {}, "missing": [], "size": size, "v": v, "o": o, "hold": hold}
        if inherit is not None:
            case["inherit"] = inherit
        pipes, mode = shape(case)
        k = 0
        for i, _, sts in pipes:
            for s in sts:
                b = stages[k % len(stages)]
                k += 1
                if b != ["ok", 0]:
                    case["plan"]["%d:%s" % (i, s)] = b
        if mode == "link" and ld != ["ok", 0]:
            case["plan"]["ld"] = ld
        used = {s for _, _, sts in pipes for s in sts} | ({"ld"} if mode == "link" else set())
        if missing in used:
            case["missing"] = [missing]
        return case

    return st.builds(build,
                     st.lists(st.sampled_from(["c", "c", "c", "cpp-output", "qbe", "assembler", "assembler-with-cpp"]), min_size=1, max_size=3),
                     st.sampled_from(c17.ORDER), st.lists(stage, min_size=12, max_size=12), stage,
                     st.sampled_from([None] * 10 + c17.ORDER), st.sampled_from([0, 0, 0, 3000, 100000, 200000]),
                     st.booleans(), st.sampled_from([False, True, False, True, "dash"]), st.sampled_from([False, False, True]), st.sampled_from([None, None, 0, 10, 40, 100]))


def prepare(ctx):
    c17.prepare_drivers(ctx, [TRIPLE])


def sources(ctx):
    return [
        Source("single", check, enum=single_enum, exhaustive=True),
        Source("multi", check, strategy=multi_strategy, examples={"quick": 800, "thorough": 20000}),
    ]
