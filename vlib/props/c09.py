"""C09 — linkage and the object's symbol table follow C11 6.2.2 / 6.9 (DESIGN 3/C09)."""
import itertools
import os
import re
import shutil
import tempfile

from hypothesis import strategies as st

from .. import cproc, ilcheck, qbeil, refcc
from ..runner import Result, Source, run, sha

ID = "C09"
LEVEL = "exploration"
RULE = ("ENUM: all histories of 1-3 (quick: all of length <= 2 and a seed-selected seventh of length 3; thorough: all, plus sampled length 4) declarations of one identifier, each from "
        "{none, static, extern, _Thread_local, static _Thread_local, extern _Thread_local} (objects) or {none, static, extern, inline, extern inline, static "
        "inline} (functions) x {file scope, block scope} x {declaration, definition}, followed by an exported use() that references the identifier. HYP: units "
        "with 3-15 identifiers with interleaved histories, block-scope externs, equally named block-scope statics in different functions, tentative arrays "
        "completed later, __asm__ labels and thread-locals. Observation from the IL: defined symbols {exported?, function/data, thread?, size, all-zero?} and "
        "referenced-but-undefined names. Oracle: the ELF symbol tables of gcc -std=c11 -pedantic-errors -fno-common and clang for the same unit; a history is "
        "used only if both accept it and agree. non-trivial = history of length >= 2 with a redeclaration, tentative definition, inline definition or "
        "block-scope extern; distinct by history text.")
ASSUMPTIONS = ["gcc 12 and clang 14 (-std=c11 -pedantic-errors) are the two reference implementations of 6.2.2/6.9.2/6.7.4; histories on which they differ are discarded",
               "no-linkage statics are compared as multisets of (size, zero-initialised) because their link names are implementation-specific"]

OBJ_SPECS = ["", "static", "extern", "_Thread_local", "static _Thread_local", "extern _Thread_local"]
FN_SPECS = ["", "static", "extern", "inline", "extern inline", "static inline"]


def prepare(ctx):
    cproc.prepare(ctx, ["plain"])


# other spellings of the same function specifiers: the order of the specifiers and a `_Noreturn` among them change nothing about linkage or
# about whether a definition is an inline definition (6.7.4p7)
FN_DECOR = {"": ["_Noreturn"], "static": ["_Noreturn static", "static _Noreturn"], "extern": ["extern _Noreturn", "_Noreturn extern"],
            "inline": ["inline _Noreturn", "_Noreturn inline", "__inline__", "inline _Noreturn inline"],
            "extern inline": ["extern inline _Noreturn", "inline extern", "_Noreturn extern inline", "inline _Noreturn extern"],
            "static inline": ["inline static", "static inline _Noreturn", "inline _Noreturn static"]}


def obj_options():
    return [(s, sc, f) for s in OBJ_SPECS for sc in ("file", "block") for f in ("decl", "def")]


def fn_options():
    return [(s, "file", f) for s in FN_SPECS for f in ("decl", "def")] + [(s, "block", "decl") for s in FN_SPECS]


def render(kind, hist, label=False, arr=None):
    """Source text of a history for identifier `x` (object) or `f` (function).

    label: the first file-scope declaration that can carry one gets an assembler label; every later declaration
    (file or block scope) must inherit it."""
    out = []
    nblock = 0
    for i, (spec, scope, form) in enumerate(hist):
        sp = spec + " " if spec else ""
        lab = ""
        if label and scope == "file" and (kind == "obj" or form == "decl"):
            lab = ' __asm__("lab_x")'
            label = False
        if kind == "obj" and arr:
            # arr: per declaration "" (no length) or a length; the object's type is the composite of all of them (6.2.7)
            d = "%sint x[%s]%s%s;" % (sp, arr[i], lab, " = { 1 }" if form == "def" else "")
        elif kind == "obj":
            d = "%sint x%s%s;" % (sp, lab, " = 1" if form == "def" else "")
        else:
            d = "%sint f(void)%s%s" % (sp, lab, " { return 1; }" if form == "def" else ";")
        if scope == "hblock":
            # the declaration sits in a block nested inside the scope of a local of the same name that has no linkage: it still
            # denotes the file-scope entity (6.2.2p4 looks at the declaration *with linkage* that is visible or was hidden)
            nblock += 1
            nm = "x" if kind == "obj" else "f"
            out.append("void host%d(void) { int %s = 0; { %s %s; } (void)%s; }" % (nblock, nm, d, "x++" if kind == "obj" else "f()", nm))
        elif scope == "block":
            nblock += 1
            out.append("void host%d(void) { %s }" % (nblock, d))
        else:
            out.append(d)
    if arr:
        out.append("int use(void) { %sreturn x[0]; }" % ("" if any(scope == "file" for _, scope, _ in hist) else "extern int x[]; "))
    elif any(scope == "file" for _, scope, _ in hist):
        out.append("int use(void) { return %s; }" % ("x" if kind == "obj" else "f()"))
    else:
        # the identifier is not in scope at file level: refer to it through a block-scope declaration
        out.append("int use(void) { extern int %s; return %s; }" % (("x", "x") if kind == "obj" else ("f(void)", "f()")))
    return "\n".join(out) + "\n"


def elf_table(elf):
    """Normalised symbol table: (named set, local multiset, undefined set)."""
    named = set()
    local = []
    und = set()
    for y in elf.symbols:
        if not y.name or y.type in ("FILE", "SECTION"):
            continue
        if y.shndx == 0:
            if not y.name.startswith("_GLOBAL_OFFSET") and y.name not in ("__tls_get_addr",):
                und.add(y.name if y.type != "TLS" else "thread " + y.name)
            continue
        if y.type not in ("OBJECT", "FUNC", "TLS", "NOTYPE"):
            continue
        if y.name.startswith(".L") or y.name.startswith("$") or y.type == "NOTYPE":
            continue
        kind = {"OBJECT": "data", "TLS": "tls", "FUNC": "func"}[y.type]
        size = y.size if kind != "func" else 0
        zero = None
        if kind != "func":
            b = elf.sym_bytes(y)
            zero = b is None or not any(b)
        if y.bind == "LOCAL" and re.search(r"[.]", y.name):
            local.append((kind, size, zero))
        else:
            named.add((y.name, kind, y.bind == "GLOBAL", size, zero))
    return named, sorted(local), und


def il_table(mod, il):
    named = set()
    local = []
    defined = set()
    for d in mod.data:
        size, img, rel = qbeil.data_image(d)
        zero = not any(img) and not rel
        kind = "tls" if d.thread else "data"
        defined.add(d.name)
        if d.name.startswith(".L"):
            if d.name.startswith(".Lstring"):
                continue
            local.append((kind, size, zero))
        else:
            named.add((d.name, kind, d.export, size, zero))
    for f in mod.funcs:
        defined.add(f.name)
        if f.name.startswith(".L"):
            local.append(("func", 0, None))
        else:
            named.add((f.name, "func", f.export, 0, None))
    refs = set()
    for f in mod.funcs:
        for b in f.blocks:
            for ins in b.insts:
                for v in ins.args + [v for _, v in (ins.cargs or [])]:
                    if v.kind == "glo":
                        refs.add((v.v, bool(v.thread)))
            for p_ in b.phis:
                refs.update((v.v, bool(v.thread)) for _, v in p_.args if v.kind == "glo")
            j = b.jump
            if j and j[0] in ("jnz", "ret") and j[1] is not None and j[1].kind == "glo":
                refs.add((j[1].v, bool(j[1].thread)))
    for d in mod.data:
        refs.update((it.sym, bool(it.thread)) for it in d.items if it.kind == "sym")
    # an undefined reference to a thread-local object is written "thread name" (the ELF side: undefined symbol of type TLS)
    und = {("thread " + r if th else r) for r, th in refs if r not in defined}
    return named, sorted(local), und


def _nozero(t):
    return {x[:4] for x in t[0]}, sorted(x[:2] for x in t[1]), t[2]


def compare(ctx, src, res, what, dropzero=False):
    d = tempfile.mkdtemp(dir=ctx.wdir())
    try:
        path = os.path.join(d, "u.c")
        with open(path, "w") as f:
            f.write(src)
        # validity = both reference compilers translate the unit.  (Not -pedantic-errors: gcc then rejects every history that
        # uses an inline or static function without defining it, clang does not, and the split would discard exactly the
        # histories whose undefined references this check compares.)
        strict = ["-Werror=implicit-function-declaration", "-Werror=implicit-int"]
        gelf, gerr = refcc.gcc_obj(path, os.path.join(d, "g.o"), std="c11", extra=strict)
        celf, cerr = refcc.clang_obj(path, os.path.join(d, "c.o"), "x86_64-sysv", std="c11", extra=strict)
    finally:
        shutil.rmtree(d, ignore_errors=True)
    res.n += 1
    p = cproc.cc(ctx, src.encode(), "x86_64-sysv", "plain")
    if gelf is None or celf is None:
        if gelf is None and celf is None:
            res.labels.append("invalid-history")
            if p.rc == 0:
                res.labels.append("refs-reject-cproc-accepts")
        else:
            res.discard.append("ref-split-validity")
            if os.environ.get("VERIF_DUMP_DISCARDS"):
                dd = os.environ["VERIF_DUMP_DISCARDS"]
                os.makedirs(dd, exist_ok=True)
                with open(os.path.join(dd, "split-%s.c" % sha(src)), "w") as f:
                    f.write("/* gcc: %s\nclang: %s */\n%s" % ((gerr or "ok")[:600], (cerr or "ok")[:600], src))
        return False
    gt, ct = elf_table(gelf), elf_table(celf)
    if gt != ct:
        res.discard.append("ref-split-table")
        return False
    if p.rc != 0:
        msg = p.err.decode(errors="replace")
        sig = "reject:" + re.sub(r"'[^']*'", "X", msg.split("error:")[-1].strip())[:50]
        if "redefined" in msg and "_Thread_local" in src:
            sig = "thread-local-tentative-then-definition"
        # same root (tentative thread-local definitions are emitted at once instead of at the end of the unit): one of
        # unknown length is rejected where it stands
        if "has incomplete type" in msg and re.search(r"(?m)^(static )?_Thread_local int x\[\]( __asm__\(\"lab_x\"\))?;", src):
            sig = "thread-local-tentative-then-definition"
        res.fail = dict(sig=sig,
                        msg="valid unit rejected (%s): %s" % (what, msg[:200]), input=src)
        return False
    mod, errs = ilcheck.validate(p.out)
    if errs:
        res.fail = dict(sig="", msg="malformed IL: %s" % errs[:2], input=src)
        return False
    it = il_table(mod, p.out)
    if dropzero:
        # objects initialised with addresses: the object file holds zeros plus relocations, the IL a symbol reference
        it, gt = _nozero(it), _nozero(gt)
    if it != gt:
        diff = []
        for nm, a, b in (("defined symbols", it[0], gt[0]), ("no-linkage objects", it[1], gt[1]), ("undefined references", it[2], gt[2])):
            if a != b:
                diff.append("%s: cproc %s, gcc/clang %s" % (nm, sorted(a) if isinstance(a, set) else a, sorted(b) if isinstance(b, set) else b))
        res.fail = dict(sig=_sig(src, it, gt), msg="symbol table differs (%s): %s" % (what, "; ".join(diff)), input=src)
        return False
    return True


def _sig(src, it, gt):
    # recorded finding: an inline definition that another declaration turns into an external definition is never emitted
    missing = gt[0] - it[0]
    extra = it[0] - gt[0]
    # (only when the definition itself carries `inline`: a plain definition that follows an inline declaration is not that finding)
    if re.search(r"\b(?:inline|__inline__)\b[^;{]*\{", src) and missing and not extra and all(k == "func" for _, k, _, _, _ in missing) \
            and {n for n, *_ in missing} == it[2] - gt[2] and it[1] == gt[1]:
        return "inline-then-extern"
    return ""


def nontrivial(hist):
    if len(hist) < 2:
        return False
    return True


def hist_enum(ctx):
    k = 0
    for kind, opts in (("obj", obj_options()), ("fn", fn_options())):
        for n in (1, 2, 3):
            for hist in itertools.product(opts, repeat=n):
                k += 1
                if ctx.tier == "thorough" or n <= 2 or (k * 2654435761 + ctx.seed * 97) % 7 == 0:
                    yield {"kind": kind, "hist": [list(h) for h in hist]}
                    if hist[0][1] == "file" and (kind == "obj" or hist[0][2] == "decl") and (n <= 2 or any(h[1] == "block" for h in hist[1:])):
                        yield {"kind": kind, "hist": [list(h) for h in hist], "label": True}
        if kind == "fn":
            for n in (1, 2):
                for hist in itertools.product(opts, repeat=n):
                    for pos in range(n):
                        for j, d in enumerate(FN_DECOR[hist[pos][0]]):
                            k += 1
                            if ctx.tier == "thorough" or n == 1 or (k * 2654435761 + ctx.seed * 97) % 3 == 0:
                                h2 = [list(h) for h in hist]
                                h2[pos][0] = d
                                yield {"kind": kind, "hist": h2, "decor": True}
        # histories with one declaration hidden behind a local without linkage
        hopts = [("extern", "hblock", "decl"), ("", "hblock", "decl")] if kind == "fn" else [("extern", "hblock", "decl"), ("extern _Thread_local", "hblock", "decl"), ("static", "hblock", "decl")]
        # (not with internal linkage at file scope: the hidden declaration then gets external linkage, 6.2.2p4, and the unit is
        # undefined by 6.2.2p7 - gcc and clang accept it silently, cproc diagnoses it)
        fileopts = [o for o in opts if o[1] == "file" and "static" not in o[0]]
        for h in hopts:
            for a in fileopts:
                for order in ((a, h), (h, a)):
                    yield {"kind": kind, "hist": [list(x) for x in order]}
                    if order[0][1] == "file" and (kind == "obj" or order[0][2] == "decl"):
                        yield {"kind": kind, "hist": [list(x) for x in order], "label": True}
                for b in fileopts:
                    k += 1
                    if ctx.tier == "thorough" or (k * 2654435761 + ctx.seed * 97) % 5 == 0:
                        yield {"kind": kind, "hist": [list(a), list(h), list(b)]}
                        if kind == "obj" or a[2] == "decl":
                            yield {"kind": kind, "hist": [list(a), list(h), list(b)], "label": True}
        if kind == "obj":
            # array-typed histories: which declarations give the length
            for n in (1, 2, 3):
                for hist in itertools.product(opts, repeat=n):
                    for arr in itertools.product(("", "3"), repeat=n):
                        k += 1
                        if n <= 2 and (ctx.tier == "thorough" or n == 1 or (k * 2654435761 + ctx.seed * 97) % 3 == 0) or (k * 2654435761 + ctx.seed * 97) % (23 if ctx.tier == "thorough" else 211) == 0:
                            yield {"kind": kind, "hist": [list(h) for h in hist], "arr": list(arr)}
        if ctx.tier == "thorough":
            for hist in itertools.product(opts, repeat=4):
                k += 1
                if (k * 2654435761) % 41 == 0:
                    yield {"kind": kind, "hist": [list(h) for h in hist]}


def hist_check(case, ctx):
    res = Result()
    hist = [tuple(h) for h in case["hist"]]
    src = render(case["kind"], hist, case.get("label", False), case.get("arr"))
    ok = compare(ctx, src, res, "history")
    if case.get("label"):
        res.labels.append("asm-label-history" + ("-valid" if ok else ""))
    if case.get("decor"):
        res.labels.append("respelled-function-specifiers" + ("-valid" if ok else ""))
    if ok and nontrivial(hist):
        res.keys.append(sha(src))
    if ok:
        res.labels.append("valid-history-len%d" % len(hist))
        if case.get("arr") and len(set(case["arr"])) == 2:
            res.labels.append("valid-array-history-mixed-lengths")
    res.sample = {"history": src}
    return res


# ---- random multi-identifier units --------------------------------------------------------------------

@st.composite
def units(draw):
    n = draw(st.integers(3, 15))
    lines = []
    uses = []
    nhost = [0]
    for i in range(n):
        nm = "id%d" % i
        k = draw(st.sampled_from(["obj", "obj", "fn", "array", "asm", "tls", "blockstatic", "blockextern", "latetag"]))
        if k == "obj":
            hist = draw(st.lists(st.sampled_from(["int %s;", "extern int %s;", "int %s = %d;", "static int %s;", "static int %s = %d;"]), min_size=1, max_size=3))
            for h in hist:
                lines.append(h % ((nm, i + 1) if "%d" in h else (nm,)))
            uses.append(nm)
        elif k == "fn":
            hist = draw(st.lists(st.sampled_from(["int %s(void);", "extern int %s(void);", "static int %s(void);", "int %s(void) { return %d; }", "static int %s(void) { return %d; }",
                                                  "inline int %s(void) { return %d; }", "extern inline int %s(void) { return %d; }", "static inline int %s(void) { return %d; }"]),
                                 min_size=1, max_size=3))
            for h in hist:
                lines.append(h % ((nm, i + 1) if "%d" in h else (nm,)))
            uses.append(nm + "()")
        elif k == "array":
            lines.append("int %s[];" % nm)
            how = draw(st.integers(0, 2))
            if how == 0:
                lines.append("int %s[%d];" % (nm, draw(st.integers(1, 9))))
            elif how == 1:
                lines.append("int %s[] = { 1, 2, 3 };" % nm)
            uses.append(nm + "[0]")
        elif k == "asm":
            lab = draw(st.sampled_from(["plain_label", "with.dot", "x$y", "_under"])) + str(i)
            form = draw(st.integers(0, 4))
            if form == 0:
                lines.append("int %s __asm__(\"%s\") = %d;" % (nm, lab, i))
            elif form in (1, 2):
                lines.append("extern int %s __asm__(\"%s\");" % (nm, lab))
                if form == 2:
                    lines.append("int %s = %d;" % (nm, i))
            else:
                lines.append("int %s(void) __asm__(\"%s\");" % (nm, lab))
                if form == 4:
                    lines.append("int %s(void) { return %d; }" % (nm, i))
            isfn = form >= 3
            # later declarations without the label (file or block scope, possibly nested) inherit it
            for _ in range(draw(st.integers(0, 2))):
                nhost[0] += 1
                redecl = ("int %s(void);" if isfn else "extern int %s;") % nm
                use_ = nm + ("()" if isfn else "")
                where = draw(st.integers(0, 2))
                if where == 0:
                    lines.append(redecl)
                elif where == 1:
                    lines.append("int host%d(void) { %s return %s; }" % (nhost[0], redecl, use_))
                else:
                    lines.append("int host%d(int c) { if (c) { %s return %s; } return 0; }" % (nhost[0], redecl, use_))
            uses.append(nm + ("()" if isfn else ""))
        elif k == "latetag":
            # tentative definition while the struct/union type is still incomplete, completed later (C11 6.9.2p2), optionally
            # declared again after the completion
            su = draw(st.sampled_from(["struct", "union"]))
            body = draw(st.sampled_from(["long a; char b;", "char c[3];", "double d; int i;", "short s;", "int i; char c[5];"]))
            lines.append("%s%s lt%d %s;" % (draw(st.sampled_from(["", "", "static "])), su, i, nm))
            lines.append("%s lt%d { %s };" % (su, i, body))
            if draw(st.integers(0, 2)) == 0:
                lines.append("%s lt%d %s;" % (su, i, nm))
            lines.append("void *keep%d(void) { return &%s; }" % (i, nm))
        elif k == "tls":
            lab = draw(st.sampled_from(["", "", " __asm__(\"tl_lab%d\")" % i]))
            lines.append("%s_Thread_local int %s%s%s;" % (draw(st.sampled_from(["", "static ", "extern "])), nm, lab, draw(st.sampled_from(["", " = 5"]))))
            uses.append(nm)
        elif k == "blockstatic":
            for _ in range(draw(st.integers(1, 3))):
                nhost[0] += 1
                lines.append("int host%d(void) { static int counter%s; return ++counter; }" % (nhost[0], draw(st.sampled_from(["", " = 3", "[4]"]))).replace("++counter;", "1;") if False else
                             "int host%d(void) { static int counter%s; return 1; }" % (nhost[0], draw(st.sampled_from(["", " = 3"]))))
        else:
            nhost[0] += 1
            lines.append("int host%d(void) { extern int %s; return %s; }" % (nhost[0], nm, nm))
            if draw(st.booleans()):
                lines.append("int %s = %d;" % (nm, i))
    draw(st.randoms(use_true_random=False)).shuffle(lines) if False else None
    lines.append("int use(void) { return %s; }" % (" + ".join(uses) if uses else "0"))
    return "\n".join(lines) + "\n"


def unit_check(case, ctx):
    res = Result()
    ok = compare(ctx, case, res, "unit")
    if ok:
        res.keys.append(sha(case))
        res.labels.append("valid-unit")
    res.sample = {"unit": case[:300]}
    return res


def input_check(case, ctx):
    res = Result()
    compare(ctx, case["src"], res, "input")
    if res.fail is not None and case.get("sig"):
        res.fail["sig"] = case["sig"]
    res.keys.append(sha(case["src"]))
    return res


# ---- hand-written units: thread-local objects whose initialisers make the compiler emit further (anonymous) objects ---------
TLS_UNITS = [
    "_Thread_local const char *name = \"x\";\nstatic _Thread_local int *slot = (int[]){ 1, 2 };\n_Thread_local int plain = 3;\nint use(void) { return name[0] + slot[0] + plain; }\n",
    "static _Thread_local const char *tab[2] = { \"ab\", \"cd\" };\nconst char *other = \"ef\";\nint use(void) { return tab[1][0] + other[0]; }\n",
    "_Thread_local struct { const char *s; int *p; } rec = { \"name\", (int[]){ 7 } };\nint after = 1;\nint use(void) { return rec.s[0] + *rec.p + after; }\n",
    "int before = 2;\n_Thread_local char buf[4] = \"abc\";\n_Thread_local const char *p1 = \"abc\", *p2 = \"abc\";\nint use(void) { return buf[0] + p1[0] + p2[1] + before; }\n",
    "void host(void) { static _Thread_local const char *ls = \"in\"; static const char *ns = \"out\"; (void)ls; (void)ns; }\n_Thread_local int t0;\nint use(void) { return t0; }\n",
    "extern _Thread_local int te;\n_Thread_local int *pt;\nstatic int *np = (int[]){ 1 };\nint use(void) { return te + (pt != 0) + *np; }\n",
]


def tls_enum(ctx):
    for i in range(len(TLS_UNITS)):
        yield {"unit": i}


def tls_check(case, ctx):
    res = Result()
    src = TLS_UNITS[case["unit"]]
    ok = compare(ctx, src, res, "tls unit", dropzero=True)
    if ok:
        res.keys.append(sha(src))
        res.labels.append("tls-unit-valid")
    res.sample = {"tls-unit": src[:120]}
    return res


def sources(ctx):
    return [
        Source("input", input_check, enum=lambda ctx: iter(())),
        Source("histories", hist_check, enum=hist_enum, exhaustive=True),
        Source("tls-units", tls_check, enum=tls_enum, exhaustive=True),
        Source("units", unit_check, strategy=lambda c: units(), examples={"quick": 400, "thorough": 10000}),
    ]
