"""C12 — macro definition and expansion follow C11 6.10.3 on the implemented subset (DESIGN 3/C12)."""
import os
import shutil
import tempfile

from hypothesis import strategies as st

from .. import clex, cproc
from ..runner import Result, Source, run, sha
from .c13 import KEYWORDS, dump

ID = "C12"
LEVEL = "exploration"
RULE = ("Hypothesis macro sets (<= 12 macros over a small identifier alphabet so that self/mutual reference and parameter names shadowing macro names are "
        "frequent: object-like, function-like with 0-4 parameters, variadic, #param, bodies with keywords/literals/punctuators/macro names with and without "
        "'(', #undef/#define histories) and uses (nested invocations, arguments with nested parentheses/commas/empty arguments, invocations split across "
        "lines, every macro expanded several times, function-like names at the end of a replacement list picking up '(' from the source). (tokens) hook H1 "
        "token stream of cproc-qbe -E compared with the expansion on which `cpp -P` and `clang -E -P` agree (re-lexed by clex); (compile) IL of a program "
        "using arithmetic macros byte-identical to the IL of its cpp-expanded text; (redef) redefinitions accepted iff benign per 6.10.3p2; (errors) wrong "
        "argument counts and unterminated invocations rejected when both references reject. non-trivial = >= 2 replacements with one nested in an argument "
        "or rescan, or a hide-set decision; distinct by (macro set, use) text.")
ASSUMPTIONS = ["gcc's cpp and clang -E are two independent reference preprocessors; a case is used only when they agree after re-lexing",
               "hook H1 shows the token stream next() produces under -E"]

REF_ENV = {"PATH": "/usr/bin:/bin", "LC_ALL": "C"}


def prepare(ctx):
    cproc.prepare(ctx, ["hook", "plain"])


NAMES = ["A", "B", "C", "F", "G", "H"]
PARAMS = ["x", "y", "z", "A", "F"]
ATOMS = ["1", "2", "x", "y", "q", "+", "-", "*", ",", "(", ")", "int", "while", "\"s\"", "'c'", "0x1p3", ".", "...", "->", "[", "]", ";", "=", "sizeof", "_Bool"]


@st.composite
def macro_defs(draw, arithmetic=False, strict=False):
    """List of directive lines defining <= 12 macros, plus bookkeeping: {name: ('obj'|'fn', nparams, variadic)}."""
    lines = []
    table = {}
    n = draw(st.integers(1, 8))
    for _ in range(n):
        name = draw(st.sampled_from(NAMES))
        if name in table:
            lines.append("#undef %s" % name)
        kind = draw(st.sampled_from(["obj", "fn", "fn", "fn"]))
        if kind == "obj":
            body = draw(body_tokens([], arithmetic, strict))
            lines.append("#define %s %s" % (name, body))
            table[name] = ("obj", 0, False)
        else:
            np_ = draw(st.integers(0, 4))
            params = draw(st.permutations(PARAMS))[:np_]
            variadic = (not arithmetic) and draw(st.integers(0, 4)) == 0
            plist = list(params) + (["..."] if variadic else [])
            pnames = list(params) + (["__VA_ARGS__"] if variadic else [])
            body = draw(body_tokens(pnames, arithmetic, strict))
            lines.append("#define %s(%s) %s" % (name, ", ".join(plist), body))
            table[name] = ("fn", np_, variadic)
    return lines, table


@st.composite
def body_tokens(draw, params, arithmetic, strict=False):
    n = draw(st.integers(0, 7))
    out = []
    if arithmetic:
        # a fully parenthesised integer expression over parameters, numbers and other macro names used as values
        def ex(depth):
            k = draw(st.integers(0, 5))
            if depth <= 0 or k <= 1:
                if params and draw(st.booleans()):
                    return "(%s)" % draw(st.sampled_from(params))
                return str(draw(st.integers(0, 9)))
            if k == 2:
                return draw(st.sampled_from(["A", "B", "C"]))     # object-like use (may be undefined: then an identifier `A`... see `compile` source)
            if k == 3:
                return "%s(%s)" % (draw(st.sampled_from(["F", "G", "H"])), ", ".join(ex(depth - 1) for _ in range(draw(st.integers(0, 2)))))
            return "(%s %s %s)" % (ex(depth - 1), draw(st.sampled_from(["+", "-", "*", "|", "&"])), ex(depth - 1))
        return ex(2)
    for _ in range(n):
        k = draw(st.integers(0, 9))
        if k <= 2 and params:
            p = draw(st.sampled_from(params))
            # avoid(stringify-arg-with-invocation): '#' only appears in "strict" units, which contain no invocation nested
            # in an argument (neither at a call site nor inside a replacement list)
            if strict and draw(st.integers(0, 2)) == 0:
                out.append("#" + draw(st.sampled_from(["", " "])) + p)
            else:
                out.append(p)
        elif k <= 5:
            nm = draw(st.sampled_from(NAMES))
            out.append(nm + draw(st.sampled_from(["", "", "()", "(1)", "(x, y)", "(,)"] + ([] if strict else ["("]))))
        else:
            a = draw(st.sampled_from(ATOMS))
            out.append("[" if strict and a == "(" else a)
    return draw(st.sampled_from([" ", "  "])).join(out)


@st.composite
def uses(draw, table, plain_args=False):
    """A few lines of tokens that invoke the macros in many shapes."""
    out = []
    names = sorted(table) or ["A"]
    for _ in range(draw(st.integers(1, 6))):
        nm = draw(st.sampled_from(names + NAMES[:2]))
        kind, np_, var = table.get(nm, ("obj", 0, False))
        shape = draw(st.integers(0, 9))
        if kind == "obj" or shape == 0:
            out.append(nm)
        else:
            nargs = np_ if shape < 8 else draw(st.integers(0, 5))
            if var:
                nargs = np_ + draw(st.integers(1, 3))
            args = []
            for _ in range(nargs):
                pool = ["1", "x", "", "(a, b)", "f(1, 2)", "a b", "\"s,t\"", "','", "(", "[1, 2]", "-1", "\"a\\\"b\"", "'\\''", "a  +   b", "/*c*/ q",
                        # line breaks inside an argument are white space like any other, for substitution and for # (6.10.3p10)
                        "p\nq", "unsigned\nlong", "(a,\nb)", "x +\ny", "\"s\"\n\"t\"", "a\n\nb", "a /*c*/\nb", "a\n  b", "a \nb", "-\n-x", "1\n.\n2",
                        # a backslash-newline is deleted before tokens are formed: it is not white space and may sit inside a token
                        "1+\\\n2", "p\\\nq", "x\\\n+y", "a+\\\n\\\nb", "\"s\\\nt\"", "1\\\n.5", "a \\\n b", "<\\\n<"]
                if not plain_args:
                    # avoid(stringify-arg-with-invocation): a recorded finding; see known_findings.json
                    pool += ["A", "B", "F", "G(1)", "F(F(2))", "H", "C(3)(4)"]
                a = draw(st.sampled_from(pool))
                if a == "(":
                    a = "(())"
                args.append(a)
            if np_ == 0 and not var and nargs == 0:
                argt = ""
            else:
                argt = draw(st.sampled_from([", ", ",", " , ", ",\n"])).join(args)
            sep = draw(st.sampled_from(["", "", " ", "\n", " /*c*/ "]))
            out.append("%s%s(%s)" % (nm, sep, argt))
        out.append(draw(st.sampled_from([" ", " ", " + ", "\n", " ; "] + ([] if plain_args else [" ( 7 ) ", " (", " ) "]))))
    return "".join(out)


@st.composite
def token_cases(draw):
    strict = draw(st.booleans())
    lines, table = draw(macro_defs(strict=strict))
    text = list(lines)
    more_sets = []
    for _ in range(draw(st.integers(1, 4))):
        text.append(None)
        if draw(st.integers(0, 3)) == 0:
            more, t2 = draw(macro_defs(strict=strict))
            text.extend("#undef %s" % k for k in t2 if k in table)
            text.extend(more)
            more_sets.append(t2)
    tab = dict(table)
    out = []
    k = 0
    for ln in text:
        if ln is None:
            out.append(draw(uses(tab, plain_args=strict)))
        else:
            out.append(ln)
            if ln.startswith("#define") and more_sets and k < len(more_sets):
                tab.update(more_sets[k])
    if draw(st.integers(0, 2)) == 0:
        # invocations that begin inside one macro's replacement list and are completed by the text after it (C11 6.10.3.4p4,
        # example 5 of 6.10.3.5), with macros that expand to commas, parentheses or nothing in the completing text
        out.append("#define ZFST(a, ...) a\n#define ZID(a) [a]\n#define ZTWO(a, b) <a|b>\n#define ZPAIR 2, 40\n#define ZONE 1\n#define ZNONE\n"
                   "#define ZCL )\n#define ZOPF ZFST(1 +\n#define ZOPI ZID(1 +\n#define ZOPT ZTWO(3 ZNONE\n#define ZOPN ZID\n#define ZOPV ZFST(ZPAIR\n"
                   + ("" if strict else "#define ZSTR(x) #x x\n#define ZOPS ZSTR(p\n"))
        # parameters that are ONLY stringized: their arguments are not macro-expanded at all (6.10.3.1p1), also when they
        # contain invocations of function-like macros (the recorded finding concerns parameters used both ways)
        out.append("#define ZS(x) #x\n#define ZV(...) #__VA_ARGS__\n#define ZC(c, d) chk(#c, d)\n#define ZW(a) #a #a")
        sargs = ["ZID(7)", "ZTWO(1, 2) + 3", "ZID (7)", "ZFST(1)", "ZFST(1, 2, 3)", "ZONE ZID(ZONE)", "ZID(ZID(1))", "ZNONE ZID()", "ZTWO(1)", "ZS(ZID(2))", "ZONE\nZONE", "1\n+2", "a\nb\n\nc", "(1,\n(2,\n3))", "+\n+", "<\n<", "a\n", "1+\\\n2", "u-\\\nv", "p\\\nq+\\\nr", "ZO\\\nNE", "ZONE\\\n ZONE"]
        for _ in range(draw(st.integers(1, 4))):
            a1 = draw(st.sampled_from(sargs))
            out.append(draw(st.sampled_from(["ZS(%s) ;", "ZV(%s) ;", "ZV(%s, ZID(3)) ;", "ZC(%s, ZID(4)) ;", "ZW(%s) ;", "ZS( %s ) ;"])) % a1)
        # the name of a function-like macro that is not invoked, last token of its line, followed at the start of the next
        # line by something else, inside an argument that is expanded and then stringized: the line break is white space
        out.append("#define ZXS(x) ZS(x)\n#define ZXW(x) ZS(x) x")
        for _ in range(draw(st.integers(0, 3))):
            out.append(draw(st.sampled_from(["ZXS(ZID\n-1) ;", "ZXS(a ZID\nb) ;", "ZXW(ZTWO\n+ ZONE) ;", "ZXS(ZID\n\n[3]) ;", "ZXS(ZID /*c*/\n- 2) ;", "ZXS((ZID\n, ZFST\n)) ;",
                                             "ZXS(ZID\n ZID\n(4)) ;", "x ZID\ny ;", "ZS(ZID\n-1) ;"])))
        # a function-like macro name that ends an argument whose parameter ends the replacement list: after substitution the
        # expander looks past the end of the exhausted frames for a '(' and, finding none, must still have the name token
        # replacement lists written over spliced lines, stringized at a second level; a benign redefinition without the splice
        out.append("#define ZSP p+\\\nq\n#define ZSQ(a, b) ZXS(a-\\\nb)\n#define ZSP p+q")
        for _ in range(draw(st.integers(0, 2))):
            out.append(draw(st.sampled_from(["ZXS(ZSP) ;", "ZSQ(u, v) ;", "ZS(ZSP) ZXS(ZSP) ;", "ZSQ(ZSP, ZONE) ;"])))
        out.append("#define ZLAST(x) x\n#define ZLAST2(a, b) a b")
        for _ in range(draw(st.integers(0, 3))):
            out.append(draw(st.sampled_from(["ZLAST(1 + ZID) ;", "ZLAST(ZID) + 1 ;", "ZLAST(int ZFST) = 3 ;", "ZLAST(ZLAST(2 * ZTWO)) ;", "ZLAST2(1, ZID) ;", "ZLAST2(ZID, ZTWO) - ZONE ;",
                                             "ZLAST(a b c d e f g h i j k l m n o p q r s t u v w x y z ZID) ;", "ZLAST(ZID)\n(5) ;", "ZLAST(ZID) ZLAST(ZTWO) (1, 2) ;", "ZLAST(ZS) (q) ;"])))
        tails = ["ZPAIR, 9)", "ZONE)", "ZPAIR)", "ZONE, ZPAIR)", ", ZPAIR)", "ZNONE, ZNONE ZONE)", "(ZPAIR))", "ZCL", "ZONE ZCL", ", ZONE ZCL ZCL", "ZNONE ) ZONE"]
        heads = ["ZOPF", "ZOPI", "ZOPT", "ZOPV", "ZOPN (", "ZOPN ZNONE ("] + ([] if strict else ["ZOPS"])
        for _ in range(draw(st.integers(1, 5))):
            out.append("%s %s ;" % (draw(st.sampled_from(heads)), draw(st.sampled_from(tails))))
    if draw(st.integers(0, 2)) == 0:
        # histories use -> identical (benign) redefinition -> use over macros that reach themselves through other macros: the
        # redefinition changes nothing, recursion stays suppressed exactly as before it (6.10.3p2, 6.10.3.4p2)
        rdefs = {"ZRA": "#define ZRA ZRB", "ZRB": "#define ZRB ZRA", "ZRSTEP": "#define ZRSTEP 1", "ZRLV": "#define ZRLV (ZRSTEP + ZRLV)",
                 "ZRF": "#define ZRF(x) ZRG(x) +", "ZRG": "#define ZRG(x) ZRF(x) x", "ZRS": "#define ZRS ZRS ZRA"}
        out.extend(rdefs.values())
        ruses = ["ZRA ;", "ZRB ;", "ZRLV ;", "ZRF(1) ;", "ZRG(ZRA) ;", "ident ;", "ZRS ;", "ZRLV ZRLV ;", "ZRF(ZRLV) ;", "ZRSTEP ;"]
        for _ in range(draw(st.integers(2, 8))):
            if draw(st.integers(0, 2)) == 0:
                out.append(rdefs[draw(st.sampled_from(sorted(rdefs)))])
            else:
                out.append(draw(st.sampled_from(ruses)))
    return "\n".join(out) + "\n"


def ref_tokens(ctx, text, d):
    """-> (tokens, None) if both reference preprocessors accept and agree; (None, reason) otherwise."""
    path = os.path.join(d, "m.c")
    with open(path, "w") as f:
        f.write(text)
    outs = []
    for cmd in (["cpp", "-P", "-undef", "-nostdinc", "-std=c11", "-pedantic-errors", path], ["clang", "-E", "-P", "-undef", "-nostdinc", "-std=c11", "-pedantic-errors", "-Wno-gnu-zero-variadic-macro-arguments", path]):
        p = run(cmd, env=REF_ENV, timeout=30)
        if p.rc != 0:
            outs.append(None)
            continue
        try:
            toks = []
            for tk in clex.lex(p.out.decode("utf-8", "replace"), keep_newlines=False):
                if tk.kind == "ident" and tk.s in KEYWORDS:
                    toks.append(("keyword", KEYWORDS[tk.s]))
                else:
                    toks.append((tk.kind, tk.s))
            outs.append(toks)
        except clex.LexError:
            outs.append(None)
    if outs[0] is None and outs[1] is None:
        return None, "both-reject"
    if outs[0] is None or outs[1] is None:
        return None, "ref-split-accept"
    if outs[0] != outs[1]:
        return None, "ref-split-tokens"
    return outs[0], None


def nontrivial(text):
    body = [ln for ln in text.splitlines() if not ln.startswith("#")]
    used = sum(1 for ln in body for n in NAMES if n in ln)
    return used >= 2 and ("(" in "".join(body))


def token_check(case, ctx):
    res = Result()
    res.n = 1
    text = case
    d = tempfile.mkdtemp(dir=ctx.wdir())
    try:
        want, why = ref_tokens(ctx, text, d)
    finally:
        shutil.rmtree(d, ignore_errors=True)
    rc, toks, err = dump(ctx, text)
    toks = [t for t in toks if t[0] != "newline"]
    res.sample = {"text": text[:300]}
    if want is None:
        res.labels.append(why)
        if why == "both-reject":
            if rc == 0:
                # both references diagnose the unit: cproc must not accept it silently ... unless the diagnostic is about
                # something cproc legitimately does not check in -E mode; only invocation errors are asserted
                d2 = err
                res.labels.append("both-reject-cproc-accepts")
                res.discard.append("both-reject-cproc-accepts (asserted by the 'errors' source only)")
            return res
        res.discard.append(why)
        return res
    if rc != 0:
        msg = err.decode(errors="replace")
        if "not yet implemented" in msg or "is not implemented" in msg:
            res.discard.append("unimplemented-directive")
            return res
        sig = "reject:" + msg.split("error:")[-1].strip()[:40]
        # recorded finding (same root as stringify-arg-with-invocation: arguments are expanded while they are collected): a macro
        # whose replacement list leaves an invocation open, expanded inside an argument, swallows the closing parenthesis of the
        # outer invocation.  Only for units that contain such an unbalanced replacement list.
        if "EOF when reading macro parameters" in msg and any(ln.count("(") > ln.count(")") for ln in text.splitlines() if ln.startswith("#define") and "(" in ln.split(None, 2)[-1]):
            sig = "open-invocation-expanded-inside-argument"
        res.fail = dict(sig=sig, msg="valid macro usage rejected: %s" % msg[:200], input=text)
        return res
    if toks != want:
        i = 0
        while i < min(len(toks), len(want)) and toks[i] == want[i]:
            i += 1
        res.fail = dict(sig="", msg="expansion differs at token %d: cproc %s, cpp and clang %s" % (i, toks[i:i + 6], want[i:i + 6]), input=text)
        return res
    if nontrivial(text):
        res.keys.append(sha(text))
    for lab, pat in (("stringify", "#x"), ("variadic", "__VA_ARGS__"), ("undef", "#undef"), ("split-invocation", ",\n")):
        if pat in text or (lab == "stringify" and any(("#" + p) in text or ("# " + p) in text for p in PARAMS)):
            res.labels.append(lab)
    return res


# ---- compile path ------------------------------------------------------------------------------------------

@st.composite
def compile_cases(draw):
    lines, table = draw(macro_defs(arithmetic=True))
    # make sure every name an arithmetic body may mention is defined with a suitable arity, so the program is valid C
    have = dict(table)
    pre = []
    for nm in ("A", "B", "C"):
        if have.get(nm, ("fn",))[0] != "obj":
            pre.append("#undef %s\n#define %s %d" % (nm, nm, draw(st.integers(0, 9))))
            have[nm] = ("obj", 0, False)
    body = []
    for i in range(draw(st.integers(1, 6))):
        nm = draw(st.sampled_from(["A", "B", "C"]))
        body.append("int v%d = %s + %d;" % (i, nm, i))
    if draw(st.booleans()):
        # macro names in the places where the parser consumes an identifier's spelling: member designators, member access,
        # offsetof, labels and tags (each macro is used several times: its stored replacement list must stay intact)
        body.append("struct zs { int zx, zy; struct { int zi; } zn; };\n#define ZM zx\n#define ZN zn\n#define ZI zi\n#define ZT zs\n#define ZL zlab")
        for i in range(draw(st.integers(2, 4))):
            k = draw(st.integers(0, 5))
            body.append(["struct zs zv%d = { .ZM = %d, .ZN.ZI = 2 };", "int zo%d = __builtin_offsetof(struct zs, ZM) + %d;", "int zp%d = __builtin_offsetof(struct ZT, ZN.ZI) + %d;",
                         "int zf%d(struct ZT *p) { ZL: if (p->ZM == %d) goto ZL; return p->ZN.ZI; }", "struct ZT zw%d = { %d, .ZN = { .ZI = 1 } };",
                         "int zs%d = sizeof(((struct zs *)0)->ZN.ZI) + %d;"][k] % (i, i))
    return "\n".join(lines + pre + body) + "\n"


def compile_check(case, ctx):
    res = Result()
    res.n = 1
    text = case
    d = tempfile.mkdtemp(dir=ctx.wdir())
    try:
        path = os.path.join(d, "p.c")
        with open(path, "w") as f:
            f.write(text)
        p = run(["cpp", "-P", "-undef", "-nostdinc", "-std=c11", path], env=REF_ENV, timeout=30)
        q = run(["clang", "-E", "-P", "-undef", "-nostdinc", "-std=c11", path], env=REF_ENV, timeout=30)
    finally:
        shutil.rmtree(d, ignore_errors=True)
    if p.rc != 0 or q.rc != 0:
        res.discard.append("reference-rejects")
        return res
    a = cproc.cc(ctx, text.encode(), "x86_64-sysv", "plain")
    b = cproc.cc(ctx, p.out, "x86_64-sysv", "plain")
    res.sample = {"program": text[:300]}
    if b.rc != 0:
        res.discard.append("expanded-text-not-valid-C")   # e.g. F used with the wrong arity inside a body: an identifier call
        return res
    if a.rc != 0:
        res.fail = dict(sig="", msg="program with macros rejected although its expanded text compiles: %s" % a.err.decode(errors="replace")[:200], input=text)
        return res
    if a.out != b.out:
        res.fail = dict(sig="", msg="IL of the program differs from IL of its fully macro-expanded text", input=text, il_a=a.out.decode("latin-1")[:2000],
                        il_b=b.out.decode("latin-1")[:2000])
        return res
    if text.count("(") > 2:
        res.keys.append(sha(text))
    res.labels.append("compile-path")
    return res


# ---- redefinition ------------------------------------------------------------------------------------------

@st.composite
def redef_cases(draw):
    kind = draw(st.sampled_from(["obj", "fn"]))
    toks = draw(st.lists(st.sampled_from(["1", "+", "x", "y", "(", ")", "\"s\"", "int", "2", "-", "f"]), min_size=0, max_size=5))
    seps1 = [draw(st.sampled_from([" ", "  ", "\t", "/**/", ""])) for _ in toks]
    variant = draw(st.sampled_from(["same", "ws-amount", "ws-presence", "token", "param", "kind", "comment-for-space"]))
    toks2, seps2 = list(toks), list(seps1)
    # parameter lists of every shape, the empty one included: `M()` and `M` differ in kind although both have no parameter
    params1 = params2 = draw(st.sampled_from(["x, y", "", "x", "...", "x, ...", "x, y, z", "y, x"]))
    if variant == "ws-amount":
        seps2 = [("   " if s.strip() == "" and s else s) for s in seps1]
    elif variant == "comment-for-space":
        seps2 = [("/* c */" if s.strip() == "" and s else s) for s in seps1]
    elif variant == "ws-presence" and len(toks) >= 2:
        i = draw(st.integers(1, len(toks) - 1))
        seps2[i] = "" if seps1[i] else " "
    elif variant == "token" and toks:
        i = draw(st.integers(0, len(toks) - 1))
        toks2[i] = "3" if toks[i] != "3" else "4"
    elif variant == "param":
        params2 = draw(st.sampled_from([q for q in ["x, z", "x, y", "", "x", "...", "x, ...", "x, y, ...", "y, x", "x, y, z"] if q != params1]))
    hdr1 = "#define M" + ("(%s)" % params1 if kind == "fn" else "")
    k2 = kind
    if variant == "kind":
        k2 = "obj" if kind == "fn" else "fn"
    hdr2 = "#define M" + ("(%s)" % params2 if k2 == "fn" else "")

    def body(ts, ss):
        out = " "
        for k, (t, s) in enumerate(zip(ts, ss)):
            out += (s if k else "") + t
        return out
    mid = draw(st.sampled_from(["", "", "", "#define N%s 1\n" % ("(%s)" % params1 if kind == "fn" else ""), "#undef M\n", "#undef N\n"]))
    return "%s%s\n%s%s%s\nint x;\n" % (hdr1, body(toks, seps1), mid, hdr2, body(toks2, seps2))


def redef_check(case, ctx):
    res = Result()
    res.n = 1
    text = case
    d = tempfile.mkdtemp(dir=ctx.wdir())
    try:
        path = os.path.join(d, "r.c")
        with open(path, "w") as f:
            f.write(text)
        a = run(["cpp", "-P", "-undef", "-nostdinc", "-std=c11", "-pedantic-errors", path], env=REF_ENV, timeout=30)
        b = run(["clang", "-E", "-P", "-undef", "-nostdinc", "-std=c11", "-pedantic-errors", "-Werror=macro-redefined", path], env=REF_ENV, timeout=30)
    finally:
        shutil.rmtree(d, ignore_errors=True)
    if (a.rc == 0) != (b.rc == 0):
        res.discard.append("ref-split")
        return res
    try:
        clex.lex(text)
    except clex.LexError:
        res.discard.append("unbalanced-literal")
        return res
    p = cproc.cc(ctx, text.encode(), "x86_64-sysv", "plain", ["-E"])
    res.sample = {"redef": text}
    res.labels.append("benign" if a.rc == 0 else "incompatible")
    if a.rc == 0 and p.rc != 0:
        res.fail = dict(sig="", msg="benign macro redefinition rejected: %s" % p.err.decode(errors="replace")[:150], input=text)
    elif a.rc != 0 and p.rc == 0:
        res.fail = dict(sig="", msg="incompatible macro redefinition accepted (cpp and clang reject it)", input=text)
    else:
        res.keys.append(sha(text))
    return res


# ---- invocation errors ---------------------------------------------------------------------------------------

ERRORS = [
    "#define F(x) x\nF(1, 2)\n", "#define F(x, y) x\nF(1)\n", "#define F() 1\nF(1)\n", "#define F(x) x\nF(\n", "#define F(x) x\nF(1\n", "#define F(x, y) x y\nF(,,)\n",
    "#define F(x) x\n#define G F(\nG 1\n", "#define F(x, ...) x\nF()\n"[:0] or "#define F(x, y, z) x\nF(1, 2)\n", "#define F(x) #y\n", "#define F(x) #\n", "#define F(x) # 1\n",
    "#define F(x,) x\n", "#define F(x x) x\n", "#define F(..., x) x\n", "#define F(x, x) x\n"[:0] or "#define F(1) x\n", "#define 1 2\n", "#define\n", "#undef\n", "#undef 1\n",
    "#define A 1\n#define A 2\n", "#define F(x) x\n#define F(y) y\n", "#define A(x) __VA_ARGS__\n", "#define A __VA_ARGS__\n", "#foo\n", "#define F(x) x\nF(1)(2\n"[:0] or "#line x\n",
    "#define A 1 ## 2\nA\n", "#if 1\n#endif\n", "#include <x>\n", "#ifdef A\n#endif\n", "#error x\n",
]


def errors_enum(ctx):
    for i, e in enumerate(ERRORS):
        yield {"i": i}


def errors_check(case, ctx):
    res = Result()
    res.n = 1
    text = ERRORS[case["i"]]
    p = cproc.cc(ctx, text.encode(), "x86_64-sysv", "plain", ["-E"])
    res.keys.append(sha(text))
    res.sample = {"error-input": text}
    if p.rc == 0:
        res.fail = dict(sig="accepted:" + text[:30], msg="malformed macro usage / unsupported directive accepted: %r" % text, input=text)
    elif p.rc != 1 or not p.err:
        res.fail = dict(sig="", msg="status %s, stderr %r for %r" % (p.rc, p.err[:100], text), input=text)
    return res


def input_check(case, ctx):
    res = token_check(case["text"], ctx)
    if res.fail is not None and case.get("sig"):
        res.fail["sig"] = case["sig"]
    res.keys.append(sha(case["text"]))
    return res


def sources(ctx):
    return [
        Source("input", input_check, enum=lambda ctx: iter(())),
        Source("errors", errors_check, enum=errors_enum, exhaustive=True),
        Source("redef", redef_check, strategy=lambda c: redef_cases(), examples={"quick": 600, "thorough": 20000}),
        Source("compile", compile_check, strategy=lambda c: compile_cases(), examples={"quick": 500, "thorough": 20000}),
        Source("tokens", token_check, strategy=lambda c: token_cases(), examples={"quick": 2500, "thorough": 100000}),
    ]
