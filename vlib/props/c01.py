"""C01 — compiled programs behave as the C abstract machine prescribes (DESIGN 3/C01)."""
import glob
import os
import re
import shutil
import tempfile

from hypothesis import strategies as st

from .. import build, cproc, ilcheck, ilexec, il2c, refcc
from ..runner import Result, Source, run, sha

ID = "C01"
LEVEL = "exploration"
RULE = ("programs: (exprs) Hypothesis generator A - straight-line typed expressions over initialised objects with boundary values, "
        "all arithmetic types, bit-fields, conversions through casts/assignment/calls, expected output computed by vlib/cmodel.py; "
        "(structured) generator B - aggregates, pointers, control flow, calls incl. variadic/aggregate, VLAs, alloca, static/thread/compound "
        "objects, built UB-free by construction; (corpus) hand-written programs in corpus/exec. Each program is compiled by cproc-qbe for one "
        "of the three targets, the IL is validated, translated by il2c, built with gcc+ASan and run; oracle: identical chk_* line sequence and "
        "exit status as gcc -O0 and clang -O1 (ASan+UBSan, target's char/wchar conventions; both must agree, else the case is discarded) and, "
        "for generator A, as the cmodel prediction; no ASan report and no IL trap. non-trivial = accepted program with >=3 observations whose "
        "IL contains an instruction of its profile's class; distinct by source hash.")
ASSUMPTIONS = [
    "IL semantics are those implemented by vlib/il2c.py + native/rt.h (written from QBE's IL reference; QBE itself is not installed)",
    "gcc 12 and clang 14 with ASan/UBSan are the reference implementations; cases where they disagree or report UB are discarded",
    "variadic function definitions are not executed for riscv64 (its 8-byte va_list cannot hold the host's)",
]

REF_ENV = {"PATH": "/usr/bin:/bin", "LC_ALL": "C",
           "ASAN_OPTIONS": "detect_leaks=0:exitcode=96:detect_stack_use_after_return=0",
           "UBSAN_OPTIONS": "halt_on_error=1:exitcode=95:print_stacktrace=0"}


def prepare(ctx):
    cproc.prepare(ctx, ["plain"])
    ilexec.prepare(ctx)
    ctx.data["exec_corpus"] = sorted(glob.glob(os.path.join(build.VERIF, "corpus", "exec", "*.c")))


def ref_run(ctx, d, src_path, target, std="c11", want=None):
    """Returns ('ok', rc, lines) if gcc and clang agree and are sanitizer-clean, else ('discard', reason, detail)."""
    outs = []
    for cc, opt in (("gcc", "-O0"), ("clang", "-O1")):
        exe = os.path.join(d, "ref-" + cc)
        cmd = [cc, opt, "-w", "-std=" + std, "-fsanitize=address,undefined", "-fno-sanitize-recover=all", "-fno-builtin"] + \
              refcc.target_flags(target, cc) + ["-o", exe, src_path, ctx.data["rt-plain"], "-lm"]
        p = run(cmd, env=REF_ENV, timeout=120)
        if p.rc != 0:
            return "discard", "ref-reject:" + cc, p.err.decode(errors="replace")[:500]
        q = run([exe], env=REF_ENV, timeout=20)
        if q.timeout:
            return "discard", "ref-timeout", ""
        if q.rc in (95, 96) or b"runtime error" in q.err or b"AddressSanitizer" in q.err or (q.rc is not None and q.rc < 0):
            return "discard", "ref-ub:" + cc, q.err.decode(errors="replace")[:300]
        outs.append((q.rc, q.out))
    if outs[0] != outs[1]:
        return "discard", "ref-split", "gcc %r\nclang %r" % (outs[0][1][:300], outs[1][1][:300])
    return "ok", outs[0][0], outs[0][1].decode(errors="replace").splitlines()


def cproc_run(ctx, d, src, target):
    """Returns (kind, detail, rc, lines, il) with kind in ok|reject|badil|unsupported|exec-error|trap|asan|signal|timeout."""
    p = cproc.cc(ctx, src, target, "plain", timeout=60)
    if p.rc != 0 or p.timeout:
        return "reject", p.err.decode(errors="replace")[:500], p.rc, [], b""
    try:
        exe = ilexec.build_exe(ctx, d, [("il", "unit", p.out, target)], exe="cproc-prog")
    except ValueError as e:
        return "badil", "\n".join(e.args[0][:5]), 0, [], p.out
    except il2c.Unsupported as e:
        return "unsupported", str(e), 0, [], p.out
    except ilexec.ExecError as e:
        return "exec-error", str(e), 0, [], p.out
    kind, rc, out, err = ilexec.run_exe(exe, timeout=20)
    return kind, err.decode(errors="replace")[:1500], rc, out.decode(errors="replace").splitlines(), p.out


_OPCLASS = {
    "A:ops": r"\b(add|sub|mul|div|udiv|rem|urem|and|or|xor|shl|shr|sar|c[a-z]+[wlsd])\b",
    "A:conv": r"\b(ext[su][bhw]|exts|truncd|[sd]to[su]i|[su][wl]tof|cne[wlsd])\b",
    "A:bitfield": r"\b(shl|sar|shr|and)\b",
    "A:mixed": r"\b(add|sub|mul|shl|sar)\b",
}


def judge(ctx, case, res):
    """case: dict(src, expect|None, target index t, profile, labels)."""
    d = tempfile.mkdtemp(dir=ctx.wdir())
    try:
        src = case["src"].encode()
        target = cproc.TARGETS[case["t"]]
        std = case.get("std", "c11")
        path = os.path.join(d, "prog.c")
        with open(path, "wb") as f:
            f.write(src)
        res.n = 1
        res.labels.append("profile:" + case.get("profile", "?"))
        res.labels.append("target:" + target)
        kind, detail, rc, lines, il = cproc_run(ctx, d, src, target)
        if kind == "unsupported":
            res.discard.append("il2c-unsupported: " + detail[:60])
            return
        if kind == "exec-error":
            res.fail = dict(sig="machinery:il2c", msg="il2c/gcc could not build the translated module (machinery or malformed IL):\n" + detail)
            return
        expect = case.get("expect")
        want_rc = case.get("rc", 0)
        if expect is not None and kind == "ok" and lines == expect and rc == want_rc:
            ok_model = True
        else:
            ok_model = False
        if ok_model and not case.get("always_ref") and sha(src)[0] != "0":
            _count(res, case, il, src)
            return
        # arbitrate with the reference compilers
        st_, a, b = ref_run(ctx, d, path, target, std)
        if st_ == "discard" and a.startswith("ref-reject") and expect is not None and case.get("profile") == "input":
            # a recorded reproducer in a dialect the installed references do not know (C23 `nullptr`): its stated expectation decides
            if not (kind == "ok" and lines == expect and rc == want_rc):
                res.fail = dict(sig="", msg="observable behaviour differs from the recorded expectation (target %s): cproc %s %r, expected %r"
                                % (target, kind, lines[:6] if lines else detail[:200], expect[:6]), input=case["src"])
            else:
                res.keys.append(sha(src))
            return
        if st_ == "discard":
            res.discard.append(a)
            if os.environ.get("VERIF_DUMP_DISCARDS"):
                # development aid: why did a reference compiler refuse or flag a generated program?
                dd = os.environ["VERIF_DUMP_DISCARDS"]
                os.makedirs(dd, exist_ok=True)
                with open(os.path.join(dd, "%s-%s.c" % (a.replace(":", "-"), sha(src))), "w") as f:
                    f.write("/* %s\n%s\n*/\n%s" % (a, b, case["src"]))
            if expect is not None and a.startswith(("ref-ub", "ref-split")):
                res.labels.append("model-accepted-but-" + a.split(":")[0])
            return
        ref_rc, ref_lines = a, b
        if expect is not None and (ref_lines != expect or ref_rc != want_rc):
            # the model disagrees with both references: a defect of the model, never of cproc
            res.discard.append("model-mismatch")
            res.labels.append("MODEL-MISMATCH")
            if os.environ.get("VERIF_MODEL_STRICT"):
                res.fail = dict(sig="", msg="MODEL mismatch: model %r refs %r" % (expect, ref_lines), input=case["src"])
                return
            expect = None
        if kind == "reject":
            ok, _ = refcc.syntax_ok(path, "gcc", std)
            ok2, _ = refcc.syntax_ok(path, "clang", std)
            if ok and ok2:
                res.fail = dict(sig="reject:" + _errsig(detail), msg="valid program rejected (gcc and clang accept it with -pedantic-errors):\n%s" % detail, input=case["src"])
            else:
                res.discard.append("not-strictly-conforming")
            return
        if kind == "badil":
            res.fail = dict(sig="", msg="malformed IL for an accepted program:\n" + detail, input=case["src"])
            return
        if kind in ("trap", "asan", "signal", "timeout"):
            if kind == "timeout":
                res.discard.append("inconclusive-timeout")
                return
            res.fail = dict(sig="", msg="emitted code %s while the reference runs are clean (target %s):\n%s" % (kind, target, detail),
                            input=case["src"], il=il.decode("latin-1")[:20000])
            return
        if lines != ref_lines or rc != ref_rc:
            i = 0
            while i < min(len(lines), len(ref_lines)) and lines[i] == ref_lines[i]:
                i += 1
            res.fail = dict(sig="", msg="observable behaviour differs (target %s): observation #%d: cproc %r, references %r; exit status %s vs %s"
                            % (target, i, lines[i] if i < len(lines) else None, ref_lines[i] if i < len(ref_lines) else None, rc, ref_rc),
                            input=case["src"], il=il.decode("latin-1")[:20000])
            return
        _count(res, case, il, src)
    finally:
        shutil.rmtree(d, ignore_errors=True)


def _errsig(detail):
    m = re.search(r"error: (.*)", detail)
    return re.sub(r"'[^']*'", "'X'", m.group(1))[:60] if m else detail[:40]


def _count(res, case, il, src):
    prof = case.get("profile", "")
    pat = _OPCLASS.get(prof)
    nobs = len(case.get("expect") or []) or case["src"].count("chk_")
    if nobs >= 3 and (pat is None or re.search(pat.encode(), il)):
        res.keys.append(sha(src))
    for m in set(re.findall(rb"^\t(?:%\S+ =\w+ )?(\w+) ", il, re.M)):
        res.labels.append("il:" + m.decode())


def exprs_strategy(ctx):
    from ..gen import exprgen

    @st.composite
    def s(draw):
        t = draw(st.integers(0, 2))
        c = draw(exprgen.expr_programs(char_signed=cproc.SIGNED_CHAR[cproc.TARGETS[t]],
                                       max_stmts=24 if ctx.tier == "quick" else 40, depth=4 if ctx.tier == "quick" else 5))
        c["t"] = t
        return c
    return s()


def prog_check(case, ctx):
    res = Result()
    judge(ctx, case, res)
    res.labels.extend("g:" + l for l in case.get("labels", [])[:40])
    res.sample = {"profile": case.get("profile"), "target": cproc.TARGETS[case["t"]], "src": case["src"][-600:]}
    return res


def corpus_enum(ctx):
    for f in ctx.data["exec_corpus"]:
        for t in range(3):
            yield {"file": os.path.relpath(f, build.VERIF), "t": t}


def corpus_check(case, ctx):
    res = Result()
    src = open(os.path.join(build.VERIF, case["file"])).read()
    c = {"src": src, "t": case["t"], "profile": "corpus", "always_ref": True, "std": "gnu11"}
    judge(ctx, c, res)
    if res.fail:
        res.fail["input"] = "(file %s)" % case["file"]
    res.sample = {"corpus": case}
    return res


def input_check(case, ctx):
    """Replay of an explicit program {src, t, sig}: used for recorded findings and regression inputs."""
    res = Result()
    c = dict(case)
    c["always_ref"] = True
    c.setdefault("profile", "input")
    judge(ctx, c, res)
    if res.fail is not None and case.get("sig"):
        res.fail["sig"] = case["sig"]
    res.keys.append(sha(case["src"]))
    res.sample = {"input": case["src"][-300:]}
    return res


def sources(ctx):
    srcs = [
        Source("input", input_check, enum=lambda ctx: iter(())),
        Source("corpus", corpus_check, enum=corpus_enum),
        Source("exprs", prog_check, strategy=exprs_strategy, examples={"quick": 2000, "thorough": 40000}),
    ]
    try:
        from ..gen import proggen
        srcs.append(Source("structured", prog_check, strategy=lambda c: proggen.strategy(c), examples={"quick": 500, "thorough": 20000}))
    except ImportError:
        pass
    return srcs
