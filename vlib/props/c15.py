"""C15 — a switch transfers control to exactly the matching case (DESIGN 3/C15)."""
import math
import os
import re
import shutil
import tempfile

from hypothesis import strategies as st

from .. import build, cmodel as cm, cproc, maptree
from ..gen.exprgen import PROLOGUE
from ..runner import Result, Source, sha
from . import c01

ID = "C15"
LEVEL = "exploration"
RULE = ("(a) in-process rapidcheck + exhaustive enumeration against /repo's tree.c: all insertion orders of <= 8 keys (10 in thorough) and random "
        "boundary-biased 64-bit key sequences up to 5000 keys, oracle std::set + AVL invariants after every insertion; non-trivial = sequence with "
        ">=1 rotation (counted by the harness). (b) Hypothesis switch statements over every integer controlling type with 0..300 (2 with 5000) distinct "
        "case constants in random order, default at any position or absent, fall-through groups, labels in nested blocks, nested switches, executed via "
        "il2c with probes at every key, key+-1, type limits and random values; oracle: dictionary model of C11 6.8.4.2 (gcc/clang arbitrate a mismatch); "
        "ladder depth from the IL <= 1.4405*log2(n+2)+1 comparisons; duplicate case constants (also after conversion) and duplicate defaults must be "
        "rejected. non-trivial (b) = >=5 cases and probes reaching >=3 distinct outcomes; distinct by source hash.")
ASSUMPTIONS = c01.ASSUMPTIONS + ["the rapidcheck harness links tree.c/util.c compiled from the current /repo tree with ASan+UBSan"]

INT_TYPES = ["_Bool", "char", "signed char", "unsigned char", "short", "unsigned short", "int", "unsigned", "long", "unsigned long",
             "long long", "unsigned long long", "enum en", "enum el", "enum eul"]


def prepare(ctx):
    c01.prepare(ctx)
    maptree.prepare(ctx)


def ctype(name, cs):
    m = {"_Bool": cm.BOOL, "char": cm.char_type(cs), "signed char": cm.SCHAR, "unsigned char": cm.UCHAR, "short": cm.SHORT,
         "unsigned short": cm.USHORT, "int": cm.INT, "unsigned": cm.UINT, "long": cm.LONG, "unsigned long": cm.ULONG,
         "long long": cm.LLONG, "unsigned long long": cm.ULLONG, "enum en": cm.UINT,
         # enumerations whose values do not fit int have a 64-bit underlying type (C23 6.7.2.2, GNU before that)
         "enum el": cm.LONG, "enum eul": cm.ULONG}
    return m[name]


class _D:
    """Cheap draws: a deterministic PRNG seeded by ONE Hypothesis-drawn integer (bulk material such as 5000 case
    constants would otherwise exhaust Hypothesis' entropy budget).  Top-level choices stay real draws."""

    def __init__(self, seed):
        import random
        self.r = random.Random(seed)

    def __call__(self, strat):
        return strat(self.r)


def _int(a, b):
    return lambda r: r.randint(a, b)


def _pick(xs):
    xs = list(xs)
    return lambda r: xs[r.randrange(len(xs))]


def _bool():
    return lambda r: r.random() < 0.5


def keysets(d, P, n, style):
    """n distinct values of promoted type P: dense runs, sparse, boundary-heavy; random order."""
    keys = set()
    b = [v for v in cm.boundary_values(P)]
    guard = 0
    while len(keys) < n and guard < 100000:
        guard += 1
        if style == "dense" or (style == "mixed" and d(_bool())):
            start = d(_pick(b + [0, 0, -5 if P.signed else 5]))
            ln = d(_int(1, max(1, n - len(keys))))
            step = d(_pick([1, 1, 2, 3, 7]))
            for i in range(ln):
                v = start + i * step
                if P.has(v):
                    keys.add(v)
        elif style == "boundary":
            for _ in range(d(_int(1, 8))):
                keys.add(d(_pick(b)))
            if len(keys) >= len(set(b)):
                style = "sparse"
        else:
            keys.add(d(_int(P.min, P.max)))
    keys = sorted(keys)[:n] if d(_bool()) else sorted(keys)[-n:]
    d.r.shuffle(keys)
    return keys


@st.composite
def switch_programs(draw, big=False):
    t = draw(st.integers(0, 2))
    cs = cproc.SIGNED_CHAR[cproc.TARGETS[t]]
    tname = draw(st.sampled_from(INT_TYPES))
    T = ctype(tname, cs)
    P = cm.promote(T)
    if big:
        n = draw(st.sampled_from([1500, 5000]))
        if P.bits < 64 and T.bits < 16:
            tname, T, P = "long", cm.LONG, cm.LONG
    else:
        n = draw(st.integers(0, 40)) if draw(st.integers(0, 3)) else draw(st.integers(40, 300))
    # case constants must be values the controlling expression can take after promotion? No: any value of P is allowed.
    d = _D(draw(st.integers(0, 1 << 62)))
    style = draw(st.sampled_from(["dense", "sparse", "boundary", "mixed"]))
    keys = keysets(d, P, n, style) if n else []
    arms = []
    i = 0
    default_at = d(_int(-1, len(keys))) if draw(st.integers(0, 4)) else None
    default_done = False
    aid = 1
    pos = 0
    while i < len(keys) or (default_at is not None and not default_done):
        glen = d(_int(1, 3)) if not big else d(_int(1, 2))
        labels = []
        for _ in range(glen):
            if default_at is not None and not default_done and pos == max(default_at, 0):
                labels.append("default")
                default_done = True
            elif i < len(keys):
                labels.append(keys[i])
                i += 1
            pos += 1
        if not labels:
            if default_at is not None and not default_done:
                labels.append("default")
                default_done = True
            else:
                break
        arm = {"labels": labels, "add": aid, "brk": d(_int(0, 5)) != 0 or big, "duff": None, "inner": None,
               # the labels of this arm sit inside a loop, a selection statement or nested blocks within the switch body
               "wrap": None if big or d(_int(0, 5)) else d(_pick(["do", "for", "while", "if", "block", "dowhile-if"]))}
        aid += 1
        if not big and i < len(keys) and d(_int(0, 9)) == 0:
            arm["duff"] = (keys[i], aid)
            i += 1
            aid += 1
        if not big and d(_int(0, 14)) == 0:
            arm["inner"] = True
        arms.append(arm)
    # probes
    probes = set()
    for k in keys if len(keys) <= 400 else [d(_pick(keys)) for _ in range(300)]:
        probes.update(v for v in (k, k - 1, k + 1) if T.has(v) if True)
    probes.update(v for v in (T.min, T.max, 0, 1) if T.has(v))
    for _ in range(6):
        probes.add(d(_int(T.min, T.max)))
    probes = sorted(p for p in probes if T.has(p))
    # source
    ind = "\t\t"
    body = []
    WRAP = {"do": ("do {", "} while (0);"), "for": ("for (;;) {", "break; }"), "while": ("while (1) {", "break; }"), "if": ("if (x == x) {", "}"), "block": ("{ {", "} }"),
            "dowhile-if": ("do { if (1) {", "} } while (0);")}
    def keytext(k):
        # a case constant is converted to the promoted type of the controlling expression (6.8.4.2p5): it may be written in any
        # integer type that holds the value - narrower, wider or of the other signedness than the switch
        if big or d(_int(0, 3)):
            return cm.literal(k, P)
        cands = [t_ for t_ in (cm.INT, cm.UINT, cm.LONG, cm.ULONG, cm.LLONG, cm.ULLONG, cm.SHORT, cm.UCHAR) if t_.has(k)]
        t_ = d(_pick(cands))
        if k >= 0 and d(_int(0, 2)) == 0:
            suf = {4: "", 5: "l", 6: "ll"}.get(t_.rank, "")
            if t_.rank >= cm.INT.rank and not (t_.signed and k > t_.max):
                hx = "0x%x%s%s" % (k, "" if t_.signed else "u", suf)
                # a hexadecimal constant without u takes the first type of its list that holds the value, signed or not
                return hx
        return cm.literal(k, t_)
    for a in arms:
        if a["wrap"]:
            body.append(ind + WRAP[a["wrap"]][0])
        for l in a["labels"]:
            body.append("\tdefault:" if l == "default" else "\tcase %s:" % keytext(l))
        line = ind + "r += %d;" % a["add"]
        if a["wrap"]:
            line += " " + WRAP[a["wrap"]][1]
        if a["duff"]:
            line += " if (r < 0) { case %s: r += %d; } r += 1000000;" % (cm.literal(a["duff"][0], P), a["duff"][1])
        if a["inner"]:
            line += " switch ((int)(x & 1)) { case 0: r += 3000000; break; case 1: r += 5000000; }"
        if a["brk"]:
            line += " break;"
        body.append(line)
    loopwrap = draw(st.booleans())
    # the controlling expression: the parameter itself, or an expression whose value has to be converted to T before it is
    # promoted (cast, assignment, compound assignment, increment: the operand arrives wider than T)
    form = draw(st.sampled_from(["x", "x", "cast", "assign", "comma-cast"] + (["addassign", "preinc", "postinc-next"] if (T.bits < 32 or not T.signed) and tname != "_Bool" else [])))
    WT = cm.LLONG if T.signed else cm.ULLONG
    wname = "long long" if T.signed else "unsigned long long"
    if form != "x":
        extra = set()
        for pv in probes:
            for dlt in (1 << T.bits, -(1 << T.bits), 1 << 32, (1 << 40) + (1 << T.bits)):
                if WT.has(pv + dlt):
                    extra.add(pv + dlt)
        probes = sorted(set(probes) | set(sorted(extra)[:200]))
    ctl = {"x": "x", "cast": "(%s)w" % tname, "assign": "x = w", "comma-cast": "(void)0, (%s)w" % tname, "addassign": "x += 1", "preinc": "++x", "postinc-next": "(x++, x)"}[form]
    fn = ["static long f(%s %s) {" % ((tname, "x") if form == "x" else (wname, "w")), "\tlong r = 0;"]
    if form != "x":
        fn.append("\t%s x = (%s)w;" % (tname, tname))
    if loopwrap:
        fn.append("\tfor (int once = 0; once < 1; once++) {")
    fn.append("\tswitch (%s) {" % ctl)
    fn += body
    fn.append("\t}")
    if loopwrap:
        fn.append("\tr += 7; }")
    fn.append("\treturn r;")
    fn.append("}")
    src = PROLOGUE + "enum en { EN0, EN1 = 4000000000u };\nenum el { EL0 = -1, EL1 = 0x100000000 };\nenum eul { EUL1 = 0xffffffffffffffff };\n" + "\n".join(fn) + "\nstatic %s probes[] = { %s };\n" % (
        "long long" if T.signed else "unsigned long long", ", ".join(cm.literal(p, cm.LLONG if T.signed else cm.ULLONG) for p in probes)) + \
        "int main(void) {\n\tfor (unsigned i = 0; i < %d; i++) chk_i64(f((%s)probes[i]));\n\treturn 0;\n}\n" % (len(probes), tname if form == "x" else wname)

    # model
    def run_model(x):
        if form != "x":
            x = cm.convert(x, WT, T)
        if form in ("addassign", "preinc", "postinc-next"):
            x = cm.convert(cm.convert(x, T, P) + 1, P, T)
        xv = cm.convert(x, T, P)
        entry = None
        dfl = None
        for ai, a in enumerate(arms):
            for l in a["labels"]:
                if l == "default":
                    dfl = (ai, False)
                elif l == xv:
                    entry = (ai, False)
            if a["duff"] and a["duff"][0] == xv:
                entry = (ai, True)
        if entry is None:
            entry = dfl
        r = 0
        if entry is not None:
            ai, at_duff = entry
            first = True
            while ai < len(arms):
                a = arms[ai]
                if first and at_duff:
                    r += a["duff"][1] + 1000000
                else:
                    r += a["add"]
                    if a["duff"]:
                        r += 1000000
                if a["inner"]:
                    r += 3000000 if (xv & 1) == 0 else 5000000
                first = False
                if a["brk"]:
                    break
                ai += 1
        if loopwrap:
            r += 7
        return r
    expect = ["i %d" % run_model(p) for p in probes]
    return {"src": src, "expect": expect, "t": t, "profile": "switch", "ncases": len(keys), "std": "gnu11",
            "labels": ["type:" + tname, "ctl:" + form, "default" if default_at is not None else "nodefault", "big" if big else "small"]}


def switch_check(case, ctx):
    res = Result()
    c01.judge(ctx, case, res)
    n = case["ncases"]
    outcomes = len(set(case["expect"]))
    if res.keys and not (n >= 5 and outcomes >= 3):
        res.keys = []
    res.labels.extend(case["labels"])
    res.labels.append("cases:%s" % ("0" if n == 0 else "1-4" if n < 5 else "5-40" if n <= 40 else "41-300" if n <= 300 else ">300"))
    # ladder depth from the IL
    if res.fail is None and n > 0:
        p = cproc.cc(ctx, case["src"].encode(), cproc.TARGETS[case["t"]], "plain", timeout=120)
        if p.rc == 0:
            depth = ladder_depth(p.out)
            bound = int(1.4405 * math.log2(n + 2)) + 1
            res.labels.append("depth-checked")
            if depth is not None and depth > bound:
                res.fail = dict(sig="", msg="switch search depth %d exceeds the AVL bound %d for %d cases" % (depth, bound, n), input=case["src"][:3000])
    res.sample = {"switch": case["labels"], "cases": n, "probes": len(case["expect"]), "src_head": case["src"][len(PROLOGUE):len(PROLOGUE) + 400]}
    return res


def ladder_depth(il):
    """Longest chain of case comparisons (ceq blocks) reachable from @switch_cond in function f."""
    text = il.decode("latin-1")
    m = re.search(r"function l \$f\(.*?\n}\n", text, re.S)
    if not m:
        return None
    blocks = {}
    cur = None
    for ln in m.group(0).splitlines():
        if ln.startswith("@"):
            cur = ln[1:]
            blocks[cur] = []
        elif cur is not None:
            blocks[cur].append(ln.strip())
    order = list(blocks)
    start = [b for b in order if b.startswith("switch_cond")]
    if not start:
        return None
    best = 0
    # only the outermost switch (first switch_cond in text order of the function)
    stack = [(start[0], 0)]
    seen = set()
    while stack:
        b, d = stack.pop()
        if (b, d) in seen:
            continue
        seen.add((b, d))
        lines = blocks.get(b, [])
        nd = d + sum(1 for l in lines if re.search(r"=w ceq[wl] ", l))
        best = max(best, nd)
        nxt = []
        for l in lines:
            j = re.match(r"jnz \S+ @(\S+), @(\S+)", l)
            if j:
                nxt = [j.group(1), j.group(2)]
            j = re.match(r"jmp @(\S+)", l)
            if j:
                nxt = [j.group(1)]
        if not lines or not (lines[-1].startswith("jnz") or lines[-1].startswith("jmp") or lines[-1].startswith("ret") or lines[-1] == "hlt"):
            i = order.index(b)
            if i + 1 < len(order):
                nxt = [order[i + 1]]
        for x in nxt:
            if x.startswith(("switch_ne", "switch_lt", "switch_gt")):
                stack.append((x, nd))
    return best


# ---- duplicates must be rejected ---------------------------------------------------------------

@st.composite
def dup_programs(draw):
    t = draw(st.integers(0, 2))
    tname = draw(st.sampled_from(["int", "unsigned", "long", "unsigned long", "char", "short", "unsigned char"]))
    T = ctype(tname, cproc.SIGNED_CHAR[cproc.TARGETS[t]])
    P = cm.promote(T)
    d = _D(draw(st.integers(0, 1 << 62)))
    keys = keysets(d, P, draw(st.integers(1, 30)), draw(st.sampled_from(["dense", "sparse", "boundary", "mixed"])))
    kind = draw(st.sampled_from(["same", "after-conversion", "default"]))
    lits = [cm.literal(k, P) for k in keys]
    k = draw(st.sampled_from(keys))
    if kind == "same":
        dup = cm.literal(k, P)
    elif kind == "after-conversion":
        if P.bits == 64:
            dup = "(%s + 0)" % cm.literal(k, P)
        else:
            dup = cm.literal(k + (1 << 32) * draw(st.integers(1, 3)), cm.LLONG) if k >= 0 else cm.literal((k % (1 << 32)), cm.LLONG)
    else:
        dup = None
    pos = draw(st.integers(0, len(lits)))
    arms = ["case %s: r = %d; break;" % (l, i) for i, l in enumerate(lits)]
    if kind == "default":
        arms.insert(draw(st.integers(0, len(arms))), "default: r = -1; break;")
        arms.insert(pos, "default: r = -2; break;")
    else:
        arms.insert(pos, "case %s: r = -3; break;" % dup)
    src = "int f(%s x) { int r = 0; switch (x) { %s } return r; }\n" % (tname, "\n".join(arms))
    ok = "int f(%s x) { int r = 0; switch (x) { %s } return r; }\n" % (tname, "\n".join(a for i, a in enumerate(arms) if i != pos))
    return {"bad": src, "good": ok, "t": t, "kind": kind}


def dup_check(case, ctx):
    res = Result()
    res.n = 2
    t = cproc.TARGETS[case["t"]]
    good = cproc.cc(ctx, case["good"].encode(), t, "plain")
    bad = cproc.cc(ctx, case["bad"].encode(), t, "plain")
    res.labels.append("dup:" + case["kind"])
    res.sample = {"dup": case["kind"], "src": case["bad"][:300]}
    if good.rc != 0:
        res.fail = dict(sig="", msg="switch without the duplicate is rejected: %r" % good.err[:300], input=case["good"])
        return res
    if bad.rc == 0:
        d = tempfile.mkdtemp(dir=ctx.wdir())
        try:
            p = os.path.join(d, "d.c")
            open(p, "w").write(case["bad"])
            from .. import refcc
            ok, _ = refcc.syntax_ok(p, "gcc", "c11", pedantic=False)
        finally:
            shutil.rmtree(d, ignore_errors=True)
        if ok:
            res.discard.append("gcc-accepts-dup")
            return res
        res.fail = dict(sig="", msg="duplicate %s accepted (status 0)" % ("default label" if case["kind"] == "default" else "case constant (%s)" % case["kind"]),
                        input=case["bad"])
        return res
    if bad.rc != 1 or not bad.err:
        res.fail = dict(sig="", msg="duplicate label: status %s, stderr %r" % (bad.rc, bad.err[:200]), input=case["bad"])
    res.keys.append(sha(case["bad"]))
    return res


def wrap_rc(srcs):
    """Route rapidcheck failures to the self-contained rc-replay source."""
    out = []
    for s in srcs:
        def mk(chk):
            def check(case, ctx):
                res = chk(case, ctx)
                if res.fail is not None and res.fail.get("replay_args"):
                    mode, text = res.fail["replay_args"]
                    res.extra_fails.append(dict(source="rc-replay", case={"mode": mode, "text": text}, fail=res.fail))
                    res.fail = None
                return res
            return check
        out.append(Source(s.name, mk(s.check), enum=s.enum, exhaustive=s.exhaustive))
    return out


def sources(ctx):
    big = Source("switch-big", switch_check, strategy=lambda c: switch_programs(big=True), examples={"quick": 2, "thorough": 40})
    return [maptree.replay_source()] + wrap_rc(maptree.tree_sources(ctx)) + [
        Source("input", c01.input_check, enum=lambda ctx: iter(())),
        Source("dup", dup_check, strategy=lambda c: dup_programs(), examples={"quick": 600, "thorough": 20000}),
        Source("switch", switch_check, strategy=lambda c: switch_programs(), examples={"quick": 400, "thorough": 5000}),
        big,
    ]
