"""C10 — constraint violations and unsupported features are diagnosed, never accepted (DESIGN 3/C10)."""
import glob
import os
import re
import shutil
import tempfile

from hypothesis import strategies as st

from .. import build, cproc, ilcheck
from ..runner import Result, Source, run, sha
from .c10_catalogue import CATALOGUE, PRELUDE

ID = "C10"
LEVEL = "exploration"
RULE = ("a catalogue (vlib/props/c10_catalogue.py) of violating templates covering the error()/fatal() sites of /repo (the list of sites is re-extracted "
        "from the working tree on every run and joined to the catalogue by message format; uncovered sites are listed in the evidence) plus constraints "
        "the property names that have no site; every template is instantiated (ENUM) at file scope / block scope as declared, inside a macro expansion, "
        "after a line marker and nested in a random otherwise-valid host program (HYP). Oracle, two-directional: host alone -> status 0 and valid IL; "
        "host + violation -> status 1 (2 for usage) and a diagnostic `file:line:col: error: ...` or `cproc-qbe: ...`; language-level entries must also be "
        "rejected by gcc -pedantic-errors (else the instance is discarded). non-trivial = instance whose diagnostic comes from a site of the catalogue "
        "entry's own message family; distinct by (site, position class).")
ASSUMPTIONS = ["gcc 12 -std=c11/-std=c2x -pedantic-errors is the guard that a catalogue entry really violates the language; 'unsup'/'impl' entries are exempt",
               "only constraints the compiler has a site for, or the property statement lists, are asserted"]

GCC_ENV = {"PATH": "/usr/bin:/bin", "LC_ALL": "C"}


def prepare(ctx):
    cproc.prepare(ctx, ["plain"])
    ctx.data["sites"] = extract_sites()


def extract_sites():
    """[(file, line, regex source)] for every error()/fatal() call of cproc-qbe's sources."""
    sites = []
    for f in sorted(glob.glob(os.path.join(build.REPO, "*.c"))):
        base = os.path.basename(f)
        if base in ("driver.c",):
            continue
        text = open(f, encoding="utf-8", errors="replace").read()
        for m in re.finditer(r'\b(error|fatal)\(\s*(?:&?[\w.>\-]+\s*,\s*)?"((?:[^"\\]|\\.)*)"', text):
            fmt = m.group(2)
            line = text.count("\n", 0, m.start()) + 1
            rx = re.escape(fmt.replace("%%", "\0"))
            rx = re.sub(r"%\\?[-.*0-9a-z]*[a-zA-Z]", "(.*)", rx.replace("\\%", "%")).replace("\0", "%")
            if fmt.endswith(":"):
                rx += ".*"
            sites.append((base, line, rx))
    return sites


def match_site(sites, msg):
    best = None
    for f, l, rx in sites:
        if re.fullmatch(rx, msg, re.S):
            if best is None or len(rx) > len(best[2]):
                best = (f, l, rx)
    return best


def instantiate(i, uid):
    text, scope, tag = CATALOGUE[i]
    text = text.replace("%%", "\0").replace("%d", str(uid)).replace("\0", "%")
    return text, scope, tag


HOST_FILE = ["int hf%d = %d;", "static long hg%d = %d;", "int hh%d(void) { return %d; }", "struct hsx%d { int a; char b[%d + 1]; };", "enum { HX%d = %d };", "extern int hx%d;"]
HOST_BLOCK = ["int hl%d = %d;", "hacc += %d;", "if (hacc > %d) hacc -= 1;", "{ int hn%d = %d; hacc += hn%d; }", ";", "for (int hi%d = 0; hi%d < 2; hi%d++) hacc++;"]


def fill(t, k, v):
    out = t
    while "%d" in out:
        out = out.replace("%d", str(k), 1) if "%d" in out and out.index("%d") == t.index("%d") and out == t else out.replace("%d", str(v), 1)
    return out


def host_lines(recipe, block, base=1000):
    out = []
    for j, (ti, v) in enumerate(recipe):
        pool = HOST_BLOCK if block else HOST_FILE
        t = pool[ti % len(pool)]
        k = base + j + (500 if block else 0)
        s = t
        first = True
        while "%d" in s:
            s = s.replace("%d", str(k if first or t.count("%d") > 2 else v), 1)
            first = False
        out.append(s)
    return out


def build_unit(entry_text, scope, variant, recipe_file, recipe_block, with_vio=True):
    """Host program with (or without) the violation."""
    if scope == "unit":
        if variant == "marker":
            return "# 7 \"m.c\"\n" + (entry_text if with_vio else "int unit_ok;\n")
        return entry_text if with_vio else "int unit_ok;\n"
    lines = [PRELUDE]
    lines += host_lines(recipe_file, False)
    vio = entry_text
    pre = []
    if variant == "macro":
        pre = ["#define VIOM %s" % vio.replace("\n", " ")]
        vio = "VIOM"
    elif variant == "marker":
        pre = ["# 77 \"marked.c\" 1"]
    if scope == "file":
        if with_vio:
            lines += pre + [vio]
        lines += host_lines(recipe_block, False, 3000)
    else:
        lines.append("int host_fn(int hp) {")
        lines.append("int hacc = hp;")
        lines += host_lines(recipe_block, True)
        if with_vio:
            lines += pre + [vio]
        lines.append("return hacc; }")
    return "\n".join(lines) + "\n"


def judge(ctx, i, variant, rf, rb, res):
    text, scope, tag = instantiate(i, 7000 + i)
    host = build_unit(text, scope, variant, rf, rb, with_vio=False)
    unit = build_unit(text, scope, variant, rf, rb, with_vio=True)
    res.n += 1
    h = cproc.cc(ctx, host.encode("utf-8", "surrogateescape"), "x86_64-sysv", "plain")
    if h.rc != 0:
        res.fail = dict(sig="machinery:host", msg="host program without the violation is rejected: %s" % h.err.decode(errors="replace")[:200], input=host)
        return
    mod, errs = ilcheck.validate(h.out)
    if errs:
        res.fail = dict(sig="", msg="host program: malformed IL %s" % errs[:2], input=host)
        return
    p = cproc.cc(ctx, unit.encode("utf-8", "surrogateescape"), "x86_64-sysv", "plain")
    c = cproc.classify(p)
    if c is not None:
        res.discard.append("crash (C19): " + c[0])
        return
    err = p.err.decode("utf-8", "replace")
    if tag == "lang":
        d = tempfile.mkdtemp(dir=ctx.wdir())
        try:
            path = os.path.join(d, "v.c")
            with open(path, "w", encoding="utf-8", errors="surrogateescape") as f:
                # (the plain spelling of the unit: the gcc-style line markers of the 'marker' variant are themselves a pedantic error)
                f.write(unit if variant != "marker" else build_unit(text, scope, "plain", rf, rb, with_vio=True))
            g = run(["gcc", "-std=c2x" if ("nullptr" in unit or "_BitInt" in unit or "enum e" in unit and " : " in unit) else "-std=c11",
                     "-pedantic-errors", "-fsyntax-only", path], env=GCC_ENV, timeout=30)
        finally:
            shutil.rmtree(d, ignore_errors=True)
        if g.rc == 0:
            res.discard.append("gcc-accepts")
            res.labels.append("gcc-accepts:%d" % i)
            if p.rc == 0:
                return
    if p.rc == 0:
        res.fail = dict(sig="accepted:%s" % text[:40], msg="violation accepted with status 0 (%s scope, variant %s): %s" % (scope, variant, text), input=unit)
        return
    first = err.split("\n")[0]
    m = re.match(r"^(.*?):(\d+):(\d+): error: (.*)$", first)
    m2 = re.match(r"^cproc-qbe: (.*)$", first)
    if p.rc not in (1, 2) or not (m or m2):
        res.fail = dict(sig="", msg="status %s, first stderr line %r for %s" % (p.rc, first, text), input=unit)
        return
    msg = m.group(4) if m else m2.group(1)
    site = match_site(ctx.data["sites"], msg)
    if site:
        res.labels.append("site:%s:%d" % (site[0], site[1]))
        res.keys.append("%s:%d/%s/%s" % (site[0], site[1], scope, variant))
    else:
        res.labels.append("site:?")
    if "internal error" in msg or "unimplemented" in msg:
        res.labels.append("internal-error-message")


def cat_enum(ctx):
    for i, (text, scope, tag) in enumerate(CATALOGUE):
        yield {"i": i, "variant": "plain"}
        if scope != "unit":
            yield {"i": i, "variant": "macro"}
        yield {"i": i, "variant": "marker"}


def cat_check(case, ctx):
    res = Result()
    judge(ctx, case["i"], case["variant"], [], [], res)
    res.sample = {"entry": CATALOGUE[case["i"]][0][:80], "variant": case["variant"]}
    return res


def hosted_strategy(ctx):
    rec = st.lists(st.tuples(st.integers(0, 5), st.integers(0, 99)), min_size=0, max_size=8)
    return st.fixed_dictionaries({"i": st.integers(0, len(CATALOGUE) - 1), "variant": st.sampled_from(["plain", "plain", "macro", "marker"]),
                                  "rf": rec, "rb": rec})


def hosted_check(case, ctx):
    res = Result()
    v = case["variant"]
    if CATALOGUE[case["i"]][1] == "unit" and v == "macro":
        v = "plain"
    judge(ctx, case["i"], v, [tuple(x) for x in case["rf"]], [tuple(x) for x in case["rb"]], res)
    res.sample = {"entry": CATALOGUE[case["i"]][0][:80], "variant": v, "host": len(case["rf"]) + len(case["rb"])}
    return res


def extra_coverage(ctx, agg):
    sites = ctx.data["sites"]
    hit = {l[5:] for l in agg.labels if l.startswith("site:") and l != "site:?"}
    allsites = ["%s:%d" % (f, l) for f, l, rx in sites]
    unc = [s for s in allsites if s not in hit]
    return {"sites_total": len(allsites), "sites_covered": len(hit & set(allsites)), "sites_uncovered": unc,
            "catalogue_entries": len(CATALOGUE)}


def sources(ctx):
    return [
        Source("catalogue", cat_check, enum=cat_enum),
        Source("hosted", hosted_check, strategy=hosted_strategy, examples={"quick": 3000, "thorough": 100000}),
    ]
