"""C13 — source text is split into tokens by C11 6.4 maximal munch (DESIGN 3/C13)."""
import itertools
import os

from hypothesis import strategies as st

from .. import clex, cproc
from ..runner import Result, Source, sha

ID = "C13"
LEVEL = "exploration"
RULE = ("ENUM: every string of length <= 3 (quick: plus a seed-selected 10 % of length 4; thorough: all 406 900 strings of length <= 4) over the 25-character "
        "punctuator alphabet, one per line behind a marker identifier (strings opening a block comment run alone); every keyword spelling of C11, C23 and the "
        "GNU alternates with all one-character deletions, insertions, substitutions and case flips (observed through hook H1 and, hook-free, through acceptance "
        "of `int <word>;`). HYP: token sequences of all classes with white space and both comment kinds, each re-tokenised with a backslash-newline inserted at "
        "every position in turn; pp-number forms; '.'/'..'/'...' runs next to digits; other characters. Observation: hook H1 token dump (class, spelling). "
        "Oracle: vlib/clex.py (written from C11 6.4). non-trivial = input with a position where a shorter and a longer token are both possible, or a "
        "splice/comment adjacent to or inside a multi-character token; distinct by input text.")
ASSUMPTIONS = ["vlib/clex.py implements C11 6.4 (longest match over the C23 punctuators without digraphs, pp-numbers, prefix-binds-to-quote, comments -> one space, "
               "splices removed first)", "hook H1 (CPROC_VERIF, main.c) prints the tokens next() delivers under -E without altering them"]

ALPHABET = "!#%&()*+,-./:;<=>?[]^{|}~"

KEYWORDS = {}
for k in clex.KEYWORDS_C11 + clex.KEYWORDS_C23:
    KEYWORDS[k] = k
KEYWORDS.update({"_Alignas": "alignas", "_Alignof": "alignof", "__alignof__": "alignof", "_Bool": "bool", "_Static_assert": "static_assert",
                 "_Thread_local": "thread_local", "__thread": "thread_local", "__asm": "__asm__", "__asm__": "__asm__", "__attribute__": "__attribute__",
                 "__inline": "inline", "__inline__": "inline", "__signed": "signed", "__signed__": "signed", "__typeof": "typeof", "__typeof__": "typeof",
                 "__volatile__": "volatile"})


def prepare(ctx):
    cproc.prepare(ctx, ["hook", "plain"])


def dump(ctx, text, timeout=120):
    """Token dump of `text` -> (rc, [(class, spelling)], stderr)."""
    p = cproc.cc(ctx, text if isinstance(text, bytes) else text.encode("utf-8", "surrogateescape"), "x86_64-sysv", "hook", ["-E"],
                 env={"CPROC_VERIF_TOKDUMP": "1"}, timeout=timeout)
    toks = []
    for ln in p.out.decode("utf-8", "surrogateescape").split("\n"):
        if not ln:
            continue
        c, _, s = ln.partition("\t")
        toks.append((c, s))
    return p.rc, toks, p.err


def want_tokens(text):
    """Reference (class, spelling) list without newlines; raises clex.LexError."""
    out = []
    for tk in clex.lex(text, keep_newlines=False):
        if tk.kind == "ident" and tk.s in KEYWORDS:
            out.append(("keyword", KEYWORDS[tk.s]))
        else:
            out.append((tk.kind, tk.s))
    return out


def ambiguous(s):
    """Is there a position where both a shorter and a longer punctuator are possible?"""
    for i in range(len(s)):
        for L in (2, 3):
            if s[i:i + L] in clex._PSET and s[i:i + L - 1] in clex._PSET:
                return True
    return False


def punct_enum(ctx):
    def gen():
        for n in (1, 2, 3):
            for t in itertools.product(ALPHABET, repeat=n):
                yield "".join(t)
        k = 0
        for t in itertools.product(ALPHABET, repeat=4):
            k += 1
            if ctx.tier == "thorough" or k % 10 == ctx.seed % 10:
                yield "".join(t)
    batch = []
    alone = []
    for s in gen():
        if "/*" in s:
            alone.append(s)
            continue
        batch.append(s)
        if len(batch) == 2000:
            yield {"strings": batch}
            batch = []
    if batch:
        yield {"strings": batch}
    for i in range(0, len(alone), 200):
        yield {"alone": alone[i:i + 200]}


def punct_check(case, ctx):
    res = Result()
    if "alone" in case:
        for s in case["alone"]:
            text = "M " + s + "\n"
            res.n += 1
            rc, toks, err = dump(ctx, text)
            toks = [t for t in toks if t[0] != "newline"]
            try:
                want = want_tokens(text)
            except clex.LexError:
                if rc == 0:
                    res.fail = dict(sig="", msg="unterminated comment in %r accepted" % s, input=text)
                    return res
                res.keys.append(sha(s))
                continue
            if rc != 0 or toks != want:
                res.fail = dict(sig="", msg="tokens of %r: cproc %s (rc %s), C11 6.4 %s" % (s, toks, rc, want), input=text)
                return res
            res.keys.append(sha(s))
        res.sample = {"alone": case["alone"][:3]}
        return res
    strings = case["strings"]
    text = "".join("M %s\n" % s for s in strings)
    rc, toks, err = dump(ctx, text)
    res.n += len(strings)
    if rc != 0:
        res.fail = dict(sig="", msg="punctuator batch rejected: %r" % err[:200], input=text[:2000])
        return res
    lines = []
    cur = None
    for c, s in toks:
        if c == "newline":
            if cur is not None:
                lines.append(cur)
            cur = None
            continue
        if cur is None:
            cur = []
        cur.append((c, s))
    if cur is not None:
        lines.append(cur)
    if len(lines) != len(strings):
        res.fail = dict(sig="", msg="expected %d token lines, got %d" % (len(strings), len(lines)), input=text[:2000])
        return res
    for s, got in zip(strings, lines):
        want = want_tokens("M " + s)
        if got != want:
            res.fail = dict(sig="", msg="tokens of %r: cproc %s, C11 6.4 maximal munch %s" % (s, got[1:], want[1:]), input="M %s\n" % s)
            return res
        if ambiguous(s):
            res.keys.append(s)
    res.labels.append("punct-batch")
    res.sample = {"strings": strings[:5]}
    return res


# ---- keywords ------------------------------------------------------------------------------------------

def perturbations():
    words = set()
    for k in sorted(KEYWORDS):
        words.add(k)
        for i in range(len(k)):
            words.add(k[:i] + k[i + 1:])
            words.add(k[:i] + k[i].swapcase() + k[i + 1:])
            for c in "a_1z":
                words.add(k[:i] + c + k[i + 1:])
        for i in range(len(k) + 1):
            for c in "a_1e":
                words.add(k[:i] + c + k[i:])
        # decorated spellings in the style of GNU alternate keywords (`__const__`, `__inline`): keywords only if listed themselves
        base = k.strip("_")
        for pre in ("", "_", "__", "___"):
            for suf in ("", "_", "__", "___"):
                words.add(pre + k + suf)
                words.add(pre + base + suf)
        words.add(k + k)
        words.add(k.upper())
        words.add(k.capitalize())
    words = {w for w in words if w and (w[0].isalpha() or w[0] == "_") and all(ch.isalnum() or ch == "_" for ch in w)}
    # spellings that begin with an encoding prefix followed by nothing special stay identifiers; keep them
    return sorted(words)


def kw_enum(ctx):
    yield {"part": "dump"}
    yield {"part": "accept"}
    kws = sorted(KEYWORDS)
    for i in range(0, len(kws), 8):
        yield {"part": "reject", "words": kws[i:i + 8]}


def kw_check(case, ctx):
    res = Result()
    words = perturbations()
    if case["part"] == "dump":
        text = "".join(w + "\n" for w in words)
        rc, toks, err = dump(ctx, text)
        toks = [t for t in toks if t[0] != "newline"]
        res.n = len(words)
        if rc != 0 or len(toks) != len(words):
            res.fail = dict(sig="", msg="keyword table dump: rc %s, %d tokens for %d words" % (rc, len(toks), len(words)), input=text[:500])
            return res
        for w, got in zip(words, toks):
            want = ("keyword", KEYWORDS[w]) if w in KEYWORDS else ("ident", w)
            if got != want:
                res.fail = dict(sig="", msg="word %r is tokenised as %s, expected %s" % (w, got, want), input=w + "\n")
                return res
            res.keys.append(w)
        res.labels.append("keywords:%d" % len(KEYWORDS))
        res.sample = {"words": words[:8]}
    elif case["part"] == "accept":
        idents = [w for w in words if w not in KEYWORDS and not w.startswith("__builtin")]
        text = "".join("int %s = 1;\n" % w for w in idents)
        p = cproc.cc(ctx, text.encode(), "x86_64-sysv", "plain")
        res.n = len(idents)
        if p.rc != 0:
            res.fail = dict(sig="", msg="a near-keyword is not accepted as an identifier: %s" % p.err.decode(errors="replace")[:200], input=text[:300])
        res.keys.append("accept-all-near-keywords")
        res.keys.append("accept-%d" % len(idents))
    else:
        for w in case["words"]:
            p = cproc.cc(ctx, ("int %s = 1;\n" % w).encode(), "x86_64-sysv", "plain")
            res.n += 1
            if p.rc == 0:
                res.fail = dict(sig="", msg="`int %s = 1;` accepted: %r is not treated as a keyword" % (w, w), input="int %s = 1;\n" % w)
                return res
            res.keys.append("reject:" + w)
    return res


# ---- random token sequences with splices -----------------------------------------------------------------

NUMBERS = ["0", "1", "42", "1e+5", "1E-5", "0x1p+3", "0xe+1", "1..2", "1.e+5", ".5", "1_0", "12ab", "1e", "1e+", "0x", "1.2.3", "1e+5-1", "1e5-1", "0b101",
           "1u", "1ull", "1.0f", "0x1.8p-3f", "00", "09", "1'0",
           # a sign belongs to a pp-number only directly after e E p P (6.4.8): hexadecimal digits e/E further left do not count
           "0xef+1", "0xFEED-1", "0xdeadbeef+1", "0XBEEF-x", "0xeU+2", "0x1eLL-1", "0xe+1", "0x1E-1", "0xe1+1", "0xfd+1", "1e+5+1", "0x1p+1+1", "0xep+1",
           "1.e-3-2", "0x.ep-1", "1E+", "0xE", "0xee", "0x1e", "12e", "0e0+0", "1p+1", "0xa.bp+3+x", "1e5e+5", "1.2e+3.4e+5"]
PUNCTS = clex.PUNCT
WORDS = ["a", "b1", "_x", "int", "while", "u", "u8", "L", "U", "u8x", "Lx", "sizeof", "_Bool", "x_y", "abc123",
         # identifiers that look like encoding prefixes but are not (an identifier directly followed by a quote stays an identifier)
         "U8", "L8", "u88", "u16", "UL", "Lu8", "uU", "u8u8", "l", "u8_", "LL", "R", "u8R"]
LITS = ['"s"', '"a\\"b"', "'c'", "'\\''", 'L"w"', 'u8"x"', "u'y'", 'U"z"', '""', '"/* not a comment */"', '"// no"', "'\\\\'",
        # every simple escape sequence of 6.4.4.4, octal and hexadecimal escapes of every length, in both literal kinds
        '"\\a\\b\\f\\n\\r\\t\\v"', '"what\\?"', "'\\?'", "L'\\?'", 'u8"\\?\\\"\\\'"', "'\\\"'", '"\\\'"', "'\\a'", "'\\v'", '"\\0\\18\\012\\1234"', "'\\377'", '"\\x1\\x1fg\\x00000041"', "'\\x7f'", '"\\x0000000041"', "'\\x000000041'", 'L"\\x00000000000000041g"',
        '"??/"', '"\\\\?"']
OTHERS = ["$", "@", "`"]
SEPS = ["", "", " ", "  ", "\t", "/**/", "/* c */", " /*a*/ ", "\n", " \n ", "//x\n", "/*\n*/"]


@st.composite
def token_texts(draw):
    parts = []
    n = draw(st.integers(2, 14))
    for i in range(n):
        k = draw(st.integers(0, 9))
        if k <= 3:
            parts.append(draw(st.sampled_from(PUNCTS)))
        elif k <= 5:
            parts.append(draw(st.sampled_from(NUMBERS)))
        elif k <= 7:
            parts.append(draw(st.sampled_from(WORDS)))
        elif k == 8:
            if draw(st.booleans()):
                # an identifier (often prefix-like) written directly against a literal
                parts.append(draw(st.sampled_from(["U8", "L8", "u88", "UL", "Lu8", "uU", "u8u8", "u8_", "LL", "R", "x", "u", "U", "L", "u8", "_u8", "8u"])))
            parts.append(draw(st.sampled_from(LITS)))
        else:
            parts.append(draw(st.sampled_from(OTHERS + [".", "..", "...", "....", ". .", "#", "##", "# #"])))
        parts.append(draw(st.sampled_from(SEPS)))
    return "".join(parts)


def text_check(case, ctx):
    """case: text.  The text and every variant with one backslash-newline, a run of two or three, or two separate ones inserted must tokenise like the reference."""
    res = Result()
    text = case
    if "'" in text and "1'0" in text:
        text = text.replace("1'0", "10")
    if text.lstrip().startswith("#") or "\n#" in text.replace(" ", "").replace("\t", ""):
        text = "M " + text.replace("\n", " ")
    try:
        want = want_tokens(text)
    except clex.LexError:
        res.discard.append("reference-rejects (unterminated comment/literal)")
        return res
    variants = [text] + [text[:i] + "\\\n" + text[i:] for i in range(len(text) + 1)]
    # runs of adjacent splices (a continuation line that is only a backslash) and two separate splices
    variants += [text[:i] + "\\\n\\\n" + text[i:] for i in range(len(text) + 1)]
    variants += [text[:i] + "\\\n\\\n\\\n" + text[i:] for i in range(0, len(text) + 1, 3)]
    variants += [text[:i] + "\\\n" + text[i:i + 2] + "\\\n" + text[i + 2:] for i in range(0, max(len(text) - 1, 1), 2)]
    marker = "ZZ9MARK"
    blob = "".join("%s%d %s\n" % (marker, k, v) for k, v in enumerate(variants))
    rc, toks, err = dump(ctx, blob)
    res.n = len(variants)
    if rc != 0:
        # find the variant that is rejected
        for k, v in enumerate(variants):
            rc1, t1, e1 = dump(ctx, v + "\n")
            if rc1 != 0:
                res.fail = dict(sig="", msg="text rejected (%s): %r" % (e1.decode(errors="replace")[:120], v), input=v)
                return res
        res.fail = dict(sig="", msg="batch rejected: %r" % err[:200], input=blob[:1000])
        return res
    groups = []
    for c, s in toks:
        if c == "newline":
            continue
        if c == "ident" and s.startswith(marker) and s[len(marker):].isdigit():
            groups.append([])
            continue
        if not groups:
            groups.append([])
        groups[-1].append((c, s))
    if len(groups) != len(variants):
        res.fail = dict(sig="", msg="expected %d token groups, got %d" % (len(variants), len(groups)), input=blob[:1500])
        return res
    for k, (v, got) in enumerate(zip(variants, groups)):
        if got != want:
            res.fail = dict(sig="", msg="%s: cproc %s, C11 6.4 %s" % ("text %r" % v if k == 0 else "splice variant %r of %r" % (v, text), got, want), input=v)
            return res
    multi = any(len(s) > 1 for _, s in want)
    if multi:
        res.keys.append(sha(text))
    res.labels.append("text-with-%d-splice-variants" % min(len(variants) // 20 * 20, 100))
    res.sample = {"text": text[:120]}
    return res


def sources(ctx):
    return [
        Source("keywords", kw_check, enum=kw_enum, exhaustive=True),
        Source("punct", punct_check, enum=punct_enum, exhaustive=True),
        Source("texts", text_check, strategy=lambda c: token_texts(), examples={"quick": 8000, "thorough": 100000}),
    ]
