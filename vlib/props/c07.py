"""C07 — initialised objects contain exactly the specified initial image (DESIGN 3/C07)."""
import os
import shutil
import tempfile

from hypothesis import strategies as st

from .. import cproc, ilcheck, qbeil, refcc
from ..gen import initgen
from ..gen.exprgen import PROLOGUE
from ..runner import Result, Source, sha
from . import c01, c03

ID = "C07"
LEVEL = "exploration"
RULE = ("Hypothesis (type, initialiser) pairs over nested structs/unions/arrays with bit-fields: positional, designated (.m, [i], nested .a.b[2]), "
        "mixed, overriding, brace-elided, string (narrow and wide, shorter/exact), empty/zero initialisers, incomplete arrays, scalars in braces, "
        "pointers to objects/functions/string and compound literals with offsets; static, thread and const storage. Static half: each emitted data "
        "definition is decoded (size, alignment, byte image, relocations) and compared with the object clang --target emits for the same source on the "
        "three targets (named relocation targets by symbol+addend, anonymous ones by pointed-to contents; every byte incl. padding). Automatic half: "
        "the same initialiser on a local object, every scalar leaf dumped, executed via il2c and compared with gcc/clang runs. "
        "non-trivial = >=2 initialised leaves and a designator/override/elision/bit-field/string/relocation/incomplete array; distinct by (type, initialiser) text.")
ASSUMPTIONS = c01.ASSUMPTIONS + ["clang 14 --target objects give the reference image; padding in static storage is zero for all compilers"]

NT = {"designator", "override", "brace-elision", "bitfield", "string-init", "wide-string-init", "reloc", "incomplete-array", "nested-designator"}


def prepare(ctx):
    c01.prepare(ctx)


def static_source(case):
    out = [initgen.PRELUDE] + case["defs"]
    for o in case["objs"]:
        if o.get("pre"):
            out.append(o["pre"])
        out.append("%s%s = %s;" % (o["storage"], o["decl"], o["init"]))
        out.append("void *k_%s(void) { return (void *)&%s; }" % (o["name"], o["name"]))   # keeps unused statics alive in the reference
    return "\n".join(out) + "\n"


def resolve(elf, y, off, rtype, tsym, addend):
    """-> ('named', name, addend) or ('anon', content bytes from the target address)."""
    if tsym.type == "SECTION" or (tsym.name.startswith(".L") and tsym.bind == "LOCAL"):
        sec = tsym.shndx
        base = tsym.value + addend if tsym.type != "SECTION" else addend
        if tsym.type != "SECTION":
            base = tsym.value + addend
        for s2 in elf.symbols:
            if s2.shndx == sec and s2.type in ("OBJECT", "FUNC", "TLS") and s2.name and not s2.name.startswith(".L") \
                    and s2.value <= base < s2.value + max(s2.size, 1):
                return ("named", s2.name, base - s2.value)
        data = elf.sections[sec].data
        return ("anon", data[base:])
    return ("named", tsym.name, addend)


def compare_static(ctx, case, res, target):
    d = tempfile.mkdtemp(dir=ctx.wdir())
    try:
        src = static_source(case).encode()
        path = os.path.join(d, "s.c")
        with open(path, "wb") as f:
            f.write(src)
        res.n += 1
        # freed and fresh heap memory is filled with a non-zero pattern: an image byte that comes from memory the compiler
        # never wrote shows up as a difference instead of an accidental zero
        p = cproc.cc(ctx, src, target, "plain", timeout=60, env={"MALLOC_PERTURB_": "165"})
        elf, err = refcc.clang_obj(path, os.path.join(d, "s.o"), target, std="gnu2x", extra=refcc.target_flags(target) + ["-fno-data-sections"])
        if elf is None:
            res.discard.append("clang-rejects")
            if os.environ.get("VERIF_DUMP_DISCARDS"):
                dd = os.environ["VERIF_DUMP_DISCARDS"]
                os.makedirs(dd, exist_ok=True)
                with open(os.path.join(dd, "clang-rejects-%s.c" % sha(src)), "wb") as f:
                    f.write(b"/* " + (err or "").encode()[:1500] + b" */\n" + src)
            return
        gok, gerr = refcc.syntax_ok(path, "gcc", "gnu2x", pedantic=True)
        if not gok:
            import re as _re
            # gcc 12 does not know C23's empty initialiser yet: that one pedantic complaint is not a reason to drop the case
            if all("empty initializer braces" in ln for ln in gerr.splitlines() if " error: " in ln):
                gok = True
        if not gok:
            m = _re.search(r"error: ([^\n]*)", gerr)
            res.discard.append("gcc-pedantic-rejects: " + (_re.sub(r"'[^']*'", "X", m.group(1))[:50] if m else "?"))
            return
        if p.rc != 0:
            msg = p.err.decode(errors="replace")
            res.fail = dict(sig="reject:" + c01._errsig(msg), msg="valid initialisers rejected (%s): %s" % (target, msg[:300]), input=src.decode())
            return
        mod, errs = ilcheck.validate(p.out)
        if errs:
            res.fail = dict(sig="", msg="malformed IL: %s" % errs[:3], input=src.decode())
            return
        data = {dd.name: dd for dd in mod.data}
        for o in case["objs"]:
            name = o["name"]
            dd = data.get(name)
            y = elf.symbol(name)
            if dd is None or y is None:
                res.fail = dict(sig="", msg="object %s missing (cproc %s, clang %s)" % (name, dd is not None, y is not None), input=src.decode())
                return
            size, img, rel = qbeil.data_image(dd)
            ref = elf.sym_bytes(y)
            what = "%s%s = %s  [%s]" % (o["storage"], o["decl"], o["init"], target)
            if size != y.size:
                res.fail = dict(sig="", msg="size of %s: cproc %d, clang %d" % (what, size, y.size), input=src.decode())
                return
            rrel = elf.sym_relocs(y)
            # zero the relocated slots on both sides (REL-style addends never occur on these targets)
            a = bytearray(img)
            b = bytearray(ref)
            for off, n, sym, add, th in rel:
                a[off:off + n] = b"\0" * n
            for off, rt, ts, add in rrel:
                b[off:off + 8] = b"\0" * 8
            if a != b:
                i = next(k for k in range(len(a)) if a[k] != b[k])
                res.fail = dict(sig="", msg="image of %s differs at byte %d: cproc %s, clang %s" % (what, i, bytes(a).hex(), bytes(b).hex()), input=src.decode())
                return
            if sorted(r[0] for r in rel) != sorted(r[0] for r in rrel):
                res.fail = dict(sig="", msg="relocation offsets of %s: cproc %s, clang %s" % (what, sorted(r[0] for r in rel), sorted(r[0] for r in rrel)), input=src.decode())
                return
            rmap = {r[0]: r for r in rrel}
            for off, n, sym, add, th in rel:
                _, rt, ts, radd = rmap[off]
                kind = resolve(elf, y, off, rt, ts, radd)
                add = add if add < 1 << 63 else add - (1 << 64)
                if not sym.startswith(".L"):
                    if kind[0] != "named" or kind[1] != sym or kind[2] != add:
                        res.fail = dict(sig="", msg="address constant in %s at offset %d: cproc $%s%+d, clang %s" % (what, off, sym, add, kind[:3] if kind[0] == "named" else "anonymous object"), input=src.decode())
                        return
                else:
                    td = data.get(sym)
                    if td is None:
                        res.fail = dict(sig="", msg="%s refers to undefined $%s" % (what, sym), input=src.decode())
                        return
                    tsize, timg, trel = qbeil.data_image(td)
                    mine = timg[add:]
                    if kind[0] == "named":
                        ty = elf.symbol(kind[1])
                        theirs = (elf.sym_bytes(ty) or b"")[kind[2]:]
                    else:
                        theirs = kind[1]
                    if not mine or theirs[:len(mine)] != mine:
                        res.fail = dict(sig="", msg="anonymous object referenced by %s at offset %d: cproc $%s%+d holds %r, clang's target holds %r"
                                        % (what, off, sym, add, mine[:40], theirs[:40]), input=src.decode())
                        return
            res.labels.append("obj-compared")
        c03.data_vs_clang(ctx, mod, src, target, res, "C07 static objects")
    finally:
        shutil.rmtree(d, ignore_errors=True)


def static_check(case, ctx):
    res = Result()
    for t in cproc.TARGETS:
        compare_static(ctx, case, res, t)
        if res.fail:
            break
    res.labels.extend("g:" + l for l in case["labels"])
    if res.fail is None and set(case["labels"]) & NT:
        for o in case["objs"]:
            res.keys.append(sha([o["decl"], o["init"]]))
    res.sample = {"objs": ["%s%s = %s;" % (o["storage"], o["decl"], o["init"]) for o in case["objs"]][:3]}
    return res


# ---- automatic half ------------------------------------------------------------------------------

def leaf_dump(path, t):
    n = t.name
    if n in ("float", "double"):
        return "chk_f64(%s);" % path
    if n in ("char *", "const char *"):
        return "if (%s) chk_str(%s); else chk_tag(0);" % (path, path)
    if n == "int *":
        return "if (%s) chk_i64(*%s); else chk_tag(0);" % (path, path)
    if n == "void *":
        return "chk_i64(%s != 0);" % path
    if n == "int (*)(void)":
        return "if (%s) chk_i64(%s()); else chk_tag(0);" % (path, path)
    if n.startswith("unsigned") or n == "_Bool":
        return "chk_u64(%s);" % path
    return "chk_i64(%s);" % path


@st.composite
def auto_cases(draw):
    g = initgen.G(draw)
    g.auto = True
    objs = []
    body = []
    for i in range(draw(st.integers(1, 3))):
        t = g.type()
        if _has_union(t):
            t = initgen.T("array", elem=initgen.T("scalar", "int"), n=3)
        init = g.init(t)
        decl = t.decl("v%d" % i)
        body.append("\t%s = %s;" % (decl, init))
        for path, lt in t.leaves("v%d" % i):
            body.append("\t" + leaf_dump(path, lt))
        body.append("\tchk_u64(sizeof v%d);" % i)
        objs.append((decl, init))
    src = PROLOGUE + initgen.PRELUDE + "\n".join(g.defs) + "\nstatic void f(void) {\n" + "\n".join(body) + "\n}\nint main(void) { f(); f(); return 0; }\n"
    return {"src": src, "t": draw(st.integers(0, 2)), "profile": "auto-init", "labels": sorted(g.labels), "always_ref": True, "std": "gnu2x",
            "objs": objs}


def _has_union(t):
    if t.kind == "union":
        return True
    if t.kind == "array":
        return _has_union(t.elem)
    if t.kind == "struct":
        return any(mt is not None and _has_union(mt) for mn, mt in t.members if mn is not None or (mt is not None and mt.anon))
    return False


def auto_check(case, ctx):
    res = Result()
    c01.judge(ctx, case, res)
    res.labels.extend("g:" + l for l in case["labels"])
    if not (set(case["labels"]) & NT):
        res.keys = []
    res.sample = {"auto": ["%s = %s" % tuple(o) for o in case["objs"]][:2]}
    return res


def input_check(case, ctx):
    res = Result()
    for t in case.get("targets", cproc.TARGETS):
        compare_static(ctx, case, res, t)
        if res.fail:
            break
    if res.fail is not None and case.get("sig"):
        res.fail["sig"] = case["sig"]
    res.keys.append(sha(case["objs"]))
    return res


def sources(ctx):
    return [
        Source("input", input_check, enum=lambda ctx: iter(())),
        Source("auto-input", c01.input_check, enum=lambda ctx: iter(())),
        Source("static", static_check, strategy=lambda c: initgen.init_cases(), examples={"quick": 1200, "thorough": 50000}),
        Source("auto", auto_check, strategy=lambda c: auto_cases(), examples={"quick": 250, "thorough": 8000}),
    ]
