"""C08 — calls interoperate with code built by the platform compiler (DESIGN 3/C08)."""
import os
import re
import shutil
import struct
import tempfile

from hypothesis import strategies as st

from .. import cproc, ilcheck, ilexec, il2c, qbeil, refcc
from ..gen import initgen
from ..gen.exprgen import PROLOGUE
from ..runner import Result, Source, run, sha
from . import c01

ID = "C08"
LEVEL = "exploration"
RULE = ("Hypothesis function signatures with 0-12 parameters and a return type drawn from all scalar types and generated struct/union types (1-64 bytes; "
        "integer/float/double/pointer fields, nested aggregates, arrays, bit-fields) and variadic signatures with promoted argument lists long enough to spill "
        "registers. Dynamic (x86_64 SysV): caller.c builds position-dependent argument patterns, callee.c checks and prints every received leaf and returns a "
        "pattern; four executables caller x callee in {cproc via il2c, gcc -O0}: the two mixed ones must print what the gcc/gcc control prints (the cproc/cproc "
        "one too). Structural (3 targets): every aggregate `type` in the IL, flattened with QBE's layout rule into a byte map offset -> {int, s, d}, must equal "
        "the C type's byte map derived from clang --target offsetof tables (bit-fields count as integer bytes of their storage units; unions compare sets), with "
        "equal size and alignment; parameter/return classes must match the prototype. non-trivial = signature with an aggregate by value (not a single "
        "scalar) or variadic; distinct by signature text.")
ASSUMPTIONS = c01.ASSUMPTIONS + ["gcc 12 -O0 is the platform compiler on the host; aggregates rebuilt from the emitted IL type descriptions are classified by the host ABI exactly as QBE would classify them",
                                 "va_arg of aggregates, long double, _Complex, over-aligned and packed/_Alignas-member aggregates by value are unsupported or recorded findings and not generated"]

SCALARS = ["char", "signed char", "unsigned char", "short", "unsigned short", "int", "unsigned", "long", "unsigned long", "long long", "float", "double", "void *", "_Bool"]


def prepare(ctx):
    c01.prepare(ctx)


def small_type(g, draw, depth=0):
    """A by-value aggregate of 1..64 bytes, or a scalar."""
    k = draw(st.integers(0, 9))
    if k <= 4:
        return initgen.T("scalar", draw(st.sampled_from(SCALARS)))
    kind = "struct" if k <= 8 else "union"
    tag = g.uid("S" if kind == "struct" else "U")
    members = []
    text = []
    for i in range(draw(st.integers(1, 5))):
        mn = "m%d" % i
        mk = draw(st.integers(0, 9))
        if kind == "struct" and mk == 0:
            base = draw(st.sampled_from(["int", "unsigned", "long", "unsigned char", "short"]))
            w = min(initgen.BITS[base], draw(st.sampled_from([1, 3, 7, 9, 17, 31, 33])))
            members.append((mn, initgen.T("scalar", base, bf=w)))
            text.append("%s %s:%d;" % (base, mn, w))
        elif mk <= 6 or depth >= 2:
            t = initgen.T("scalar", draw(st.sampled_from(SCALARS)))
            members.append((mn, t))
            text.append(t.decl(mn) + ";")
        elif mk <= 8:
            elem = initgen.T("scalar", draw(st.sampled_from(["char", "short", "int", "float", "double", "long"])))
            shape = draw(st.integers(0, 5))
            if shape == 0 and depth < 2:
                # array of aggregates
                elem = small_type(g, draw, depth + 1)
            elif shape <= 2:
                # multi-dimensional array: the IL description must count all elements
                for _ in range(draw(st.integers(1, 2))):
                    elem = initgen.T("array", elem=elem, n=draw(st.integers(1, 3)))
            t = initgen.T("array", elem=elem, n=draw(st.integers(1, 4)))
            members.append((mn, t))
            text.append(t.decl(mn) + ";")
        else:
            t = small_type(g, draw, depth + 1)
            members.append((mn, t))
            text.append(t.decl(mn) + ";")
    g.defs.append("%s %s { %s };" % (kind, tag, " ".join(text)))
    return initgen.T(kind, tag=tag, members=members)


def leaves(t, prefix):
    """Scalar leaves used by the pattern; for a union only its first member."""
    if t.kind == "scalar":
        yield prefix, t
    elif t.kind == "array":
        for i in range(t.n):
            yield from leaves(t.elem, "%s[%d]" % (prefix, i))
    elif t.kind == "union":
        mn, mt = t.members[0]
        yield from leaves(mt, "%s.%s" % (prefix, mn))
    else:
        for mn, mt in t.members:
            yield from leaves(mt, "%s.%s" % (prefix, mn))


def pat(k, t):
    """Pattern value (C expression) for leaf number k of scalar type t."""
    n = t.name
    if n in ("float", "double"):
        return "%d.5%s" % (k % 97, "f" if n == "float" else "")
    if n == "void *":
        return "(void *)&anchor[%d]" % (k % 8)
    if n == "_Bool":
        return str(k % 2)
    bits = t.bf if t.bf is not None else initgen.BITS[n]
    signed = not n.startswith("unsigned") and n != "_Bool"
    if k % 4 == 1 and bits > 8:
        # a value that uses every byte of the type: a truncated or wrongly extended transfer shows
        h = (k * 0x9E3779B97F4A7C15 + 0x0123456789ABCDEF) & ((1 << 64) - 1)
        v = h >> (64 - bits)
        if signed:
            v -= 1 << (bits - 1)
            if v == -(1 << (bits - 1)):
                v += 1
        elif bits >= 32:
            v |= 1 << (bits - 1)
        return "%d%s" % (v, ("" if signed else "u") + ("l" if bits > 32 else ""))
    v = (k * 37 + 11)
    if signed:
        lim = 1 << (min(bits, 31) - 1) if bits > 1 else 1
        v = v % lim if bits > 1 else 0
        if k % 3 == 0 and bits > 1:
            v = -v
    else:
        v = v % (1 << min(bits, 31))
    return str(v)


def chk(path, t):
    n = t.name
    if n in ("float", "double"):
        return "chk_f64(%s);" % path
    if n == "void *":
        return "chk_i64((long *)%s - anchor);" % path
    if n.startswith("unsigned") or n == "_Bool":
        return "chk_u64(%s);" % path
    return "chk_i64(%s);" % path


@st.composite
def signatures(draw):
    g = initgen.G(draw)
    variadic = draw(st.integers(0, 4)) == 0
    nparams = draw(st.integers(0, 12))
    params = [small_type(g, draw) for _ in range(nparams)]
    ret = small_type(g, draw) if draw(st.integers(0, 5)) else None
    if variadic and not params:
        params = [initgen.T("scalar", "int")]
    vargs = []
    if variadic:
        for _ in range(draw(st.integers(1, 14))):
            vargs.append(draw(st.sampled_from(VARG_KINDS)))
    return build(g.defs, params, ret, vargs, draw(st.sampled_from([0, 0, 1, 2, 2, 3])))


# variable arguments: (spelling of the argument's type, type named in va_arg).  Where the two differ the default argument
# promotions (6.5.2.2p6) stand between caller and callee: narrow integers, _Bool and bit-fields to int, float to double,
# enumerated types to their promoted compatible type (64-bit ones stay 64-bit).
VARG_DEFS = ("enum vew { VEW0, VEWBIG = 0x100000000 }; enum ven { VENNEG = -0x100000000, VEN1 = 1 }; enum ves { VES0, VES1 = 200 }; enum vei { VEIM = -1, VEI1 = 1 };\n"
             "struct vbf { int a : 5; unsigned b : 7; unsigned c : 32; _Bool d : 1; };\n")
VARG_KINDS = ["int", "long", "double", "void *", "unsigned", "unsigned long", "long long", "unsigned long long",
              ("float", "double"), ("char", "int"), ("signed char", "int"), ("unsigned char", "int"), ("short", "int"), ("unsigned short", "int"), ("_Bool", "int"),
              ("enum vew", "enum vew"), ("enum ven", "enum ven"), ("enum ves", "enum ves"), ("enum vei", "enum vei"), ("@VEWBIG", "long"), ("@VENNEG", "long"), ("@VES1", "int"),
              ("@vb.a", "int"), ("@vb.b", "int"), ("@vb.c", "unsigned"), ("@vb.d", "int")]
ENUM_AS = {"enum vew": "unsigned long", "enum ven": "long", "enum ves": "unsigned", "enum vei": "int"}


def varg(vk, j):
    """-> (argument expression, va_arg type, T for the check)"""
    src, va = (vk, vk) if isinstance(vk, str) else vk
    if src.startswith("@"):
        return src[1:], va, initgen.T("scalar", va)
    vt = ENUM_AS.get(src, src)
    return "(%s)%s" % (src, pat(500 + j, initgen.T("scalar", vt))), va, initgen.T("scalar", ENUM_AS.get(va, va))


def sizeof_ok(t):
    return True


def build(defs, params, ret, vargs, callform=0):
    header = PROLOGUE + "extern long anchor[8];\n" + (VARG_DEFS if vargs else "") + "\n".join(defs) + "\n"
    rdecl = ret.decl("") .strip() if ret is not None else "void"
    plist = [p.decl("a%d" % i) for i, p in enumerate(params)]
    if vargs:
        plist.append("...")
    proto = "%s callee(%s)" % (rdecl, ", ".join(plist) if plist else "void")
    # callee
    body = []
    k = 0
    for i, p in enumerate(params):
        for path, lt in leaves(p, "a%d" % i):
            body.append("\t" + chk(path, lt))
    if vargs:
        body.append("\t__builtin_va_list ap; __builtin_va_start(ap, a%d);" % (len(params) - 1))
        for j, vk in enumerate(vargs):
            _, va, t = varg(vk, j)
            body.append("\t{ %s v = __builtin_va_arg(ap, %s); %s }" % (va, va, chk("v", t)))
        body.append("\t__builtin_va_end(ap);")
    if ret is not None:
        body.append("\t%s%s;" % (ret.decl("r"), " = { 0 }" if ret.kind != "scalar" else ""))
        for j, (path, lt) in enumerate(leaves(ret, "r")):
            body.append("\t%s = %s;" % (path, pat(1000 + j, lt)))
        body.append("\treturn r;")
    callee = header + proto + " {\n" + "\n".join(body) + "\n}\n"
    # caller
    cb = []
    kk = 0
    for i, p in enumerate(params):
        cb.append("\t%s%s;" % (p.decl("a%d" % i), " = { 0 }" if p.kind != "scalar" else ""))
        for path, lt in leaves(p, "a%d" % i):
            cb.append("\t%s = %s;" % (path, pat(kk, lt)))
            kk += 1
    args = ["a%d" % i for i in range(len(params))]
    if vargs:
        cb.append("\tstruct vbf vb = { -3, 100, 0xfedcba98u, 1 };")
    for j, vk in enumerate(vargs):
        args.append(varg(vk, j)[0])
    # how the caller names the function: directly, through a pointer, or through a callee expression that itself contains calls
    # with arguments (a selector returning the function pointer, an indexed table)
    pre = ""
    fn = "callee"
    if callform == 1:
        cb.append("\t__typeof__(callee) *fp = callee;")
        fn = "(*fp)"
    elif callform == 2:
        pre = "static __typeof__(callee) *sel(int a, long b, double c) { chk_i64(a); chk_i64(b); chk_f64(c); return a == 3 ? callee : 0; }\n"
        fn = "sel(3, anchor[1], 2.5)"
    elif callform == 3:
        pre = "static int idx(int a, void *p) { chk_i64(a); return a - 1 + (p == 0); }\n"
        cb.append("\t__typeof__(callee) *tab[2] = { 0, callee };")
        fn = "tab[idx(2, anchor)]"
    call = "%s(%s)" % (fn, ", ".join(args))
    if ret is not None:
        cb.append("\t%s = %s;" % (ret.decl("r"), call))
        for path, lt in leaves(ret, "r"):
            cb.append("\t" + chk(path, lt))
    else:
        cb.append("\t%s;" % call)
    caller = header + proto + ";\nlong anchor[8] = { 1, 2, 3, 4, 5, 6, 7, 8 };\n" + pre + "int main(void) {\n" + "\n".join(cb) + "\n\treturn 0;\n}\n"
    agg = any(p.kind != "scalar" for p in params) or (ret is not None and ret.kind != "scalar")
    single = all(p.kind == "scalar" or len(list(leaves(p, "x"))) <= 1 for p in params)
    # structural table source: sizeof/_Alignof and leaf offsets of every aggregate type by tag
    return {"callee": callee, "caller": caller, "proto": proto, "nfixed": len(params), "variadic": bool(vargs), "nontrivial": bool(vargs) or (agg and not single), "defs": defs,
            "labels": (["variadic"] if vargs else []) + (["aggregate"] if agg else []) + ["params:%d" % len(params), "callform:%d" % callform]}


def build_side(ctx, d, name, src, how):
    """-> object-level unit for ilexec.build_exe"""
    if how == "gcc":
        return ("c", name, src, ["-O0", "-std=gnu11"])
    p = cproc.cc(ctx, src.encode(), "x86_64-sysv", "plain", timeout=60)
    if p.rc != 0:
        raise RuntimeError("cproc rejects %s: %s" % (name, p.err.decode(errors="replace")[:300]))
    return ("il", name, p.out, "x86_64-sysv")


def dynamic_check(case, ctx):
    res = Result()
    d = tempfile.mkdtemp(dir=ctx.wdir())
    try:
        outs = {}
        for ca, ce in (("gcc", "gcc"), ("cproc", "gcc"), ("gcc", "cproc"), ("cproc", "cproc")):
            sub = os.path.join(d, "%s-%s" % (ca, ce))
            os.makedirs(sub)
            try:
                units = [build_side(ctx, sub, "caller", case["caller"], ca), build_side(ctx, sub, "callee", case["callee"], ce)]
                exe = ilexec.build_exe(ctx, sub, units, asan=True)
            except RuntimeError as e:
                res.fail = dict(sig="reject:" + c01._errsig(str(e)), msg=str(e), input=case["callee"] + "\n/* caller */\n" + case["caller"])
                return res
            except ValueError as e:
                res.fail = dict(sig="", msg="malformed IL: %s" % e.args[0][:3], input=case["callee"])
                return res
            except il2c.Unsupported as e:
                res.discard.append("il2c-unsupported: %s" % e)
                return res
            except ilexec.ExecError as e:
                if ca == "gcc" and ce == "gcc":
                    res.discard.append("control-does-not-build")
                    return res
                res.fail = dict(sig="machinery:il2c", msg=str(e)[:1500], input=case["callee"])
                return res
            res.n += 1
            outs[(ca, ce)] = ilexec.run_exe(exe, timeout=20)
        # descriptor check on the caller's IL: the '...' marker must follow exactly the named parameters
        pc = cproc.cc(ctx, case["caller"].encode(), "x86_64-sysv", "plain")
        if pc.rc == 0:
            modc, _ = ilcheck.validate(pc.out)
            if modc is not None:
                for f in modc.funcs:
                    for b in f.blocks:
                        for ins in b.insts:
                            if ins.op == "call" and ins.args[0].kind == "glo" and ins.args[0].v == "callee":
                                want = case.get("nfixed") if case.get("variadic") else None
                                if ins.variadic_at != want and "nfixed" in case:
                                    res.fail = dict(sig="", msg="call of callee: variadic marker after %s arguments, the prototype has %s named parameters (%s)"
                                                    % (ins.variadic_at, want, case["proto"]), input=case["caller"])
                                    return res
        ctl = outs[("gcc", "gcc")]
        if ctl[0] != "ok" or ctl[1] != 0:
            res.discard.append("control-run-failed")
            return res
        for key in (("cproc", "gcc"), ("gcc", "cproc"), ("cproc", "cproc")):
            o = outs[key]
            if o[0] != "ok" or o[1] != ctl[1] or o[2] != ctl[2]:
                a = ctl[2].decode(errors="replace").splitlines()
                b = o[2].decode(errors="replace").splitlines()
                i = 0
                while i < min(len(a), len(b)) and a[i] == b[i]:
                    i += 1
                bf = re.search(r":\d+;", "".join(case["defs"])) is not None
                res.fail = dict(sig="byvalue-bitfield-aggregate" if bf else "", msg="caller=%s callee=%s: %s; first difference at value #%d: got %r, platform compiler pair prints %r\nprototype: %s\n%s"
                                % (key[0], key[1], o[0], i, b[i] if i < len(b) else None, a[i] if i < len(a) else None, case["proto"], o[3].decode(errors="replace")[:600]),
                                input=case["callee"] + "\n/* caller */\n" + case["caller"])
                return res
        if case["nontrivial"]:
            res.keys.append(sha(case["proto"] + "".join(case["defs"])))
        res.labels.extend(case["labels"])
        res.sample = {"proto": case["proto"], "defs": case["defs"][:3]}
        return res
    finally:
        shutil.rmtree(d, ignore_errors=True)


# ---- structural ------------------------------------------------------------------------------------------------

def ctype_bytemap(tdefs, tree, offsets, base=0):
    """byte -> set of classes for C type `tree` (initgen.T) given leaf offsets from clang; unions contribute every member."""
    raise NotImplementedError


@st.composite
def struct_cases(draw):
    g = initgen.G(draw)
    types = []
    for _ in range(draw(st.integers(1, 5))):
        t = small_type(g, draw)
        if t.kind != "scalar":
            types.append(t)
    if not types:
        t = small_type(g, draw)
        while t.kind == "scalar":
            t = small_type(g, draw)
        types.append(t)
    return {"defs": g.defs, "types": [(t.kind, t.tag) for t in types], "trees": [tree_json(t) for t in types], "t": draw(st.integers(0, 2)),
            "first": [draw(st.sampled_from([0, 0, 1, 2, 3])) for _ in types]}


def tree_json(t):
    if t.kind == "scalar":
        return {"k": "scalar", "name": t.name, "bf": t.bf}
    if t.kind == "array":
        return {"k": "array", "n": t.n, "elem": tree_json(t.elem)}
    return {"k": t.kind, "tag": t.tag, "members": [(mn, tree_json(mt)) for mn, mt in t.members]}


def all_leaves(tj, prefix, union_all=True):
    if tj["k"] == "scalar":
        yield prefix, tj
    elif tj["k"] == "array":
        for i in range(tj["n"]):
            yield from all_leaves(tj["elem"], "%s[%d]" % (prefix, i))
    else:
        for mn, mt in tj["members"]:
            yield from all_leaves(mt, "%s.%s" % (prefix, mn) if prefix else mn)


SIZE = {"char": 1, "signed char": 1, "unsigned char": 1, "_Bool": 1, "short": 2, "unsigned short": 2, "int": 4, "unsigned": 4, "float": 4, "long": 8,
        "unsigned long": 8, "long long": 8, "double": 8, "void *": 8}


def first_use_lines(i, tn, first):
    out = []
    if first == 1:
        out.append("int cb%d(%s, int x) { return x; }" % (i, tn))
        out.append("int use%d(%s *p) { return cb%d(*p, 1); }" % (i, tn, i))
    elif first == 2:
        out.append("long cb%d(int, %s, long y) { return y; }" % (i, tn))
        out.append("long use%d(%s *p) { return cb%d(1, *p, 2); }" % (i, tn, i))
    elif first == 3:
        out.append("void sink%d(%s); void cb%d(%s *p) { sink%d(*p); }" % (i, tn, i, tn, i))
    out.append("%s pass%d(%s v) { return v; }" % (tn, i, tn))
    return out


def struct_unit(case):
    """The by-value unit of a structural case (shared with C03)."""
    lines = list(case["defs"])
    for i, (kind, tag) in enumerate(case["types"]):
        first = (case.get("first") or [0] * len(case["types"]))[i]
        lines.extend(first_use_lines(i, "%s %s" % (kind, tag), first))
    return "\n".join(lines) + "\n"


def struct_check(case, ctx):
    res = Result()
    target = cproc.TARGETS[case["t"]]
    # a unit that passes every type by value so that cproc emits its IL type, plus the offset table for clang
    lines = list(case["defs"])
    tabs = []
    for i, ((kind, tag), tj) in enumerate(zip(case["types"], case["trees"])):
        tn = "%s %s" % (kind, tag)
        # how the type first reaches the backend: as named parameter/return (0), as an unnamed parameter of a definition
        # (C23; first or in the middle), or as a call argument
        first = (case.get("first") or [0] * len(case["types"]))[i]
        lines.extend(first_use_lines(i, tn, first))
        ents = ["sizeof(%s)" % tn, "_Alignof(%s)" % tn]
        lv = []
        for path, lj in all_leaves(tj, ""):
            if lj["bf"] is None:
                ents.append("__builtin_offsetof(%s, %s)" % (tn, path))
                lv.append((path, lj, True))
            else:
                lv.append((path, lj, False))
        tabs.append((i, tn, ents, lv))
    src = "\n".join(lines) + "\n"
    tsrc = src + "".join("unsigned long tab%d[] = { %s };\n" % (i, ", ".join(e)) for i, tn, e, lv in tabs)
    # images of objects with one bit-field set: which bytes does the bit-field's storage occupy
    bfo = []
    for i, tn, e, lv in tabs:
        for path, lj, plain in lv:
            if not plain:
                bfo.append((i, path))
                tsrc += "%s bf%d_%d = { .%s = -1 };\n" % (tn, i, len(bfo), path)
    d = tempfile.mkdtemp(dir=ctx.wdir())
    try:
        path = os.path.join(d, "t.c")
        open(path, "w").write(tsrc)
        elf, err = refcc.clang_obj(path, os.path.join(d, "t.o"), target, std="gnu11", extra=refcc.target_flags(target))
    finally:
        shutil.rmtree(d, ignore_errors=True)
    res.n = len(tabs)
    if elf is None:
        res.discard.append("clang-rejects")
        return res
    p = cproc.cc(ctx, src.encode(), target, "plain")
    if p.rc != 0:
        res.fail = dict(sig="reject:" + c01._errsig(p.err.decode(errors="replace")), msg="by-value aggregate unit rejected: %s" % p.err.decode(errors="replace")[:200], input=src)
        return res
    mod, errs = ilcheck.validate(p.out)
    if errs:
        res.fail = dict(sig="", msg="malformed IL %s" % errs[:2], input=src)
        return res
    funcs = {f.name: f for f in mod.funcs}
    nbf = 0
    for i, tn, ents, lv in tabs:
        f = funcs.get("pass%d" % i)
        if f is None or not f.rettype or not f.params or f.params[0][0] != f.rettype:
            res.fail = dict(sig="", msg="pass%d: aggregate parameter/return are not described by one IL type: %s" % (i, f and (f.rettype, f.params)), input=src)
            return res
        first = (case.get("first") or [0] * len(case["types"]))[i]
        if first:
            g = funcs.get("cb%d" % i)
            if first == 3:
                got_cls = [ca[0][0] for b_ in g.blocks for ins in b_.insts if ins.op == "call" and ins.cargs for ca in [ins.cargs]] if g else []
            else:
                got_cls = [g.params[first - 1][0]] if g and len(g.params) >= first else []
            if got_cls != [f.rettype]:
                res.fail = dict(sig="", msg="cb%d: the aggregate %s is described as %s where pass%d uses %s (first use shape %d)" % (i, tn, got_cls, i, f.rettype, first),
                                input=src, il=p.out.decode()[:1500])
                return res
            res.labels.append("first-use-shape:%d" % first)
        size, align, flat = qbeil.type_layout(mod, f.rettype[1:])
        tab = struct.unpack("<%dQ" % len(ents), elf.sym_bytes(elf.symbol("tab%d" % i)))
        csize, calign = tab[0], tab[1]
        has_bf = any(not plain for _, _, plain in lv)
        if (size, align) != (csize, calign):
            res.fail = dict(sig="iltype-bitfield-size" if has_bf else "", msg="IL type %s of %s has size %d align %d; the C type has size %d align %d (%s)" % (f.rettype, tn, size, align, csize, calign, target), input=src, il=p.out.decode()[:1500])
            return res
        want = {}
        oi = 2
        for path, lj, plain in lv:
            if plain:
                off = tab[oi]
                oi += 1
                cls = {"float": "s", "double": "d"}.get(lj["name"], "int")
                for b in range(off, off + SIZE[lj["name"]]):
                    want.setdefault(b, set()).add(cls)
            else:
                nbf += 1
                y = elf.symbol("bf%d_%d" % (i, nbf))
                img = elf.sym_bytes(y) if y is not None else b""
                for b, byte in enumerate(img):
                    if byte:
                        want.setdefault(b, set()).add("int")
        got = {}
        for off, cls, sz in flat:
            c = {"s": "s", "d": "d"}.get(cls, "int")
            for b in range(off, off + sz):
                got.setdefault(b, set()).add(c)
        # every byte the C type uses must be described with the same class set; integer storage units of bit-fields may
        # extend over more bytes than the bits used, so extra IL integer bytes are allowed only inside the type's size
        # what the three ABIs consume is the set of classes per eightbyte (and, for homogeneous float aggregates, that no
        # integer byte exists at all): compare those; integer storage units of bit-fields may cover more bytes than bits
        def chunks(m):
            out = {}
            for b, cs in m.items():
                out.setdefault(b // 8, set()).update(cs)
            return out
        bad = chunks(got) != chunks(want)
        if bad:
            res.fail = dict(sig="iltype-bitfield-classes" if has_bf else "", msg="IL type %s of %s on %s: class map %s, the C layout needs %s" % (f.rettype, tn, target, _fmt(got), _fmt(want)), input=src, il=p.out.decode()[:1500])
            return res
        res.keys.append(sha([tn, case["defs"], target]))
    res.labels.append("target:" + target)
    res.sample = {"types": case["defs"][:3], "target": target}
    return res


def _fmt(m):
    return " ".join("%d:%s" % (b, "/".join(sorted(c))) for b, c in sorted(m.items()))


def input_check(case, ctx):
    res = dynamic_check(case, ctx)
    if res.fail is not None and case.get("sig"):
        res.fail["sig"] = case["sig"]
    return res


def marker_enum(ctx):
    from . import c03
    for i in range(len(c03.SPECIAL_UNITS)):
        for t in range(3):
            yield {"unit": i, "t": t}


def marker_check(case, ctx):
    """Variadic marker and argument classes of direct and indirect calls agree with the definitions in the same unit
    (hand-written units shared with C03: functions without named parameters, calls through pointers, unnamed parameters)."""
    from . import c03
    res = Result()
    src = c03.SPECIAL_UNITS[case["unit"]]
    target = cproc.TARGETS[case["t"]]
    p = cproc.cc(ctx, src.encode(), target, "plain")
    res.n = 1
    if p.rc != 0:
        res.fail = dict(sig="", msg="valid unit rejected (%s): %s" % (target, p.err.decode(errors="replace")[:200]), input=src)
        return res
    mod, errs = ilcheck.validate(p.out)
    if errs:
        res.fail = dict(sig="", msg="calls and definitions disagree (%s): %s" % (target, errs[:3]), input=src, il=p.out.decode()[:1500])
        return res
    # an aggregate that is passed or returned by value must be described with its members (or as an opaque block of its size)
    for td in mod.types.values():
        if not td.fields and not td.opaque_size:
            res.fail = dict(sig="", msg="type :%s is described as an empty aggregate (%s)" % (td.name, target), input=src, il=p.out.decode()[:1500])
            return res
    # every call of a function pointer typed `T (...)` / `T (int, ...)` must carry the marker after the named arguments
    want = {"vzp": 0, "vqp": 0}
    for f in mod.funcs:
        for b in f.blocks:
            for ins in b.insts:
                if ins.op == "call" and ins.args[0].kind != "glo" and case["unit"] in (0, 1) and ins.variadic_at != 0:
                    res.fail = dict(sig="", msg="indirect call of a function without named parameters in $%s has the marker at %s" % (f.name, ins.variadic_at), input=src, il=p.out.decode()[:1500])
                    return res
    res.keys.append(sha([src, target]))
    res.sample = {"unit": src[:100], "target": target}
    return res


# ---- results with unspecified upper bits ----------------------------------------------------------------------
# The x86-64 psABI defines only the low 8/16/32 bits of the result register for _Bool/char/short/int results; what the
# platform compiler leaves above them is arbitrary.  The callee here is written in assembler and returns each value with
# every undefined bit set to garbage; the caller is C, once compiled by gcc (reference) and once by cproc.
DIRTY_ASM = r"""
__asm__(".text\n"
".globl db_false\n db_false: movabsq $0xdeadbeefcafebe00, %rax\n ret\n"
".globl db_true\n db_true: movabsq $0xdeadbeefcafebe01, %rax\n ret\n"
".globl d_sc\n d_sc: movabsq $0x12345678123456f0, %rax\n ret\n"
".globl d_uc\n d_uc: movabsq $0x12345678ffffff0f, %rax\n ret\n"
".globl d_ss\n d_ss: movabsq $0x7fffffff7fff8001, %rax\n ret\n"
".globl d_us\n d_us: movabsq $0xffffffffffff0002, %rax\n ret\n"
".globl d_si\n d_si: movabsq $0xdeadbeef80000005, %rax\n ret\n"
".globl d_ui\n d_ui: movabsq $0xffffffff00000007, %rax\n ret\n"
".globl d_zero\n d_zero: movabsq $0xfeedfacefeed0000, %rax\n ret\n"
);
"""
DIRTY_DECLS = ("_Bool db_false(void); _Bool db_true(void); signed char d_sc(void); unsigned char d_uc(void); short d_ss(void); unsigned short d_us(void);\n"
               "int d_si(void); unsigned d_ui(void); short d_zero(void);\n")
DIRTY_USES = [
    "chk_i64(%s ? 1 : 2);", "if (%s) chk_i64(10); else chk_i64(11);", "chk_i64(%s && 1);", "chk_i64(0 || %s);", "chk_i64(!%s);", "chk_i64(%s + 0);", "{ long l = %s; chk_i64(l); }",
    "chk_i64(%s < 0);", "chk_i64(%s == 0);", "while (%s) { chk_i64(99); break; }", "for (; %s;) { chk_i64(98); break; }", "{ int n = 0; do { n++; } while (%s && n < 3); chk_i64(n); }",
    "switch (%s) { case 0: chk_i64(20); break; case 1: chk_i64(21); break; case -16: chk_i64(22); break; case 15: chk_i64(23); break; case 2: chk_i64(24); break; case 5: chk_i64(26); break; default: chk_i64(25); }",
    "chk_f64((double)%s);", "chk_u64((unsigned long)%s);", "chk_i64(%s >> 1);", "chk_i64(-%s);", "chk_i64(~%s);", "chk_i64(%s * 3);", "{ long a[20] = { 0 }; a[(unsigned char)%s & 15] = 5; chk_i64(a[0] + a[1] + a[15]); }",
    "{ __typeof__(%s) v = %s; chk_i64(v); }", "chk_i64(pass_l(%s));", "chk_i64(%s ? %s : 7);", "chk_i64((%s, 3) + %s);",
]


def dirty_enum(ctx):
    fns = ["db_false", "db_true", "d_sc", "d_uc", "d_ss", "d_us", "d_si", "d_ui", "d_zero"]
    for i, fn in enumerate(fns):
        for ind in (False, True):
            yield {"fn": fn, "indirect": ind}


def dirty_check(case, ctx):
    res = Result()
    fn = case["fn"]
    call = "%s()" % fn if not case["indirect"] else "fp()"
    body = []
    if case["indirect"]:
        body.append("\t__typeof__(%s) *volatile_free_fp = %s, *fp = volatile_free_fp;" % (fn, fn))
    for u in DIRTY_USES:
        body.append("\t" + u.replace("%s", call))
    caller = PROLOGUE + DIRTY_DECLS + "static long pass_l(long v) { return v; }\nint main(void) {\n" + "\n".join(body) + "\n\treturn 0;\n}\n"
    d = tempfile.mkdtemp(dir=ctx.wdir())
    try:
        outs = {}
        for how in ("gcc", "cproc"):
            sub = os.path.join(d, how)
            os.makedirs(sub)
            try:
                units = [build_side(ctx, sub, "caller", caller, how), ("c", "callee", DIRTY_ASM, [])]
                exe = ilexec.build_exe(ctx, sub, units, asan=True)
            except RuntimeError as e:
                res.fail = dict(sig="reject:" + c01._errsig(str(e)), msg=str(e), input=caller)
                return res
            except ValueError as e:
                res.fail = dict(sig="", msg="malformed IL: %s" % e.args[0][:3], input=caller)
                return res
            except il2c.Unsupported as e:
                res.discard.append("il2c-unsupported: %s" % e)
                return res
            except ilexec.ExecError as e:
                res.fail = dict(sig="machinery:il2c", msg=str(e)[:1500], input=caller)
                return res
            res.n += 1
            outs[how] = ilexec.run_exe(exe, timeout=20)
        a, b = outs["gcc"], outs["cproc"]
        if a[0] != "ok" or a[1] != 0:
            res.discard.append("control-run-failed")
            return res
        if b[0] != "ok" or b[1] != a[1] or b[2] != a[2]:
            la, lb = a[2].decode(errors="replace").splitlines(), b[2].decode(errors="replace").splitlines()
            i = 0
            while i < min(len(la), len(lb)) and la[i] == lb[i]:
                i += 1
            res.fail = dict(sig="", msg="result of %s with garbage in the bits the ABI leaves undefined: value #%d is %r, the platform compiler's caller prints %r (%s)"
                            % (call, i, lb[i] if i < len(lb) else None, la[i] if i < len(la) else None, b[0]), input=caller)
            return res
        res.keys.append(sha([fn, case["indirect"]]))
        res.labels.append("dirty-result")
        res.sample = {"dirty-result-of": call}
        return res
    finally:
        shutil.rmtree(d, ignore_errors=True)


def sources(ctx):
    return [
        Source("input", input_check, enum=lambda ctx: iter(())),
        Source("markers", marker_check, enum=marker_enum, exhaustive=True),
        Source("dirty", dirty_check, enum=dirty_enum, exhaustive=True),
        Source("structural", struct_check, strategy=lambda c: struct_cases(), examples={"quick": 1500, "thorough": 50000}),
        Source("dynamic", dynamic_check, strategy=lambda c: signatures(), examples={"quick": 220, "thorough": 6000}),
    ]
