"""C02 — self-compiled compiler is indistinguishable from the reference-built one (DESIGN 3/C02)."""
import glob
import os
import shutil
import subprocess

from hypothesis import strategies as st

from .. import build, cproc, ilcheck, il2c
from ..runner import Result, Source, run, sha

ID = "C02"
LEVEL = "exploration"
RULE = ("stage 1 = gcc build of /repo; stage 2 = every source of cproc-qbe preprocessed with the flags of config.h, compiled by stage 1, the IL validated, "
        "translated by il2c and built with gcc -O1 (no sanitizer), linked as cproc-qbe. Inputs: cproc's own preprocessed sources (the bootstrap fixed point), "
        "every test/*.c, Hypothesis programs of C01's generators, C04 constant-expression units (the folder of stage 2 runs cproc's own lowering of eval.c), C10 catalogue instances (diagnostics), token-mutated corpus files, x 3 targets x {compile, -E}. "
        "Oracle: byte-identical stdout, stderr and exit status of the two binaries run with identical argv/cwd/env. non-trivial = input on which stage 1 emits "
        ">= 1 definition or a diagnostic; distinct by hash of (stdout, stderr).")
ASSUMPTIONS = ["stage 2 is produced through vlib/il2c.py + gcc instead of QBE (QBE is not installed): it checks cproc's lowering of its own source under il2c's reading of the IL semantics",
               "inputs on which stage 1 dies by a signal are C19's subject and skipped"]

CPPFLAGS = ["-P", "-U", "__GNUC__", "-U", "__GNUC_MINOR__", "-D", "__STDC_NO_ATOMICS__", "-D", "__STDC_NO_COMPLEX__", "-U", "__SIZEOF_INT128__",
            "-U", "__PIC__", "-D", "__extension__="]


def prepare(ctx):
    cproc.prepare(ctx, ["plain"])
    ctx.data["corpus"] = sorted(glob.glob(os.path.join(build.REPO, "test", "*.c")))
    import hashlib
    tools = hashlib.sha256(b"".join(open(os.path.join(build.VERIF, f), "rb").read() for f in
                                    ("vlib/il2c.py", "vlib/qbeil.py", "native/rt.c", "native/rt.h"))).hexdigest()[:12]
    d = os.path.join(build.CACHE, build.tree_hash("stage2-v1-" + tools))
    exe = os.path.join(d, "cproc-qbe")
    own = os.path.join(d, "own")
    if not os.path.exists(os.path.join(d, ".ok")):
        shutil.rmtree(d, ignore_errors=True)
        os.makedirs(own)
        stage1 = ctx.builds["plain"]
        # source list of cproc-qbe from the Makefile (dry run), like vlib/build.py
        r = subprocess.run(["make", "-n", "-B", "-C", build.REPO, "objdir=/nonexistent", "/nonexistent/cproc-qbe"], stdin=subprocess.DEVNULL,
                           stdout=subprocess.PIPE, stderr=subprocess.STDOUT)
        srcs = []
        for ln in r.stdout.decode(errors="replace").splitlines():
            w = ln.split()
            if "-c" in w and w[-1].endswith(".c"):
                srcs.append(w[-1])
        if not srcs:
            raise build.BuildError("cannot determine the source list of cproc-qbe:\n" + r.stdout.decode(errors="replace")[-1500:])
        jobs = []
        for s in srcs:
            base = os.path.basename(s)[:-2]
            jobs.append((s, base))
        objs = []
        from concurrent.futures import ThreadPoolExecutor

        def one(job):
            s, base = job
            i = os.path.join(own, base + ".i")
            p = run(["cpp"] + CPPFLAGS + ["-o", i, os.path.join(build.REPO, s)], timeout=120)
            if p.rc != 0:
                raise build.BuildError("cpp failed on %s: %s" % (s, p.err.decode(errors="replace")[:300]))
            q = run([stage1, i], timeout=300)
            if q.rc != 0:
                raise build.TreeViolation("stage 1 cannot compile the compiler's own source %s (status %s), so there is no stage 2 and no fixed point: %s"
                                          % (s, q.rc, q.err.decode(errors="replace")[:300]), {"own": s})
            with open(os.path.join(own, base + ".qbe"), "wb") as f:
                f.write(q.out)
            mod, errs = ilcheck.validate(q.out)
            if errs:
                raise build.TreeViolation("stage 1 emits malformed IL for the compiler's own source %s, so there is no stage 2: %s" % (s, errs[:3]), {"own": s})
            c = il2c.translate(mod, "x86_64-sysv")
            cpath = os.path.join(own, base + ".il.c")
            with open(cpath, "w") as f:
                f.write(c)
            o = os.path.join(own, base + ".o")
            g = run(["gcc", "-c", "-O1", "-g0", "-w", "-std=gnu11", "-fno-pie", "-fno-builtin", "-fno-strict-aliasing", "-I", os.path.join(build.VERIF, "native"),
                     "-o", o, cpath], timeout=600)
            if g.rc != 0:
                raise build.BuildError("gcc failed on translated %s: %s" % (s, g.err.decode(errors="replace")[:500]))
            return o
        with ThreadPoolExecutor(8) as ex:
            objs = list(ex.map(one, jobs))
        rt = os.path.join(own, "rt.o")
        g = run(["gcc", "-c", "-O1", "-w", "-o", rt, os.path.join(build.VERIF, "native", "rt.c")], timeout=120)
        g = run(["gcc", "-no-pie", "-o", exe] + objs + [rt], timeout=300)
        if g.rc != 0:
            raise build.BuildError("stage 2 link failed: %s" % g.err.decode(errors="replace")[:800])
        open(os.path.join(d, ".ok"), "w").close()
    ctx.builds["stage2"] = exe
    # stage 1 under the same basename in another directory
    s1d = os.path.join(ctx.tmp, "stage1")
    os.makedirs(s1d, exist_ok=True)
    shutil.copy(ctx.builds["plain"], os.path.join(s1d, "cproc-qbe"))
    ctx.builds["stage1"] = os.path.join(s1d, "cproc-qbe")
    ctx.data["own"] = sorted(glob.glob(os.path.join(own, "*.i")))
    ctx.data["ownqbe"] = own


def both(ctx, data, args, path=None, timeout=120):
    import time
    outs = []
    for k in ("stage1", "stage2"):
        cmd = [ctx.builds[k]] + list(args) + ([path] if path else [])
        t0 = time.time()
        # stage 2 gets 40 times what stage 1 took (at least 15 s) and 4 GiB: a stage 2 that loops or grows without end on many
        # inputs must not stretch the run to hours
        p = run(cmd, input=None if path else data, env=cproc.BASE_ENV, timeout=timeout, cwd=ctx.tmp, preexec=cproc.limits(as_mb=4096) if k == "stage2" else None)
        if k == "stage1":
            timeout = min(timeout, max(15, 40 * (time.time() - t0)))
        outs.append(p)
    return outs


def compare(ctx, res, data, args, what, path=None):
    a, b = both(ctx, data, args, path)
    res.n += 1
    if a.timeout or (a.rc is not None and a.rc < 0):
        res.discard.append("stage1-crash-or-timeout (C19)")
        return
    if (a.rc, a.out, a.err) != (b.rc, b.out, b.err):
        diff = "exit status %s vs %s" % (a.rc, b.rc) if a.rc != b.rc else "stdout" if a.out != b.out else "stderr"
        detail = ""
        if a.out != b.out:
            la, lb = a.out.split(b"\n"), b.out.split(b"\n")
            i = 0
            while i < min(len(la), len(lb)) and la[i] == lb[i]:
                i += 1
            detail = "first differing output line %d: stage1 %r, stage2 %r" % (i + 1, la[i][:200] if i < len(la) else None, lb[i][:200] if i < len(lb) else None)
        elif a.err != b.err:
            detail = "stage1 stderr %r, stage2 stderr %r" % (a.err[:300], b.err[:300])
        res.fail = dict(sig="", msg="stage 2 differs from stage 1 in %s on %s (args %s): %s" % (diff, what, list(args), detail),
                        input=(data or b"")[:6000].decode("latin-1") if data else "(file %s)" % path)
        return
    if a.out.strip() or a.err.strip():
        res.keys.append(sha([a.out, a.err]))
    if a.err:
        res.labels.append("diagnostic")


def own_enum(ctx):
    for f in ctx.data["own"]:
        for t in cproc.TARGETS:
            yield {"own": os.path.basename(f), "t": t}
    for f in ctx.data["corpus"]:
        from .c19 import _args_for
        yield {"file": os.path.relpath(f, build.REPO)}
    # C04's operator x type x boundary-value table: stage 2 folds it with cproc's own lowering of eval.c
    from . import c04
    for u in c04.fold_units(ctx):
        yield {"fold": u}


def own_check(case, ctx):
    res = Result()
    if "fold" in case:
        from . import c04
        src = c04.build_source(case["fold"])[0]
        compare(ctx, res, src.encode(), ["-t", cproc.TARGETS[case["fold"]["t"]]], "fold-table unit")
        res.labels.append("fold-table")
        res.sample = {"fold-table": [it["e"] for it in case["fold"]["items"][:3]]}
        return res
    if "own" in case:
        path = os.path.join(ctx.data["ownqbe"], case["own"])
        compare(ctx, res, None, ["-t", case["t"]], "own source %s" % case["own"], path=path)
        # the bootstrap fixed point: stage 2's IL for this source equals the IL stage 2 was built from
        if res.fail is None and case["t"] == "x86_64-sysv":
            p = run([ctx.builds["stage2"], path], env=cproc.BASE_ENV, timeout=300, cwd=ctx.tmp)
            want = open(path[:-2] + ".qbe", "rb").read()
            if p.out != want:
                res.fail = dict(sig="", msg="bootstrap fixed point broken: stage 2 compiling %s does not reproduce the stage-1 IL" % case["own"], input=case["own"])
        res.labels.append("own-source")
    else:
        from .c19 import _args_for
        path = os.path.join(build.REPO, case["file"])
        t = _args_for(case["file"])
        extra = ["-E"] if os.path.exists(path[:-2] + ".pp") else []
        compare(ctx, res, None, ["-t", t] + extra, case["file"], path=path)
        res.labels.append("corpus")
    res.sample = {"case": case}
    return res


def gen_strategy(ctx):
    from . import c01
    from ..gen import exprgen, proggen
    from .c10_catalogue import CATALOGUE
    from .c20 import mutate_strategy_lite
    valid = st.one_of(
        exprgen.expr_programs(max_stmts=12, depth=3).map(lambda c: {"kind": "exprs", "src": c["src"]}),
        proggen.programs(max_scenes=3).map(lambda c: {"kind": "structured", "src": c["src"]}),
    )
    from . import c04
    consts = c04.const_cases().map(lambda c: {"kind": "const", "src": c04.build_source(c)[0]})
    invalid = st.fixed_dictionaries({"kind": st.just("catalogue"), "i": st.integers(0, len(CATALOGUE) - 1),
                                     "variant": st.sampled_from(["plain", "macro", "marker"])})
    mutant = st.fixed_dictionaries({"kind": st.just("mutant"), "m": mutate_strategy_lite(len(ctx.data["corpus"]))})
    return st.fixed_dictionaries({"input": st.one_of(valid, consts, consts, invalid, invalid, mutant, mutant), "t": st.integers(0, 2), "E": st.booleans()})


def gen_check(case, ctx):
    res = Result()
    inp = case["input"]
    if inp["kind"] in ("exprs", "structured", "const"):
        data = inp["src"].encode()
    elif inp["kind"] == "catalogue":
        from . import c10
        text, scope, tag = c10.instantiate(inp["i"], 7000 + inp["i"])
        v = inp["variant"] if scope != "unit" or inp["variant"] != "macro" else "plain"
        data = c10.build_unit(text, scope, v, [], []).encode("utf-8", "surrogateescape")
    else:
        from .c19 import apply_muts
        p0 = ctx.data["corpus"][inp["m"]["fi"] % len(ctx.data["corpus"])]
        data = apply_muts(open(p0, "rb").read().decode("utf-8", "surrogateescape"), inp["m"]["muts"]).encode("utf-8", "surrogateescape")
    args = ["-t", cproc.TARGETS[case["t"]]] + (["-E"] if case["E"] else [])
    compare(ctx, res, data, args, inp["kind"])
    res.labels.append("gen:" + inp["kind"])
    res.sample = {"kind": inp["kind"], "args": args, "head": data[:150].decode("latin-1")}
    return res


def sources(ctx):
    return [
        Source("own+corpus", own_check, enum=own_enum),
        Source("generated", gen_check, strategy=gen_strategy, examples={"quick": 1500, "thorough": 40000}),
    ]
