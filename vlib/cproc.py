"""Running cproc-qbe variants and classifying how a run ended."""
import os
import re
import resource
import signal
import subprocess

from . import build
from .runner import run

TARGETS = ["x86_64-sysv", "aarch64", "riscv64"]
CLANG_TRIPLE = {"x86_64-sysv": "x86_64-linux-gnu", "aarch64": "aarch64-linux-gnu", "riscv64": "riscv64-linux-gnu"}
SIGNED_CHAR = {"x86_64-sysv": True, "aarch64": False, "riscv64": False}
WCHAR_SIGNED = {"x86_64-sysv": True, "aarch64": False, "riscv64": True}

BASE_ENV = {
    "PATH": "/usr/local/bin:/usr/bin:/bin",
    "LC_ALL": "C",
    "ASAN_OPTIONS": "detect_leaks=0:exitcode=99:abort_on_error=0:allocator_may_return_null=1:"
                    "detect_stack_use_after_return=0:symbolize=1:handle_segv=1:handle_sigfpe=1:handle_abort=0",
    "UBSAN_OPTIONS": "print_stacktrace=1:halt_on_error=1:exitcode=98",
    "ASAN_SYMBOLIZER_PATH": "/usr/bin/llvm-symbolizer-14",
}


def prepare(ctx, variants):
    for v in variants:
        if v not in ctx.builds:
            ctx.builds[v] = build.build(v)


def limits(stack_mb=None, fsize=None, as_mb=None):
    def f():
        if stack_mb:
            resource.setrlimit(resource.RLIMIT_STACK, (stack_mb << 20, stack_mb << 20))
        if fsize is not None:
            signal.signal(signal.SIGXFSZ, signal.SIG_IGN)
            resource.setrlimit(resource.RLIMIT_FSIZE, (fsize, fsize))
        if as_mb:
            resource.setrlimit(resource.RLIMIT_AS, (as_mb << 20, as_mb << 20))
        resource.setrlimit(resource.RLIMIT_CORE, (0, 0))
    return f


def cc(ctx, src, target="x86_64-sysv", variant="plain", args=(), timeout=20, env=None, path=None,
       cwd=None, preexec=None):
    """Compile `src` (bytes, fed on stdin unless `path` names a file to read instead)."""
    exe = ctx.builds[variant]
    cmd = [exe, "-t", target] + list(args)
    e = dict(BASE_ENV)
    if env:
        e.update(env)
    if preexec is None:
        preexec = limits()
    if path is not None:
        return run(cmd + [path], timeout=timeout, env=e, cwd=cwd, preexec=preexec)
    if isinstance(src, str):
        src = src.encode("utf-8", "surrogateescape")
    return run(cmd, input=src, timeout=timeout, env=e, cwd=cwd, preexec=preexec)


_ASAN = re.compile(rb"ERROR: AddressSanitizer: ([A-Za-z0-9_-]+)")
# (bounded repetitions: stderr can hold a diagnostic that quotes a token of a megabyte, and an unbounded [A-Za-z0-9_.]+ in
# front of a literal makes the search quadratic in the length of such a run)
_UBSAN = re.compile(rb"(?<![A-Za-z0-9_.])([A-Za-z0-9_.]{1,80}\.[ch]):(\d{1,9}):(\d{1,9}): runtime error: ([^\n]{0,400})")
_FRAME = re.compile(rb"#\d+ 0x[0-9a-f]+ in (\w+) (?:/[^\n ]*/)?([A-Za-z0-9_]+\.[ch])\b")
_ASSERT = re.compile(rb"(?<![A-Za-z0-9_.])([A-Za-z0-9_.]{1,80}\.c):(\d{1,9}): ([^\n]{0,300}?): Assertion `([^\n]{0,400})' failed")


def classify(p):
    """Return None if the run ended by exit 0/1/2 with no sanitizer report, else (kind, where, text)."""
    err = p.err or b""
    if p.timeout:
        return ("timeout", "", "")
    m = _ASAN.search(err)
    if m:
        kind = m.group(1).decode()
        fr = _first_repo_frame(err)
        return ("asan-" + kind, fr, err[:3000].decode(errors="replace"))
    m = _UBSAN.search(err)
    if m:
        what = re.sub(r"-?(0x[0-9a-f]+|\d[\d.e+]*|nan|inf)", "N", m.group(4).decode(errors="replace"))
        what = re.sub(r" for type .*| of type .*|, which .*", "", what)
        fr = _first_repo_frame(err) or m.group(1).decode()
        return ("ubsan", "%s:%s" % (fr, what[:50]), err[:2000].decode(errors="replace"))
    m = _ASSERT.search(err)
    if m:
        fn = re.findall(r"(\w+)\(", m.group(3).decode(errors="replace"))
        return ("assert", "%s:%s:%s" % (m.group(1).decode(), fn[0] if fn else "?", m.group(4).decode()[:60]),
                err[:1000].decode(errors="replace"))
    if p.rc is not None and p.rc < 0:
        try:
            name = signal.Signals(-p.rc).name
        except ValueError:
            name = str(-p.rc)
        return ("signal-" + name, "", err[:1000].decode(errors="replace"))
    if p.rc not in (0, 1, 2):
        return ("exit-%s" % p.rc, "", err[:1000].decode(errors="replace"))
    return None


def _first_repo_frame(err):
    for m in _FRAME.finditer(err):
        fn, fl = m.group(1).decode(), m.group(2).decode()
        if os.path.exists(os.path.join(build.REPO, fl)):
            return "%s@%s" % (fn, fl)
    return ""


_DIAG = re.compile(r"^(.*?):(\d+):(\d+): error: (.*)$")


def parse_diag(err):
    """First diagnostic line -> (file, line, col, msg) or None."""
    if isinstance(err, bytes):
        err = err.decode("utf-8", "replace")
    for ln in err.splitlines():
        m = _DIAG.match(ln)
        if m:
            return m.group(1), int(m.group(2)), int(m.group(3)), m.group(4)
        return None
    return None


_HELPERS = {"xmalloc", "xreallocarray", "reallocarray", "arrayadd", "arrayaddptr", "arrayaddbuf", "mkinst", "funcinst", "mkintconst", "mkblock",
            "functemp", "bufadd", "nextchar"}
_GDBFRAME = re.compile(r"^#\d+\s+(?:0x[0-9a-f]+ in )?(\w+) \(", re.M)
_FUNCFILE = {}


def _func_file(fn):
    """Source file of /repo that defines function `fn` (definitions start in column 0: `name(`), or None."""
    if not _FUNCFILE:
        import glob
        for f in sorted(glob.glob(os.path.join(build.REPO, "*.c"))):
            try:
                text = open(f, encoding="utf-8", errors="replace").read()
            except OSError:
                continue
            for m in re.finditer(r"^(\w+)\(", text, re.M):
                _FUNCFILE.setdefault(m.group(1), os.path.basename(f))
    return _FUNCFILE.get(fn)


def _gdb_site(ctx, src, target, extra):
    """Sample the running plain build with gdb a few times; the loop's owner is the innermost frame of a function of
    /repo that is not an allocation/emission helper, in most samples."""
    import collections
    import tempfile
    import time
    exe = ctx.builds["plain"]
    votes = collections.Counter()
    with tempfile.TemporaryFile() as inp:
        inp.write(src)
        inp.seek(0)
        try:
            p = subprocess.Popen([exe, "-t", target] + list(extra), stdin=inp, stdout=subprocess.DEVNULL, stderr=subprocess.DEVNULL,
                                 env=dict(BASE_ENV), start_new_session=True, preexec_fn=limits(as_mb=4096))
        except OSError:
            return None
        try:
            time.sleep(1.0)
            for _ in range(3):
                if p.poll() is not None:
                    break
                g = run(["gdb", "-p", str(p.pid), "-batch", "-nx", "-ex", "bt 40"], timeout=30, env={"PATH": "/usr/bin:/bin", "LC_ALL": "C", "HOME": "/tmp"})
                for m in _GDBFRAME.finditer((g.out or b"").decode("utf-8", "replace")):
                    fn = m.group(1)
                    fl = _func_file(fn)
                    if fl and fn not in _HELPERS and fn != "main":
                        votes["%s@%s" % (fn, fl)] += 1
                        break
                time.sleep(0.4)
        finally:
            try:
                os.killpg(p.pid, signal.SIGKILL)
            except OSError:
                pass
            p.wait()
    return votes.most_common(1)[0][0] if votes else None


def hang_site(ctx, src, target, extra, seconds=3):
    """Where is the compiler spinning?  gdb samples of the plain build; if that yields nothing, abort the asan build after
    `seconds` and read ASan's stack (which can deadlock when the signal lands inside the allocator)."""
    site = _gdb_site(ctx, src, target, extra)
    if site:
        return site
    exe = ctx.builds["asan"]
    e = dict(BASE_ENV)
    e["ASAN_OPTIONS"] = e["ASAN_OPTIONS"].replace("handle_abort=0", "handle_abort=1")
    p = run(["timeout", "-s", "ABRT", str(seconds), exe, "-t", target] + list(extra), input=src, timeout=seconds + 20, env=e,
            stdout=subprocess.DEVNULL)
    for m in _FRAME.finditer(p.err or b""):
        fn, fl = m.group(1).decode(), m.group(2).decode()
        if os.path.exists(os.path.join(build.REPO, fl)) and fn not in _HELPERS:
            return "%s@%s" % (fn, fl)
    return _first_repo_frame(p.err or b"") or "?"
