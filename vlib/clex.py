"""Reference C11/C23 preprocessing-token lexer, written from C11 6.4 (not from scan.c).

lex(text) -> list of Tok(kind, s, space, line)
kinds: ident number char string punct other newline
 - translation phase 2 (backslash-newline removal) happens first
 - comments become one space
 - punctuators: longest match over the C23 set without digraphs
 - pp-number: [.]digit (digit | identifier-nondigit | [eEpP][+-] | .)*
 - encoding prefixes u8 u U L bind to an immediately following quote
"""
import collections

Tok = collections.namedtuple("Tok", "kind s space line")

PUNCT = [
    "[", "]", "(", ")", "{", "}", ".", "->", "++", "--", "&", "*", "+", "-", "~", "!",
    "/", "%", "<<", ">>", "<", ">", "<=", ">=", "==", "!=", "^", "|", "&&", "||", "?", ":", "::",
    ";", "...", "=", "*=", "/=", "%=", "+=", "-=", "<<=", ">>=", "&=", "^=", "|=", ",", "#", "##",
]
_PSET = set(PUNCT)
_PMAX = max(len(p) for p in PUNCT)
PUNCT_ALPHABET = sorted(set("".join(PUNCT)))

KEYWORDS_C11 = """auto break case char const continue default do double else enum extern float for goto if
inline int long register restrict return short signed sizeof static struct switch typedef union unsigned void
volatile while _Alignas _Alignof _Atomic _Bool _Complex _Generic _Imaginary _Noreturn _Static_assert
_Thread_local""".split()
KEYWORDS_C23 = """alignas alignof bool constexpr false nullptr static_assert thread_local true typeof
typeof_unqual _BitInt _Decimal128 _Decimal32 _Decimal64""".split()

_IDSTART = set("abcdefghijklmnopqrstuvwxyzABCDEFGHIJKLMNOPQRSTUVWXYZ_")
_IDCHAR = _IDSTART | set("0123456789")
_DIGIT = set("0123456789")
_WS = set(" \t\f\v")


class LexError(Exception):
    pass


def splice(text):
    """Phase 2.  Returns (text without backslash-newline pairs, list mapping new index -> physical line)."""
    out = []
    lines = []
    line = 1
    i = 0
    n = len(text)
    while i < n:
        c = text[i]
        if c == "\\" and i + 1 < n and text[i + 1] == "\n":
            i += 2
            line += 1
            continue
        out.append(c)
        lines.append(line)
        if c == "\n":
            line += 1
        i += 1
    return "".join(out), lines


def lex(text, keep_newlines=True):
    t, lines = splice(text)
    toks = []
    i = 0
    n = len(t)
    space = False

    def emit(kind, s, at):
        nonlocal space
        toks.append(Tok(kind, s, space, lines[at] if at < len(lines) else (lines[-1] if lines else 1)))
        space = False

    while i < n:
        c = t[i]
        if c in _WS:
            space = True
            i += 1
            continue
        if c == "\n":
            if keep_newlines:
                emit("newline", "\n", i)
            space = False
            i += 1
            continue
        if c == "/" and i + 1 < n and t[i + 1] == "/":
            j = t.find("\n", i)
            i = n if j < 0 else j
            space = True
            continue
        if c == "/" and i + 1 < n and t[i + 1] == "*":
            j = t.find("*/", i + 2)
            if j < 0:
                raise LexError("unterminated comment")
            i = j + 2
            space = True
            continue
        # string / char literals with optional prefix
        start = i
        j = i
        if t.startswith("u8", i):
            j = i + 2
        elif c in "uUL":
            j = i + 1
        if j < n and t[j] in "'\"" and (j > i or c in "'\""):
            q = t[j]
            k = j + 1
            while True:
                if k >= n or t[k] == "\n":
                    raise LexError("unterminated literal")
                if t[k] == "\\":
                    k += 2
                    continue
                if t[k] == q:
                    break
                k += 1
            emit("char" if q == "'" else "string", t[start:k + 1], start)
            i = k + 1
            continue
        if c in _DIGIT or (c == "." and i + 1 < n and t[i + 1] in _DIGIT):
            k = i + 1
            while k < n:
                d = t[k]
                if d in "eEpP" and k + 1 < n and t[k + 1] in "+-":
                    k += 2
                elif d in _IDCHAR or d == ".":
                    k += 1
                else:
                    break
            emit("number", t[i:k], i)
            i = k
            continue
        if c in _IDSTART:
            k = i + 1
            while k < n and t[k] in _IDCHAR:
                k += 1
            emit("ident", t[i:k], i)
            i = k
            continue
        for L in range(min(_PMAX, n - i), 0, -1):
            if t[i:i + L] in _PSET:
                emit("punct", t[i:i + L], i)
                i += L
                break
        else:
            emit("other", c, i)
            i += 1
    return toks


def spell(toks):
    """Join tokens with single spaces where the original had white space, newlines kept."""
    out = []
    for tk in toks:
        if tk.kind == "newline":
            out.append("\n")
            continue
        if tk.space and out and out[-1] != "\n":
            out.append(" ")
        out.append(tk.s)
    return "".join(out)


def safe_join(strs):
    """Join token spellings so that re-lexing gives the same tokens (insert a space when needed)."""
    out = []
    prev = None
    for s in strs:
        if prev is not None:
            try:
                tk = lex(prev + s, keep_newlines=False)
                glued = [x.s for x in tk] != [prev, s]
            except LexError:
                glued = True
            if glued:
                out.append(" ")
        out.append(s)
        prev = s
    return "".join(out)
