"""Executing emitted IL on the host through il2c + gcc + ASan (DESIGN 2.3)."""
import os
import subprocess

from . import build, cproc, il2c, ilcheck
from .runner import run

NATIVE = os.path.join(build.VERIF, "native")
GCC_FLAGS = ["-O0", "-g0", "-w", "-std=gnu11", "-fno-pie", "-no-pie", "-fno-builtin", "-fno-strict-aliasing",
             "-fno-stack-protector", "-I", NATIVE]
ASAN = ["-fsanitize=address", "-fno-omit-frame-pointer"]
RUN_ENV = {"PATH": "/usr/bin:/bin", "LC_ALL": "C",
           "ASAN_OPTIONS": "detect_leaks=0:exitcode=96:abort_on_error=0:detect_stack_use_after_return=0:allocator_may_return_null=1",
           "UBSAN_OPTIONS": "halt_on_error=1:exitcode=95:print_stacktrace=0"}


class ExecError(Exception):
    """The machinery could not execute the module (not a verdict about cproc)."""


def prepare(ctx, asan=True):
    """Compile rt.c once per run."""
    d = os.path.join(ctx.tmp, "rt")
    os.makedirs(d, exist_ok=True)
    for tag, fl in (("asan", ASAN), ("plain", [])):
        o = os.path.join(d, "rt-%s.o" % tag)
        if not os.path.exists(o):
            r = subprocess.run(["gcc", "-c", "-O1", "-w"] + fl + ["-o", o, os.path.join(NATIVE, "rt.c")],
                               stdin=subprocess.DEVNULL, stdout=subprocess.PIPE, stderr=subprocess.STDOUT)
            if r.returncode != 0:
                raise build.BuildError("rt.c: " + r.stdout.decode(errors="replace"))
        ctx.data["rt-" + tag] = o


def il_to_c(il, target):
    """Validate and translate; returns (c_text, module).  Raises ValueError(list of IL errors) for a malformed module."""
    mod, errs = ilcheck.validate(il)
    if errs:
        raise ValueError(errs)
    return il2c.translate(mod, target), mod


def build_exe(ctx, workdir, units, exe="prog", asan=True, extra_flags=(), timeout=120, opt="-O0"):
    """units: list of ('il', name, il_bytes, target) | ('c', name, c_text, flags list).  Returns path or raises ExecError."""
    objs = []
    for u in units:
        if u[0] == "il":
            _, name, il, target = u
            ctext, _ = il_to_c(il, target)
            path = os.path.join(workdir, name + ".il.c")
            with open(path, "w") as f:
                f.write(ctext)
            flags = list(GCC_FLAGS) + (ASAN if asan else [])
            flags[0] = opt
        else:
            _, name, ctext, cflags = u
            path = os.path.join(workdir, name + ".c")
            with open(path, "w") as f:
                f.write(ctext)
            flags = ["-w", "-fno-pie", "-no-pie", "-fno-builtin", "-I", NATIVE] + list(cflags)
        o = os.path.join(workdir, name + ".o")
        p = run(["gcc", "-c"] + flags + list(extra_flags) + ["-o", o, path], timeout=timeout, env={"PATH": "/usr/bin:/bin", "LC_ALL": "C"})
        if p.rc != 0:
            raise ExecError("gcc failed on %s:\n%s" % (path, p.err.decode(errors="replace")[:3000]))
        objs.append(o)
    out = os.path.join(workdir, exe)
    p = run(["gcc", "-no-pie"] + (ASAN if asan else []) + ["-o", out] + objs + [ctx.data["rt-asan" if asan else "rt-plain"], "-lm"],
            timeout=timeout, env={"PATH": "/usr/bin:/bin", "LC_ALL": "C"})
    if p.rc != 0:
        raise ExecError("link failed:\n%s" % p.err.decode(errors="replace")[:3000])
    return out


def run_exe(path, timeout=10, args=(), input=None, cwd=None):
    """Returns (kind, rc, stdout bytes, stderr bytes); kind in ok|trap|asan|signal|timeout."""
    p = run([path] + list(args), env=RUN_ENV, timeout=timeout, input=input, cwd=cwd)
    if p.timeout:
        return "timeout", None, p.out, p.err
    if b"IL-TRAP:" in p.err:
        return "trap", p.rc, p.out, p.err
    if b"AddressSanitizer" in p.err:
        return "asan", p.rc, p.out, p.err
    if p.rc is not None and p.rc < 0:
        return "signal", p.rc, p.out, p.err
    return "ok", p.rc, p.out, p.err
