#!/usr/bin/env python3
"""usage: tools/addfixed.py <ID> <commit> <name> <replay.json> <what failed>
Record a repaired defect: copies the replay (source+case) to corpus/known/<ID>/fixed-<name>.json and appends a
'fixed' entry to known_findings.json (development aid, never run by a check)."""
import json
import os
import subprocess
import sys

V = os.path.dirname(os.path.dirname(os.path.abspath(__file__)))
pid, commit, name, replay, what = sys.argv[1:6]
o = json.load(open(replay))
rec = dict(property=pid, source=o["source"], case=o["case"])
rel = os.path.join("corpus", "known", pid, "fixed-%s.json" % name)
os.makedirs(os.path.dirname(os.path.join(V, rel)), exist_ok=True)
open(os.path.join(V, rel), "w").write(json.dumps(rec, indent=1, sort_keys=True))
subj = subprocess.run(["git", "-C", "/repo", "log", "-1", "--format=%s", commit], stdout=subprocess.PIPE).stdout.decode().strip()
kf = json.load(open(os.path.join(V, "known_findings.json")))
kf["findings"].append(dict(property=pid, status="fixed", commit=commit, what_failed=what, fix=subj, reproducer=rel,
                           line="fixed: property=%s %s %s" % (pid, commit, what)))
json.dump(kf, open(os.path.join(V, "known_findings.json"), "w"), indent=1)
print("recorded", rel)
