#!/bin/sh
# usage: tools/seed_take.sh <agent-worktree> <name>
# Copies <agent-worktree>/.seed/* to /verif/seeded/<name>/ and verifies the change independently in a fresh
# scratch worktree of /repo: applies, builds, `make check` = 170/170, demonstration fails with the change and
# passes on /repo's own build.  Writes seeded/<name>/verified.txt.  Exit 0 only if all of that holds.
src=$1; name=$2
V=$(cd "$(dirname "$0")/.." && pwd)
dst=$V/seeded/$name
mkdir -p "$dst"
cp -r "$src"/.seed/. "$dst"/
rm -rf "$dst"/*.orig "$dst"/cproc-qbe* "$dst"/*.o 2>/dev/null
wt=$(mktemp -d /tmp/sv-XXXXXX); rmdir "$wt"
git -C /repo worktree add -q --detach "$wt" HEAD || exit 2
cp /repo/config.h /repo/config.mk "$wt"/
ok=1
{
echo "verified on $(date -u +%FT%TZ) against /repo $(git -C /repo rev-parse --short HEAD)"
if git -C "$wt" apply "$dst/patch.diff"; then echo "patch applies: yes"; else echo "patch applies: NO"; ok=0; fi
if make -C "$wt" -s >/dev/null 2>"$wt/build.err"; then echo "builds: yes"; else echo "builds: NO"; ok=0; fi
t=$(make -C "$wt" -s check 2>/dev/null | tail -1); echo "make check: $t"
case "$t" in "170/170 tests passed") ;; *) ok=0;; esac
(cd /repo && make -s >/dev/null 2>&1)
if [ -f "$dst/demo.sh" ]; then
	bin=cproc-qbe
	grep -q "^+++ b/driver.c" "$dst/patch.diff" && bin=cproc
	grep -Eq "\"property\": *\"C1[78]\"" "$dst/meta.json" && bin=cproc
	(cd "$dst" && sh ./demo.sh "$wt/$bin" >"$wt/demo.changed" 2>&1); rc1=$?
	(cd "$dst" && sh ./demo.sh "/repo/$bin" >"$wt/demo.orig" 2>&1); rc0=$?
	echo "demo.sh with the change ($bin): exit $rc1"; sed 's/^/    /' "$wt/demo.changed" | head -20
	echo "demo.sh on /repo's build ($bin): exit $rc0"; sed 's/^/    /' "$wt/demo.orig" | head -20
	[ $rc1 -ne 0 ] && [ $rc0 -eq 0 ] || ok=0
else
	echo "no demo.sh"; ok=0
fi
echo "result: $([ $ok = 1 ] && echo CONFIRMED || echo NOT-CONFIRMED)"
} > "$dst/verified.txt" 2>&1
cat "$dst/verified.txt"
git -C /repo worktree remove --force "$wt"
[ $ok = 1 ]
