#!/bin/sh
# usage: tools/with_patch.sh <patch.diff> <command...>
# Runs <command> with VERIF_REPO pointing at a scratch worktree of /repo with the patch applied; removes it afterwards.
patch=$(realpath "$1"); shift
wt=$(mktemp -d /tmp/wt-XXXXXX)
rmdir "$wt"
git -C /repo worktree add -q --detach "$wt" HEAD || exit 2
cp /repo/config.h /repo/config.mk "$wt"/ 2>/dev/null
if ! git -C "$wt" apply "$patch"; then echo "patch does not apply"; git -C /repo worktree remove --force "$wt"; exit 2; fi
VERIF_REPO="$wt" "$@"
rc=$?
git -C /repo worktree remove --force "$wt"
exit $rc
