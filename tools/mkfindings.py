#!/usr/bin/env python3
"""Turn records collected with VERIF_COLLECT=1 into *draft* entries of known_findings.json.

Every entry is reviewed by hand before it is committed (triage rule of DESIGN 5.3); this tool never
runs as part of a check."""
import glob
import hashlib
import json
import os
import sys

V = os.path.dirname(os.path.dirname(os.path.abspath(__file__)))
pid = sys.argv[1]
kf_path = os.path.join(V, "known_findings.json")
kf = json.load(open(kf_path)) if os.path.exists(kf_path) else {"findings": []}
have = {(e["property"], e.get("signature")) for e in kf["findings"]}
for f in sorted(glob.glob(os.path.join(V, "replays", "collect", pid, "*.json"))):
    o = json.load(open(f))
    if (pid, o["sig"]) in have:
        continue
    rec = dict(property=pid, source=o["source"], case=o["case"])
    body = json.dumps(rec, indent=1, sort_keys=True)
    rel = os.path.join("corpus", "known", pid, hashlib.sha256(body.encode()).hexdigest()[:12] + ".json")
    os.makedirs(os.path.dirname(os.path.join(V, rel)), exist_ok=True)
    open(os.path.join(V, rel), "w").write(body)
    msg = o["fail"]["msg"].splitlines()[0][:200]
    kf["findings"].append(dict(property=pid, signature=o["sig"], status="open", what_fails=msg, reproducer=rel))
    print("added", o["sig"])
json.dump(kf, open(kf_path, "w"), indent=1)
