import sys, time
sys.path.insert(0, '/verif')
from vlib.props import c19
from vlib import runner, cproc
import tempfile
ctx = runner.Ctx('C19', 'quick', 0); ctx.tmp = tempfile.mkdtemp()
c19.prepare(ctx)
for name,(kind,gen) in sorted(c19.FAMILIES.items()):
    for n in (1024 if kind=='nest' else 4096,):
        src = gen(n).encode('utf-8','surrogateescape')
        t0=time.time()
        p = cproc.cc(ctx, src, 'x86_64-sysv', 'plain', [], timeout=20)
        dt=time.time()-t0
        c = cproc.classify(p)
        if dt>0.5 or c: print(name, n, len(src), '%.2fs'%dt, c and c[:2], p.rc, flush=True)
