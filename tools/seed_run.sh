#!/bin/sh
# usage: tools/seed_run.sh <name> <ID> [tier] [seed]
# Runs ./check <ID> against a scratch worktree of /repo with seeded/<name>/patch.diff applied (VERIF_REPO),
# appends one line to seeded/<name>/results.txt: caught / missed, time, first violation line.
name=$1; id=$2; tier=${3:-quick}; seed=${4:-1}
V=$(cd "$(dirname "$0")/.." && pwd)
cd "$V" || exit 2
log=$(mktemp /tmp/seedrun-XXXXXX)
t0=$(date +%s)
VERIF_SEED=$seed tools/with_patch.sh "seeded/$name/patch.diff" ./check "$id" --tier "$tier" >"$log" 2>&1
rc=$?
t1=$(date +%s)
v=$(grep -m1 '^VIOLATION' "$log")
msg=$(grep -m1 -A3 '^FAIL\|^  msg\|^Falsifiable' "$log" | tr '\n' ' ' | cut -c1-300)
case $rc in
0) r=missed;; 1) r=caught;; *) r="error(rc=$rc)";;
esac
echo "$id $tier seed=$seed: $r in $((t1-t0))s $v" | tee -a "seeded/$name/results.txt"
[ "$r" = caught ] || tail -5 "$log"
[ -n "$KEEPLOG" ] && cp "$log" "/tmp/seedrun-$name-$id.log"
rm -f "$log"
