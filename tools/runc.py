"""tools/runc.py file.c [target]: compile with cproc, translate, run; print output (debug helper)."""
import sys, os, tempfile, shutil
sys.path.insert(0, '/verif')
from vlib import runner, cproc, ilexec
ctx = runner.Ctx('X', 'quick', 0); ctx.tmp = tempfile.mkdtemp()
cproc.prepare(ctx, ['plain']); ilexec.prepare(ctx)
src = open(sys.argv[1], 'rb').read(); t = sys.argv[2] if len(sys.argv) > 2 else 'x86_64-sysv'
p = cproc.cc(ctx, src, t)
if p.rc != 0: print('cproc rc', p.rc, p.err.decode()); sys.exit(1)
try:
    exe = ilexec.build_exe(ctx, ctx.tmp, [('il', 'u', p.out, t)])
except ValueError as e:
    print('IL invalid', e); sys.exit(1)
except ilexec.ExecError as e:
    print(e); print(open(os.path.join(ctx.tmp,'u.il.c')).read()[:0]); sys.exit(1)
k, rc, out, err = ilexec.run_exe(exe)
print(k, rc); print(out.decode()); print(err.decode()[:2000])
if '--keep' in sys.argv: print(ctx.tmp)
else: shutil.rmtree(ctx.tmp)
