#!/bin/sh
# usage: tools/seed_flow.sh <id e.g. c14> <name> : ingest /tmp/seed-<id>, verify, remove the worktree, run the owning check
id=$1; name=$2
V=$(cd "$(dirname "$0")/.." && pwd); cd "$V" || exit 2
ID=$(echo "$id" | tr c C)
tools/seed_take.sh /tmp/seed-$id "$name" | grep -E "applies|builds|make check|exit|result" | tr '\n' ';'; echo
git -C /repo worktree remove --force /tmp/seed-$id 2>/dev/null
grep -q "result: CONFIRMED" "seeded/$name/verified.txt" || { echo "NOT CONFIRMED: $name"; exit 1; }
KEEPLOG=1 tools/seed_run.sh "$name" "$ID"
