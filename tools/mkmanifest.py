#!/usr/bin/env python3
"""Regenerate MANIFEST.json from the table below (keeps it valid at all times)."""
import json
import os

V = os.path.dirname(os.path.dirname(os.path.abspath(__file__)))
props = [json.loads(l) for l in open(os.path.join(V, "properties.jsonl"))]

CLAIMED = {
    "C19": dict(
        category="exploration", design_ref="DESIGN.md 3/C19",
        engine="hypothesis+libfuzzer+enumeration",
        technique="coverage-guided fuzzing (libFuzzer fork harness) + Hypothesis token mutation + exhaustive truncation/stress families, ASan/UBSan exit-status oracle",
        text="Generated-input search for crashes, sanitizer reports, assertion failures, hangs and wrong exit statuses of cproc-qbe on "
             "truncated, mutated, fuzzed and pathologically nested/long inputs and on failing input/output descriptors. Exploration, not proof: "
             "absence of a violation means none was found within the stated case counts. Enumerated sources: 76 fragments x 51 contexts placement units, every C10 catalogue entry followed by uses of what it declares, ~750 hand-written edge units. Stress families include runs of n+1 adjacent string literals with valid and contradicting prefixes.",
        note="Trusts clang 14 ASan/UBSan to expose memory errors and UB; NULL+0 excluded (DESIGN 2.1); stack exhaustion judged on the plain build only; "
             "recorded open findings are suppressed by (kind, faulting function) signature only."),
    "C20": dict(
        category="exploration", design_ref="DESIGN.md 3/C20",
        engine="hypothesis+enumeration",
        technique="metamorphic property-based testing: Hypothesis-drawn environment/layout/IO perturbations must leave output, status and diagnostics unchanged; MemorySanitizer sweep; emission-order check on generated units",
        text="For corpus files, cproc's own preprocessed sources, token-mutated (mostly invalid) programs and generated declaration-order units, "
             "a baseline run is compared byte-for-byte with runs under drawn perturbations of locale, TZ, malloc behaviour, environment size, ASLR, cwd, "
             "input/output channel, stack limit and compiler build (gcc plain/hook, clang ASan); an MSan build checks for uninitialised reads. Exploration level. Inputs also include C01's generated programs, C07's initialiser units, C12's macro texts, C13's token texts and C19's edge units; the MSan source additionally runs the edge and placement units.",
        note="Only locales present in the sandbox can take effect; MALLOC_PERTURB_/MSan are the detectors for uninitialised memory; inputs that crash the compiler are left to C19."),
    "C03": dict(
        category="exploration", design_ref="DESIGN.md 3/C03, 2.2",
        engine="hypothesis+enumeration",
        technique="generated-input search with an independent QBE IL validator as oracle (parser + SSA/dominance/class/phi/call checks), differential data size/alignment against clang --target objects, RLIMIT_FSIZE write-fault injection",
        text="Every module cproc-qbe emits with status 0 for corpus files, its own sources, compiling token-mutants, generated programs and generated static initialisers (C07's generator) on the "
             "three targets is parsed and validated by vlib/ilcheck.py; data definitions are compared in size/alignment with the C object as laid "
             "out by clang; output-failure injection checks that status 0 is only returned with the complete output. Exploration level. Hand-written special units (functions without named parameters, main with every return type, va_list members, dead code after noreturn calls in every expression position) are validated on three targets. Source `strings`: generated units of string literals whose byte images coincide across element types; every literal use is mapped to the definition it names, which must carry the literal's image and element alignment.",
        note="ilcheck.py is written from QBE's IL reference, not run against QBE itself (QBE is not installed); rules are permissive where QBE's behaviour is uncertain."),
    "C01": dict(
        category="exploration", design_ref="DESIGN.md 3/C01, 2.3-2.6",
        engine="hypothesis+enumeration",
        technique="differential property-based testing: Hypothesis typed-grammar program generators; emitted IL executed through an IL->C translator under ASan and compared with gcc/clang (ASan+UBSan) runs and an independent Python model of C arithmetic",
        text="Generated UB-free programs (expressions over all arithmetic types with boundary values, bit-fields, conversions, aggregates and their "
             "copies, initialisation, control flow, calls incl. variadic/aggregate, VLAs, alloca, static/thread/compound objects) and a hand-written corpus are "
             "compiled for the three targets; the IL is validated, executed via il2c+gcc+ASan and its chk_* output and exit status compared with two reference "
             "compilers (and the cmodel prediction for generator A). Exploration level: differences, traps and out-of-bounds accesses found are violations. Later additions: alloca call sites executed repeatedly, members after anonymous members, whole-object copies of over-aligned aggregates, VLA typedefs used in sibling branches, pointer +/- integers of every width, side effects next to result-deciding constants, labels spelled through macros. Scene `statement-scope-declarations`: names declared by type names inside controlling expressions and substatements must not outlive the statement.",
        note="IL semantics are il2c's reading of QBE's IL reference (QBE not installed); cases where gcc and clang disagree or report UB are discarded; "
             "constructs of three recorded findings are steered away from (avoid switches) and replayed separately."),
    "C15": dict(
        category="exploration", design_ref="DESIGN.md 3/C15",
        engine="rapidcheck+hypothesis+enumeration",
        technique="model-based testing: rapidcheck + exhaustive insertion orders against tree.c with a std::set/AVL-invariant oracle; Hypothesis switch programs executed through il2c against a dictionary model, IL ladder-depth bound, duplicate-label rejection",
        text="(a) tree.c linked in-process: all insertion orders of <= 8 keys (exhaustive) and random 64-bit key sequences, every AVL invariant checked after each "
             "insertion. (b) generated switch statements over all integer controlling types with up to 5000 cases are compiled, executed via il2c and probed at every key, "
             "its neighbours and the type limits against a dictionary model; search depth is bounded from the IL; duplicate case constants/defaults must be rejected. Controlling expressions that need a conversion before the promotion (casts, assignments, += and ++ of a wider value) and arms whose labels sit inside loops, if statements and nested blocks are generated. A quarter of the case constants are spelled in another integer type that holds the value.",
        note="(a) exhaustive only for <= 8 keys (10 in thorough); (b) IL executed through il2c, not QBE; gcc/clang arbitrate model mismatches."),
    "C06": dict(
        category="exploration", design_ref="DESIGN.md 3/C06",
        engine="hypothesis+enumeration",
        technique="differential property-based testing of layout tables (sizeof/_Alignof/offsetof, bit-field images) against clang --target objects for three ABIs and host gcc; bounded-exhaustive bit-field sequences",
        text="Generated struct/union/enum definitions are compiled by cproc-qbe and by clang for x86_64, aarch64 and riscv64 (gcc too on x86_64); the emitted tables of "
             "sizeof, _Alignof and every member offset, and the static image of an object with exactly one bit-field set to all ones, must be byte-identical. "
             "The space of bit-field sequences of length 1 (and a seed-selected quarter of length 2; all of length <= 2 plus a reduced length-3 space in thorough) is enumerated.",
        note="clang 14 (and gcc 12 on the host) are the ABI oracle; where they disagree on x86_64 the case is discarded; aligned(n) attributes and bit-fields in packed structs are documented as unsupported and not generated."),
    "C07": dict(
        category="exploration", design_ref="DESIGN.md 3/C07",
        engine="hypothesis",
        technique="differential property-based testing: generated (type, initialiser) pairs; emitted data images and relocations compared byte-for-byte with clang --target objects; automatic objects executed through il2c and compared with gcc/clang runs",
        text="Generated initialisers (designated, overriding, brace-elided, string, empty, incomplete arrays, address constants incl. string/compound literals) for "
             "nested struct/union/array types with bit-fields: the static image cproc emits (every byte incl. padding, size, alignment, relocation targets and addends) "
             "must equal clang's object on three targets; the same initialiser on an automatic object must yield the leaf values the reference compilers print.",
        note="clang 14 is the image oracle (gcc -pedantic-errors filters invalid generated code); anonymous relocation targets are compared by content; automatic half excludes unions (unspecified padding bytes)."),
    "C04": dict(
        category="exploration", design_ref="DESIGN.md 3/C04",
        engine="hypothesis+enumeration",
        technique="model-based property testing: generated constant expressions with values and types predicted by an independent C arithmetic model, observed through every folding context (two-directional: accepted with the right value, rejected with the wrong one); clang arbitrates a mismatch",
        text="Generated constant expressions (all literal bases/suffixes/magnitudes, float literals, character and enum constants, sizeof/_Alignof/offsetof, all casts and operators) are "
             "and a systematic operator x operand-type x boundary-value table (119 k rows over int/unsigned/long/unsigned long, a seed-selected fifth in quick, all in thorough) are folded by cproc in static initialisers, static assertions, array bounds, enumerators, case labels, bit-field widths, _Alignas and ?: conditions on three targets; "
             "emitted bytes must equal the model's value in the model's type, the negated assertion and a duplicate case label must be rejected; address constants are compared as (symbol, offset). offsetof leaves with several subscripts in a row.",
        note="cmodel.py is the oracle (cross-validated with gcc/clang through C01's run-time twin 'exprs' and by clang arbitration of every mismatch); thread-local initialisers use the same emitdata path and are covered by C07."),
    "C05": dict(
        category="exploration", design_ref="DESIGN.md 3/C05",
        engine="enumeration+hypothesis",
        technique="bounded-exhaustive enumeration of (operator, type, type) triples, literal spellings and a pointer/qualifier probe table observed through _Generic, plus Hypothesis nested expressions and derived-type pairs; oracle: independent typing model, clang/gcc arbitration",
        text="Every (operator, left type, right type) triple over all arithmetic types, three enum types and bit-fields of ten widths, every integer literal spelling by base/suffix/magnitude, "
             "character/floating literals and ~110 pointer/qualifier/decay/member expressions are typed by cproc (observed via _Generic selection emitted as data) and compared with the "
             "C11 typing model; random nested expressions and random derived-type pairs for __builtin_types_compatible_p extend the search. The enumerated spaces are complete on x86_64 "
             "(10 % sample on the other two targets in quick, complete in thorough). Enumeration constants (18 boundary values x differently typed initialisers, fixed underlying types, forward declarations), typeof/typeof_unqual and conversions that _Generic cannot see (observed through sizeof/typeof) are tabulated too. Probes of the predefined identifier __func__ (array type with terminator) inside function bodies. Function-scope probes of block-scope tag declarations (`struct S;` hiding an outer S).",
        note="cmodel.py typing rules are the oracle; clang --target (and gcc for compatibility judgements) arbitrate; enum pointees and top-level qualified arrays are excluded from the compatibility pairs because gcc/clang deviate from C11 there."),
    "C14": dict(
        category="exploration", design_ref="DESIGN.md 3/C14",
        engine="hypothesis+enumeration",
        technique="model-based property testing with an independent UTF-8/16/32 + escape encoder (clang --target arbitration), exhaustive escape tables for every prefix, exhaustive catalogue of malformed UTF-8 that must be rejected or passed through unaltered",
        text="Generated string and character literals (all prefixes, all UTF-8 lengths and planes, simple/octal/hex escapes followed by digit-like characters, 2-4 way concatenations, "
             "explicit bounds, pointers, sizeof) are compiled for three targets and the emitted code units compared with an independent encoder; every octal and hex escape value 0..255 is "
             "checked for every prefix (plain ones valued as char per target); 24 malformed UTF-8 sequences x 5 prefixes x 2 positions and 16 malformed literals must be diagnosed. Hexadecimal escapes are zero-padded to up to 33 digits. A quarter of the literals carry 1-3 backslash-newline pairs in a row at drawn positions of their spelling.",
        note="Not asserted (implementation-defined or pinned otherwise by the test suite): signedness of u8 string elements, out-of-range escapes in strings, multi-character constants, non-ASCII in unprefixed/u8 character constants."),
    "C12": dict(
        category="exploration", design_ref="DESIGN.md 3/C12, 4",
        engine="hypothesis+enumeration",
        technique="differential property-based testing of macro expansion: generated macro sets and uses, cproc's token stream (hook H1) against the expansion on which gcc's cpp and clang -E agree; IL of program vs IL of its expanded text; redefinition accept/reject; catalogue of invocation errors",
        text="Generated macro sets (object/function-like, variadic, #, self/mutual reference, undef/redefine histories) applied in free token sequences: the token stream cproc-qbe -E delivers must equal the "
             "one both reference preprocessors produce; programs using arithmetic macros must compile to the same IL as their cpp-expanded text; redefinitions are accepted iff benign (both references agree); "
             "31 malformed definitions/invocations/unsupported directives must be rejected. Use / identical-redefinition / use histories over mutually recursive macros.",
        note="Used only where cpp and clang agree; ##, #if*, #include, _Pragma, __VA_OPT__, predefined macros are documented as unimplemented and not generated (their rejection is checked); one recorded finding "
             "(stringizing an argument that contains a function-like invocation) is steered away from by generating '#' only in units without nested invocations."),
    "C13": dict(
        category="exploration", design_ref="DESIGN.md 3/C13, 4",
        engine="enumeration+hypothesis",
        technique="bounded-exhaustive enumeration of punctuator strings and keyword perturbations plus Hypothesis token texts with backslash-newlines (single, runs, pairs) inserted at every position, tokenised by cproc (hook H1) and by an independent C11 6.4 reference lexer",
        text="All strings of length <= 3 over the 25-character punctuator alphabet (plus 10 % of length 4 per seed; all 406 900 in thorough), every keyword spelling of C11/C23/GNU alternates with all one-character "
             "perturbations (also hook-free through acceptance of `int <word> = 1;`), and generated texts of all token classes with comments and every variant with one backslash-newline, a run of two or three adjacent ones, or two separate ones are tokenised identically by cproc and clex.py.",
        note="clex.py is the oracle (written from C11 6.4; digraphs are documented as not implemented and excluded); hook H1 is trusted to print what next() returns, cross-checked hook-free for keywords."),
    "C11": dict(
        category="exploration", design_ref="DESIGN.md 3/C11",
        engine="hypothesis",
        technique="model-based property testing: generated programs decorated with line markers, #line, splices (also runs of backslash-only lines directly after a directive), multi-line comments and invocations; the location in cproc's diagnostic is compared with a presumed-location tracker written from C11 6.10.4, cross-checked per case against gcc's location",
        text="One catalogue violation is placed on known physical line(s) of a decorated valid program; the first diagnostic must have the form file:line:col: error: and name the presumed file and one of the "
             "presumed lines the construct occupies. Cases where gcc's reported location disagrees with the tracker are discarded. A third of the cases is compiled a second time as the second input file on the command line: locations must not move.",
        note="Only constructs whose diagnostic is raised at one of their own tokens are used; one recorded finding (file-scope object of incomplete type diagnosed at end of unit) is replayed separately."),
    "C10": dict(
        category="exploration", design_ref="DESIGN.md 3/C10",
        engine="enumeration+hypothesis",
        technique="catalogue-driven negative testing: ~330 violating templates joined to the error()/fatal() sites extracted from the working tree, instantiated at file/block scope, inside macro expansions, after line markers and inside Hypothesis-generated host programs; two-directional oracle with a gcc -pedantic-errors guard",
        text="Every catalogue entry (constraint violations of declarations, expressions, statements, initialisers, literals, directives; unsupported features) must be rejected with status 1 and a well-formed diagnostic "
             "while the same host program without it compiles to valid IL. The evidence lists which diagnostic sites of the current tree were reached and which were not.",
        note="Covers the checks that exist plus the constraints the property names; sites that are internal errors or need a prior defect stay uncovered (listed in evidence); gcc 12 -pedantic-errors guards language-level entries."),
    "C09": dict(
        category="exploration", design_ref="DESIGN.md 3/C09",
        engine="enumeration+hypothesis",
        technique="bounded-exhaustive enumeration of declaration histories of one identifier plus Hypothesis multi-identifier units; the symbol table read from the emitted IL is compared with the ELF symbol tables of gcc and clang (used only where both accept and agree)",
        text="Histories of up to 3 declarations/definitions (objects: 6 storage-class combinations; functions: 6 specifier combinations; file/block scope; with/without initialiser or body) and random units with "
             "interleaved histories, block-scope externs/statics, tentative arrays, asm labels and thread-locals: defined symbols with export flag, kind, size and zero-ness, no-linkage objects and undefined references must match the references. Array-typed histories (which declaration gives the length), declarations hidden behind a local of the same name, and hand-written units of thread-locals whose initialisers emit helper objects are included. Function histories are also run with respelled specifiers (_Noreturn at any position, reversed order, __inline__).",
        note="gcc 12 and clang 14 (-std=c11 -pedantic-errors, implicit declarations as errors) are the oracle instead of a hand-written linkage model; quick tier samples 1/7 of the length-2/3 histories per seed, thorough enumerates all (and samples length 4); two recorded findings are replayed separately."),
    "C16": dict(
        category="exploration", design_ref="DESIGN.md 3/C16",
        engine="rapidcheck+hypothesis",
        technique="model-based testing: rapidcheck operation histories against map.c with a std::unordered_map model and engineered hash collisions; Hypothesis scope trees with systematic shadowing checked against the generator's own scope model; goto chains executed via il2c; macro define/undef/use histories over hash-colliding names against a dictionary model; string-literal identity",
        text="(a) map.c linked in-process: insert/lookup/overwrite/reinit histories with keys colliding in the low bits of the table hash for every table size, model and structural invariants after every step. "
             "(b) generated units with up to 5000 (50000 thorough) identifiers, 200-deep scopes and shadowing between enumeration constants, typedefs, objects and tags: every use must denote the declaration the scope model selects; "
             "5000-label goto chains, 50000 macros and prefix-sharing string literals of every width resolve to their own entity. Typedefs are repeated in their scope directly and through object-like and function-like macros.",
        note="(a) capacities 1 and 2 can fill completely (lookup of an absent key would not terminate); cproc only uses capacities >= 8, the harness skips and counts those lookups. (b) the scope model is the generator's own; IL executed through il2c."),
    "C08": dict(
        category="exploration", design_ref="DESIGN.md 3/C08",
        engine="hypothesis",
        technique="differential property-based testing of the calling convention: generated signatures with aggregate/variadic arguments, four-way mixed executables (cproc via il2c x gcc) compared with the gcc/gcc control; structural comparison of IL type descriptions with clang --target layouts on three targets",
        text="Dynamic (x86_64): position-dependent argument patterns cross the boundary between cproc-compiled (IL rebuilt into C structs from the emitted type descriptions, executed via il2c) and gcc-compiled code in both "
             "directions, every leaf and the returned aggregate must arrive intact. Structural (3 targets): size, alignment and per-eightbyte class sets of every IL aggregate type equal the C layout from clang offsetof tables; "
             "parameter/return descriptors and the variadic marker position match the prototype. An assembler callee returns every narrow result with all bits the psABI leaves undefined set (24 uses x 9 functions, direct and indirect); variable arguments cover every type that needs the default promotions, 64-bit enums and bit-fields, with values that use all 64 bits.",
        note="The host C ABI classifies the rebuilt structs as QBE would from the same description (trusted); aarch64/riscv64 get only the structural half; aggregates with bit-fields trip a recorded finding (emittype) whose three signatures are suppressed; "
             "packed/_Alignas-member aggregates by value (C01 findings) are not generated."),
    "C02": dict(
        category="exploration", design_ref="DESIGN.md 3/C02",
        engine="hypothesis+enumeration",
        technique="differential testing of stage 1 (gcc-built) against stage 2 (cproc's own IL for its sources, translated by il2c and built with gcc) on generated valid programs, constant-expression units and the C04 fold table (stage 2 folds with cproc's own lowering of eval.c), catalogue violations, token mutants, the test corpus and cproc's own sources; bootstrap fixed-point comparison",
        text="Stage 2 is rebuilt from the current tree on every run. Both binaries (same basename, different directories) are run with identical arguments on every input x target x {compile, -E}; stdout, stderr and exit status must be "
             "byte-identical, and stage 2 must reproduce the stage-1 IL of every source of the compiler. A tree whose stage 1 cannot compile the compiler's own sources (or emits malformed IL for them) is reported as a violation with a replay.",
        note="Stage 2 goes through il2c + gcc -O1 rather than QBE + as + ld, so defects of the real backend are out of reach; inputs on which stage 1 crashes are skipped (C19)."),
    "C17": dict(
        category="exploration", design_ref="DESIGN.md 3/C17, 11",
        engine="hypothesis",
        technique="model-based property testing of the driver: Hypothesis draws command lines from the option grammar of cproc(1); the driver (three builds, one per target triple) runs with recording stand-in tools; argv, pipe identity, inherited descriptors, outputs and exit status are compared with a model written from cproc.1/README",
        text="Command lines with up to 6 inputs of all 7 types (by suffix and -x), every mode flag (also repeated), -o in all forms, every forwarding option attached and detached, ignored, unknown and dangling options, "
             "and a second source with undocumented-but-accepted options (weaker oracle): stages per input, pipe order, each tool's argument multiset and per-group order, link-line order, output names, "
             "-v trace, usage errors (status 2, nothing run, nothing written) must match the model. Exploration level. Every ordered pair of 28 options is enumerated in four layouts around fixed inputs (the effect of an option must not depend on the position of another). Option values include strings that begin with a dash, attached and detached.",
        note="The tools are stand-ins (native/stub.c), so only the driver's own behaviour is observed; where cproc.1 is silent every behaviour is accepted (marked PERMISSIVE in vlib/props/c17.py); two recorded findings "
             "(-emit-qbe default output, -pthread position) are matched only when the observation equals the model with exactly that rule changed."),
    "C18": dict(
        category="fault_enumeration", design_ref="DESIGN.md 3/C18, 11",
        engine="enumeration+hypothesis",
        technique="fault injection through stand-in tools: exhaustive enumeration of single faults (pipeline shape x stage instance x fault kind x fast/slow neighbours) plus Hypothesis multi-fault vectors with delays and large outputs; invariants of the property statement as oracle, orphan detection via PR_SET_CHILD_SUBREAPER",
        text="Every single-fault vector over 1-3 inputs x last stage in {preprocess, compile, codegen, assemble, link} x {command missing, exit 1 before reading / after half the output / after finishing, SIGSEGV, SIGKILL} is enumerated "
             "(exhaustive for that space); multi-fault vectors, delays, mixed input types and outputs larger than a pipe buffer are drawn. Any fault must give exit status > 0, no link step, no outputs of failing pipelines, "
             "no temporary object left, no stage process orphaned or still running, slow neighbours terminated, termination within 20 s; fault-free vectors must succeed with complete outputs. Further dimensions: the driver inherits a child it did not spawn (exits while it waits), and '-o -' (refused for objects with nothing started or left behind). A third of the fault vectors run the driver under a 241-character name (symbolic link) or from a directory 240 characters deeper.",
        note="Faults are those a stand-in can produce (exit status, signals, missing command, partial output, delay); kernel-level interleavings are not enumerated, termination orders are forced with delays only; "
             "temporaries are recognised by the /tmp/cproc-XXXXXX names seen in argv or the -v trace."),
}

NOT_YET = "check not built yet in this round (planned per DESIGN.md section 10); no claim is made"

m = dict(
    version=1,
    setup_cmd="./setup.sh",
    hooks=dict(guard="CPROC_VERIF",
               enable="vlib/build.py builds /repo out of tree through its Makefile with CFLAGS containing -DCPROC_VERIF (variants hook/asan/fuzzobj)",
               baseline_off_cmd="cd /repo && make && make check",
               source_commits=["verif hook H1: token-per-line dump under -E when CPROC_VERIF_TOKDUMP is set (guard CPROC_VERIF)"], add_only=True),
    engines=[
        dict(name="hypothesis", path="vlib/runner.py", serves_properties=[], kind_free_text="Hypothesis 6.168 strategies driven by a 16-process worker pool; shrinking; replay files"),
        dict(name="libfuzzer", path="native/fuzz_harness.c", serves_properties=["C19"], kind_free_text="clang 14 libFuzzer, fork-per-input harness with shared coverage counters, ASan+UBSan"),
        dict(name="rapidcheck", path="native/maptree_rc.cpp", serves_properties=[], kind_free_text="rapidcheck in-process harness linking /repo's map.c, tree.c and util.c; RC_PARAMS seed from VERIF_SEED; also drives the exhaustive insertion-order enumeration"),
        dict(name="enumeration", path="vlib/runner.py", serves_properties=[], kind_free_text="bounded-exhaustive enumerators run through the same oracle functions"),
    ],
    checks=[], not_applicable=[],
    notes="All checks: ./check <ID> [--tier quick|thorough] [--replay FILE]; VERIF_SEED/VERIF_TIER honoured; exit 2 = machinery/tree broken.",
)
for p in props:
    pid = p["id"]
    c = CLAIMED.get(pid)
    if not c:
        m["not_applicable"].append(dict(property_id=pid, reason=NOT_YET))
        continue
    m["checks"].append(dict(
        property_id=pid,
        quick_cmd="./check %s --tier quick" % pid,
        thorough_cmd="./check %s --tier thorough" % pid,
        evidence_file="/verif/evidence/%s.json" % pid,
        replay_cmd_template="./check %s --replay {path}" % pid,
        engine=c["engine"],
        level_claimed=dict(category=c["category"], text=c["text"], design_ref=c["design_ref"]),
        level_note=c["note"],
        technique=c["technique"],
    ))
    for e in m["engines"]:
        if e["name"] in c["engine"] and pid not in e["serves_properties"]:
            e["serves_properties"].append(pid)
json.dump(m, open(os.path.join(V, "MANIFEST.json"), "w"), indent=1)
import jsonschema
jsonschema.validate(m, json.load(open("/root/.vp/MANIFEST.schema.json")))
print("MANIFEST ok:", [c["property_id"] for c in m["checks"]])
