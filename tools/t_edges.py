import sys, time
sys.path.insert(0, '/verif')
from vlib.props import c19
from vlib import runner, cproc
import tempfile
ctx = runner.Ctx('C19', 'quick', 0); ctx.tmp = tempfile.mkdtemp()
c19.prepare(ctx)
v = sys.argv[1] if len(sys.argv)>1 else 'plain'
for i,e in enumerate(c19.EDGES):
    t0=time.time()
    p = cproc.cc(ctx, (e+"\n").encode('utf-8','surrogateescape'), 'x86_64-sysv', v, [], timeout=10, preexec=cproc.limits(as_mb=None if v=='asan' else 4096))
    dt=time.time()-t0
    c = cproc.classify(p)
    if dt>0.5 or c: print(i, repr(e[:70]), '%.2fs'%dt, c and c[:2], p.rc, flush=True)
