#!/bin/sh
# setup_cmd: build/verify what does not depend on /repo.  Everything that depends on /repo is
# rebuilt by each check from the current working tree (vlib/build.py).
set -e
cd "$(dirname "$0")"
python3-vt -B -c "import hypothesis, jsonschema" 
mkdir -p .cache evidence replays
python3-vt -B -m vlib.selftest
