void chk_i64(long long);
void chk_u64(unsigned long long);
void chk_f64(double);
void chk_f32(float);
void chk_str(const char *);
void chk_bytes(const void *, unsigned long);

struct s { int a; short b; char c; long d; };
struct bf { unsigned a:3; int b:5; unsigned c:9; long d:40; };
union u { int i; float f; unsigned char b[4]; };

static int g = 5;
int arr[5] = {1, 2, 3};
const char *str = "hello";
_Thread_local int tl = 7;
struct s gs = {1, 2, 3, 4};

static int fact(int n) { return n <= 1 ? 1 : n * fact(n - 1); }
static struct s mk(int x) { struct s r = {x, x + 1, x + 2, x + 3}; return r; }
static long sum(struct s v) { return v.a + v.b + v.c + v.d; }
static double avg(int n, ...) {
	__builtin_va_list ap;
	double t = 0;
	__builtin_va_start(ap, n);
	for (int i = 0; i < n; i++)
		t += __builtin_va_arg(ap, double);
	__builtin_va_end(ap);
	return t / n;
}
static int sw(long x) {
	switch (x) {
	case 1: return 10;
	case -5: return 20;
	case 0x100000000: return 30;
	default: return 40;
	case 7: case 8: return 50;
	}
}

int main(void) {
	chk_i64(fact(10));
	chk_i64(g + arr[2] + arr[4]);
	chk_str(str);
	chk_i64(tl);
	struct s v = mk(10);
	chk_i64(sum(v));
	chk_i64(sum(gs));
	struct bf b = {5, -3, 300, -1234567};
	b.a += 6; b.b--; b.c <<= 1; b.d *= 3;
	chk_u64(b.a); chk_i64(b.b); chk_u64(b.c); chk_i64(b.d);
	union u q; q.f = 1.5f; chk_u64(q.i); chk_bytes(&q, 4);
	chk_f64(avg(3, 1.0, 2.0, 4.5));
	chk_f32(1.1f * 3); chk_f64((double)0.1f + 1e-3);
	chk_i64(sw(1)); chk_i64(sw(-5)); chk_i64(sw(0x100000000)); chk_i64(sw(3)); chk_i64(sw(8));
	unsigned char uc = 200; signed char sc = -100; short sh = -30000; unsigned u = 4000000000u; long l = -5000000000;
	chk_i64(uc + sc); chk_i64(sh * 3); chk_u64(u + u); chk_i64(l / 7); chk_i64(l % 7); chk_u64((unsigned long)l >> 3); chk_i64(l >> 3);
	chk_i64((int)3.99); chk_i64((int)-3.99); chk_u64((unsigned)3e9); chk_f64(u); chk_f64(l); chk_f32(u); chk_u64((unsigned long)1.5e19);
	int n = 4; int vla[n]; for (int i = 0; i < n; i++) vla[i] = i * i; chk_i64(vla[3] + sizeof vla);
	char *p = __builtin_alloca(16); p[15] = 9; chk_i64(p[15]);
	int i = 0, k = 0; do { if (i == 3) continue; if (i == 6) break; k += i; } while (++i < 10); chk_i64(k);
	for (i = 0; i < 3; i++) { switch (i) { case 0: k += 100; break; case 1: k += 1000; case 2: k += 10000; } } chk_i64(k);
	_Alignas(64) char big[64]; chk_i64(((unsigned long)big & 63) == 0);
	long double; 
	return 3;
}
